"""SH — process-spawn reconstruction and embedded-shell template analysis (DESIGN §4 SH, Appendix E)."""
import functools
import re

from cfg import cfg_of
from facts import callee, const_val
from flow import flow_of

CMD_NEW = ('std::process::Command::new', 'tokio::process::Command::new')
CMD_ARG = ('std::process::Command::arg', 'tokio::process::Command::arg')
CMD_ARGS = ('std::process::Command::args', 'tokio::process::Command::args')
CMD_RUN = ('std::process::Command::spawn', 'tokio::process::Command::spawn', 'std::process::Command::output',
           'tokio::process::Command::output', 'std::process::Command::status', 'tokio::process::Command::status')


class Cmd:
    def __init__(self, body, new_bb, program):
        self.body = body
        self.new_bb = new_bb
        self.program = program      # operand
        self.args = []              # [(bb, operand)] in order
        self.run = []               # [(bb, callee)]
        self.other = []             # builder calls (stdin/stdout/...)

    def program_const(self):
        return const_val(self.program)


def commands(body):
    """Every Command::new(..) builder chain in `body` with its ordered arguments."""
    fl = flow_of(body)
    cfg = fl.cfg
    out = []
    news = fl.calls(lambda c: c in CMD_NEW)
    for nb, nt in news:
        cmd = Cmd(body, nb, nt['args'][0])
        for cb, ct in fl.calls(lambda c: c.startswith('std::process::Command::') or c.startswith('tokio::process::Command::')):
            if cb == nb:
                continue
            c = callee(ct)
            if not ct['args']:
                continue
            os_ = fl.origins(ct['args'][0], mut_calls=False)
            # the builder methods return &mut Self: follow the chain back to the `new`
            if not _chain_reaches(fl, ct['args'][0], nb, set()):
                continue
            if c in CMD_ARG:
                cmd.args.append((cb, ct['args'][1]))
            elif c in CMD_ARGS:
                cmd.args.append((cb, ct['args'][1]))
            elif c in CMD_RUN:
                cmd.run.append((cb, c))
            else:
                cmd.other.append((cb, c))

        def before(x, y):
            if x[0] == y[0]:
                return 0
            if cfg.dominates(x[0], y[0]):
                return -1
            if cfg.dominates(y[0], x[0]):
                return 1
            return x[0] - y[0]
        cmd.args.sort(key=functools.cmp_to_key(before))
        out.append(cmd)
    return out


def _chain_reaches(fl, op, new_bb, seen):
    """Does the builder value `op` derive from the Command::new call in block new_bb (through &mut / chained calls)?"""
    for o in fl.origins(op):
        if o.kind == 'call':
            if o.bb == new_bb:
                return True
            if (o.key.startswith('std::process::Command::') or o.key.startswith('tokio::process::Command::')) and o.bb not in seen:
                seen.add(o.bb)
                t = fl.body.blocks[o.bb]['term']
                if t['args'] and _chain_reaches(fl, t['args'][0], new_bb, seen):
                    return True
    return False


# ---------------------------------------------------------------- shell template grammar
MUTATING_VERBS = ('mv', 'rm', 'mkdir', 'touch', 'cp', 'ln', 'chmod', 'chown', 'tee', 'dd', 'truncate', 'rmdir', 'install')


class Tok:
    def __init__(self, kind, text=None, hole=None, quote=None):
        self.kind = kind        # 'lit' | 'hole' | 'op'
        self.text = text
        self.hole = hole        # index into the template's hole list
        self.quote = quote      # None (bare) | "'" | "$'"

    def __repr__(self):
        return '%s(%r,%r,%r)' % (self.kind, self.text, self.hole, self.quote)


def tokenize(pieces):
    """pieces: list of str | ('hole', i).  -> (words, problems).  A word is a list of Tok segments;
    operators (&&, ||, |, >, >>, <, ;) are single-segment words of kind 'op'."""
    words, cur, problems = [], [], []
    quote = None

    def flush():
        nonlocal cur
        if cur:
            words.append(cur)
            cur = []
    for p in pieces:
        if not isinstance(p, str):
            cur.append(Tok('hole', hole=p[1], quote=quote))
            continue
        i = 0
        while i < len(p):
            ch = p[i]
            if quote is None:
                if ch in ' \t\n':
                    flush()
                    i += 1
                elif p.startswith("$'", i):
                    quote = "$'"
                    cur.append(Tok('lit', '', quote=quote))
                    i += 2
                elif ch == "'":
                    quote = "'"
                    cur.append(Tok('lit', '', quote=quote))
                    i += 1
                elif ch == '"':
                    problems.append('double-quoted segment (expansions inside are not modelled)')
                    quote = '"'
                    cur.append(Tok('lit', '', quote=quote))
                    i += 1
                elif p.startswith('&&', i) or p.startswith('||', i) or p.startswith('>>', i):
                    flush()
                    words.append([Tok('op', p[i:i + 2])])
                    i += 2
                elif ch in '|><;&':
                    flush()
                    words.append([Tok('op', ch)])
                    i += 1
                elif ch in '`$(){}*?[]~!#\\':
                    problems.append('unquoted shell metacharacter %r' % ch)
                    cur.append(Tok('lit', ch, quote=None))
                    i += 1
                else:
                    if cur and cur[-1].kind == 'lit' and cur[-1].quote is None:
                        cur[-1].text += ch
                    else:
                        cur.append(Tok('lit', ch, quote=None))
                    i += 1
            elif quote == "'":
                if ch == "'":
                    quote = None
                else:
                    cur[-1].text += ch if cur[-1].kind == 'lit' else ''
                    if cur[-1].kind != 'lit':
                        cur.append(Tok('lit', ch, quote="'"))
                i += 1
            elif quote == "$'":
                if ch == '\\' and i + 1 < len(p):
                    tgt = cur[-1] if cur[-1].kind == 'lit' and cur[-1].quote == "$'" else None
                    if tgt is None:
                        cur.append(Tok('lit', '', quote="$'"))
                    cur[-1].text += p[i:i + 2]
                    i += 2
                elif ch == "'":
                    quote = None
                    i += 1
                else:
                    if cur[-1].kind != 'lit' or cur[-1].quote != "$'":
                        cur.append(Tok('lit', '', quote="$'"))
                    cur[-1].text += ch
                    i += 1
            else:  # double quote
                if ch == '"':
                    quote = None
                else:
                    if cur[-1].kind != 'lit':
                        cur.append(Tok('lit', '', quote='"'))
                    cur[-1].text += ch
                i += 1
    if quote is not None:
        problems.append('unterminated %s quote' % quote)
    flush()
    return words, problems


def split_commands(words):
    """-> list of (connector_before, [words]) simple commands; connector in (None,'&&','||','|',';')."""
    out = []
    cur = []
    conn = None
    for w in words:
        if len(w) == 1 and w[0].kind == 'op' and w[0].text in ('&&', '||', '|', ';', '&'):
            out.append((conn, cur))
            cur = []
            conn = w[0].text
        else:
            cur.append(w)
    out.append((conn, cur))
    return out


def word_text(w):
    return ''.join((t.text or '') if t.kind != 'hole' else '{%d}' % t.hole for t in w)


def simple_verb(cmd_words):
    for w in cmd_words:
        if len(w) == 1 and w[0].kind == 'op':
            continue
        return word_text(w)
    return ''


def is_mutating(cmd_words):
    """A simple command that can change the remote file system."""
    verb = simple_verb(cmd_words)
    if verb in MUTATING_VERBS:
        return True
    for w in cmd_words:
        if len(w) == 1 and w[0].kind == 'op' and w[0].text in ('>', '>>'):
            return True
    if verb == 'xargs':
        rest = [word_text(w) for w in cmd_words[1:]]
        return any(r in MUTATING_VERBS for r in rest)
    return False


def xargs_delimiter(cmd_words):
    """'nul' | 'newline' | 'other' | None(not xargs)"""
    if simple_verb(cmd_words) != 'xargs':
        return None
    texts = [word_text(w) for w in cmd_words[1:]]
    for i, t in enumerate(texts):
        if t in ('-0', '--null'):
            return 'nul'
        if t == '-d' and i + 1 < len(texts):
            d = texts[i + 1]
            return 'nul' if d in ('\\0', '\\x00') else 'newline' if d in ('\\n', '\n') else 'other'
    return 'whitespace'
