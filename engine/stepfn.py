"""Loop-head transition systems by symbolic path enumeration over MIR (no execution, no solver).

A function whose loops are simple `while` loops is cut at its loop heads.  From the entry and from every loop head all
acyclic paths are enumerated up to the next loop head or a return; each path yields (guards, target, state), where guards
are symbolic branch conditions over the state at the start node and state maps the locals assigned on the path to symbolic
terms.  A rule then compares this finite transition system with a reference one by enumerating the valuations of a small
atom vocabulary (the same idea as dd.py, extended with state updates).

Terms (tuples, hashable):
  ('c', v)                     constant (int / char code / bool as 0/1)
  ('v', l)                     value of local l at the start node
  ('off', base, k)             base + k (k != 0), base not itself an 'off'/'c'
  ('len', x) ('idx', x, i)     length of / element of a sequence value
  ('cmp', op, a, b)            Lt Le Gt Ge Eq Ne
  ('some', x) ('none',)        Option values;  ('payload', x)  ('is_some', x)
  ('tuple', (..)) ('ovf', x)   tuple aggregate / checked-arithmetic pair (value, false)
  ('call', callee, (args..))   anything else (opaque)
"""

from flow import norm


class Unmodelled(Exception):
    pass


def add(t, k):
    if k == 0:
        return t
    if t[0] == 'c' and isinstance(t[1], int):
        return ('c', t[1] + k)
    if t[0] == 'off':
        return add(t[1], t[2] + k)
    return ('off', t, k)


def add_terms(a, b):
    if b[0] == 'c' and isinstance(b[1], int):
        return add(a, b[1])
    if a[0] == 'c' and isinstance(a[1], int):
        return add(b, a[1])
    return ('call', '+', (a, b))


def sub_terms(a, b):
    if b[0] == 'c' and isinstance(b[1], int):
        return add(a, -b[1])
    return ('call', '-', (a, b))


def callee_of(t):
    f = t.get('func', {})
    return norm(f['fn']) if 'fn' in f else None


class Path:
    __slots__ = ('guards', 'target', 'env', 'ret', 'blocks')

    def __init__(self, guards, target, env, ret, blocks):
        self.guards, self.target, self.env, self.ret, self.blocks = guards, target, env, ret, blocks


class SymExec:
    MAX_PATHS = 400

    def __init__(self, body, heads):
        self.b = body
        self.heads = set(heads)

    # ------------------------------------------------------------------ values
    def place(self, env, p):
        t = env.get(p['l'], ('v', p['l']))
        for e in p['proj']:
            if e == 'deref':
                continue
            if isinstance(e, dict) and 'dc' in e:
                if t[0] == 'some' and e.get('name') == 'Some':
                    t = ('downcast-some', t[1])
                else:
                    t = ('downcast', e.get('name'), t)
                continue
            if isinstance(e, dict) and 'f' in e:
                f = e['f']
                if t[0] == 'tuple' and f < len(t[1]):
                    t = t[1][f]
                elif t[0] == 'ovf':
                    t = t[1] if f == 0 else ('c', 0)
                elif t[0] == 'downcast-some' and f == 0:
                    t = t[1]
                elif t[0] == 'downcast' and t[1] == 'Some' and f == 0:
                    t = ('payload', t[2])
                else:
                    t = ('field', f, t)
                continue
            t = ('proj', repr(e), t)
        return t

    def operand(self, env, op):
        if op['k'] == 'const':
            v = op.get('v')
            if isinstance(v, bool):
                return ('c', int(v))
            if isinstance(v, int):
                return ('c', v)
            if 's' in op:
                return ('c', op['s'])
            return ('c', op.get('dbg'))
        if 'p' in op:
            return self.place(env, op['p'])
        return ('call', 'operand:' + op['k'], ())

    def rvalue(self, env, rv):
        k = rv['k']
        if k == 'use':
            return self.operand(env, rv['ops'][0])
        if k in ('ref', 'rawptr'):
            return self.place(env, rv['p'])
        if k == 'cast':
            return self.operand(env, rv['ops'][0])
        if k == 'bin':
            a, b = self.operand(env, rv['ops'][0]), self.operand(env, rv['ops'][1])
            op = rv['op']
            if op in ('Lt', 'Le', 'Gt', 'Ge', 'Eq', 'Ne'):
                return ('cmp', op, a, b)
            if op in ('Add', 'AddUnchecked'):
                return add_terms(a, b)
            if op == 'AddWithOverflow':
                return ('ovf', add_terms(a, b))
            if op in ('Sub', 'SubUnchecked'):
                return sub_terms(a, b)
            if op == 'SubWithOverflow':
                return ('ovf', sub_terms(a, b))
            return ('call', op, (a, b))
        if k == 'un':
            a = self.operand(env, rv['ops'][0])
            if rv['op'] == 'Not' and a[0] == 'cmp':
                inv = {'Lt': 'Ge', 'Ge': 'Lt', 'Le': 'Gt', 'Gt': 'Le', 'Eq': 'Ne', 'Ne': 'Eq'}
                return ('cmp', inv[a[1]], a[2], a[3])
            return ('call', rv['op'], (a,))
        if k == 'agg':
            ops = tuple(self.operand(env, o) for o in rv['ops'])
            if rv.get('ak') == 'tuple':
                return ('tuple', ops)
            if rv.get('vname') == 'Some':
                return ('some', ops[0])
            if rv.get('vname') == 'None':
                return ('none',)
            return ('call', 'agg:%s' % (rv.get('adt') or rv.get('ak')), ops)
        if k == 'discr':
            t = self.place(env, rv['p'])
            if t[0] == 'some':
                return ('c', 1)
            if t[0] == 'none':
                return ('c', 0)
            return ('discr', t)
        return ('call', 'rvalue:' + k, ())

    def call(self, env, t):
        c = callee_of(t) or '?'
        args = tuple(self.operand(env, a) for a in t['args'])
        last = c.split('::')[-1]
        if last == 'len' and len(args) == 1:
            return ('len', args[0])
        if c in ('std::ops::Index::index', 'std::ops::IndexMut::index_mut') and len(args) == 2:
            return ('idx', args[0], args[1])
        if c in ('std::ops::Deref::deref', 'std::convert::AsRef::as_ref', 'std::borrow::Borrow::borrow', 'std::clone::Clone::clone') and len(args) == 1:
            return args[0]
        if c in ('std::cmp::PartialEq::eq', 'std::cmp::PartialEq::ne') and len(args) == 2:
            return ('cmp', 'Eq' if c.endswith('eq') else 'Ne', args[0], args[1])
        if c.startswith('std::option::Option::<') and last in ('unwrap', 'expect', 'unwrap_unchecked') and args:
            return args[0][1] if args[0][0] == 'some' else ('payload', args[0])
        if c.startswith('std::option::Option::<') and last == 'is_some' and len(args) == 1:
            return ('is_some', args[0])
        if c.startswith('std::option::Option::<') and last == 'is_none' and len(args) == 1:
            return ('cmp', 'Eq', ('is_some', args[0]), ('c', 0))
        return ('call', c, args)

    # ------------------------------------------------------------------ paths
    def paths_from(self, start, first_block=None):
        """All paths from block `start` (the node) to the next loop head or a return."""
        out = []
        stack = [(first_block if first_block is not None else start, {}, [], [], 0)]
        while stack:
            bi, env, guards, seen, steps = stack.pop()
            if len(out) + len(stack) > self.MAX_PATHS:
                raise Unmodelled('too many paths from block %d' % start)
            if steps > 0 and bi in self.heads:
                out.append(Path(tuple(guards), bi, env, None, tuple(seen)))
                continue
            if bi in seen:
                raise Unmodelled('cycle that does not pass a recognised loop head (block %d)' % bi)
            blk = self.b.blocks[bi]
            env = dict(env)
            seen = seen + [bi]
            for st in blk['stmts']:
                if st['dst']['proj']:
                    env[st['dst']['l']] = ('call', 'partial-write', (env.get(st['dst']['l'], ('v', st['dst']['l'])), self.rvalue(env, st['rv'])))
                else:
                    env[st['dst']['l']] = self.rvalue(env, st['rv'])
            t = blk['term']
            k = t['k']
            if k == 'goto':
                stack.append((t['target'], env, guards, seen, steps + 1))
            elif k in ('drop', 'assert'):
                stack.append((t['target'], env, guards, seen, steps + 1))
            elif k == 'call':
                if t.get('target') is None:
                    continue        # diverging call (panic)
                if not t['dst']['proj']:
                    env[t['dst']['l']] = self.call(env, t)
                stack.append((t['target'], env, guards, seen, steps + 1))
            elif k == 'switch':
                v = self.operand(env, t['on'])
                if v[0] == 'c' and isinstance(v[1], int):
                    tgt = dict((a, b_) for a, b_ in t['targets']).get(v[1], t['otherwise'])
                    stack.append((tgt, env, guards, seen, steps + 1))
                else:
                    listed = [a for a, _ in t['targets']]
                    for a, tgt in t['targets']:
                        stack.append((tgt, env, guards + [(v, ('eq', a))], seen, steps + 1))
                    stack.append((t['otherwise'], env, guards + [(v, ('notin', tuple(listed)))], seen, steps + 1))
            elif k == 'return':
                out.append(Path(tuple(guards), 'return', env, env.get(0, ('v', 0)), tuple(seen)))
            elif k in ('resume', 'unreachable', 'terminate'):
                continue
            else:
                raise Unmodelled('terminator %s' % k)
        return out


def subst(t, m):
    """Replace ('v', l) by m[l] where present."""
    if not isinstance(t, tuple):
        return t
    if t and t[0] == 'v' and t[1] in m:
        return m[t[1]]
    if t and t[0] == 'off':
        return add(subst(t[1], m), t[2]) if subst(t[1], m)[0] in ('c', 'off') else ('off', subst(t[1], m), t[2])
    return tuple(subst(x, m) if isinstance(x, tuple) else x for x in t)


def show(t):
    if not isinstance(t, tuple) or not t:
        return str(t)
    k = t[0]
    if k == 'c':
        return repr(chr(t[1])) if isinstance(t[1], int) and 32 < t[1] < 127 and False else str(t[1])
    if k == 'v':
        return t[1] if isinstance(t[1], str) else '_%s' % t[1]
    if k == 'off':
        return '%s%+d' % (show(t[1]), t[2])
    if k == 'len':
        return 'len(%s)' % show(t[1])
    if k == 'idx':
        return '%s[%s]' % (show(t[1]), show(t[2]))
    if k == 'cmp':
        return '(%s %s %s)' % (show(t[2]), {'Lt': '<', 'Le': '<=', 'Gt': '>', 'Ge': '>=', 'Eq': '==', 'Ne': '!='}[t[1]], show(t[3]))
    if k == 'some':
        return 'Some(%s)' % show(t[1])
    if k == 'none':
        return 'None'
    if k == 'call':
        return '%s(%s)' % (str(t[1]).split('::')[-1], ', '.join(show(x) for x in t[2]))
    return '%s(%s)' % (k, ', '.join(show(x) for x in t[1:]))
