"""Helpers the rules locate by what they are USED for rather than by name (a private function may be renamed).  The same
discovery protects them from being spliced away by inline.py: a function the rules are about stays a function."""
import re

import tables
from flow import flow_of, norm

_cache = {}


def _callee(t):
    f = t.get('func', {})
    return norm(f['fn']) if 'fn' in f else None


def _calls(F, body, pred):
    out = []
    for bi, blk in enumerate(body.blocks):
        t = blk['term']
        if t['k'] == 'call' and pred(_callee(t) or ''):
            out.append((bi, t))
    return out


def hub_helpers(F):
    """(staging-name helper, current-hash helper): the crate-local fns whose result is the path of a content creator /
    the first argument of cas_decide, in serve.rs"""
    key = (id(F), 'hub')
    if key in _cache:
        return _cache[key]
    cand_t, cand_c = set(), set()
    for p, b in F.bodies.items():
        if not b.file.endswith('bin/copia/serve.rs'):
            continue
        fl = flow_of(b)
        for bi, t in _calls(F, b, lambda c: c in tables.CONTENT_CREATORS and not c.endswith('OpenOptions::open')):
            for o in fl.origins(t['args'][tables.CONTENT_CREATORS[_callee(t)]]):
                if o.kind == 'call' and F.body(o.key) is not None and not o.key.endswith('safe_join'):
                    cand_t.add(o.key)
        for bi, t in _calls(F, b, lambda c: c == 'wire::cas_decide'):
            for o in fl.origins(t['args'][0]):
                if o.kind == 'call' and F.body(o.key) is not None:
                    cand_c.add(o.key)
    res = (list(cand_t)[0] if len(cand_t) == 1 else None, list(cand_c)[0] if len(cand_c) == 1 else None)
    _cache[key] = res
    return res


def mtime_helper(F):
    """the crate-local fn (&Metadata -> i64) whose result becomes FileMeta.mtime in the local tree walk"""
    key = (id(F), 'mtime')
    if key in _cache:
        return _cache[key]
    cands = set()
    for p, b in F.bodies.items():
        if not b.file.endswith('bin/copia/meta.rs'):
            continue
        fl = flow_of(b)
        for bi, blk in enumerate(b.blocks):
            for st in blk['stmts']:
                rv = st['rv']
                if rv['k'] == 'agg' and rv.get('adt') == 'plan::FileMeta' and len(rv['ops']) == 2:
                    for o in fl.origins(rv['ops'][1]):
                        if o.kind == 'call' and F.body(o.key) is not None:
                            cb = F.body(o.key)
                            if cb.argc == 1 and 'Metadata' in cb.local_ty(1) and cb.local_ty(0) == 'i64':
                                cands.add(o.key)
    res = list(cands)[0] if len(cands) == 1 else None
    _cache[key] = res
    return res


def digest_renderers(F):
    """crate-local fns (&[u8; 32] -> String) called from bidir.rs: what prints a digest into a conflict-copy name"""
    key = (id(F), 'digest')
    if key in _cache:
        return _cache[key]
    out = set()
    for p, b in F.bodies.items():
        if not b.file.endswith('bin/copia/bidir.rs'):
            continue
        for bi, t in _calls(F, b, lambda c: F.body(c) is not None):
            cb = F.body(_callee(t))
            if cb.argc == 1 and cb.local_ty(1).replace(' ', '') == '&[u8;32]' and cb.local_ty(0) == 'std::string::String':
                out.add(cb.path)
    _cache[key] = out
    return out


def atomic_publishers(F):
    """top-level fns of the bisync module that both create file content and rename: the delivery primitives (`copy_atomic`,
    or whatever a refactor turned it into - `copy_checked(src, dst, expect)` with `copy_atomic` as a thin wrapper)"""
    key = (id(F), 'publishers')
    if key in _cache:
        return _cache[key]
    out = set()
    for p, b in list(F.bodies.items()) + list(getattr(F, 'inlined', {}).items()):
        if '::{' in p or not b.file.endswith('bin/copia/bidir.rs') or b.kind != 'fn':
            continue
        cs = {(_callee(t) or '') for _, t in _calls(F, b, lambda c: True)}
        creates = any(c in tables.CONTENT_CREATORS and not c.endswith('OpenOptions::open') for c in cs)
        renames = any(c.endswith('fs::rename') for c in cs)
        if creates and renames:
            out.add(p)
    _cache[key] = out
    return out


def protected(F):
    """function paths that must stay functions (never spliced into their callers)"""
    out = set()
    if any(b.file.endswith('bin/copia/serve.rs') for b in F.bodies.values()):
        out |= {x for x in hub_helpers(F) if x}
        m = mtime_helper(F)
        if m:
            out.add(m)
    out |= digest_renderers(F)
    out |= atomic_publishers(F)
    out |= byte_decoders(F)
    out |= set(lock_runners(F))
    return out


def lock_runners(F):
    """{fn path: index of the argument that is run under the lock}: crate-local fns of the hub daemon that take an exclusive
    file lock and call one of their parameters (`with_commit_lock(lockdir, f)`, or the same as a method of a context object)"""
    key = (id(F), 'lockrun')
    if key in _cache:
        return _cache[key]
    out = {}
    for p, b in list(F.bodies.items()):
        if '::{' in p or b.kind != 'fn' or not b.file.endswith('bin/copia/serve.rs'):
            continue
        locks = _calls(F, b, lambda c: c.endswith('::lock_exclusive') or c.endswith('::lock'))
        if not locks:
            continue
        fl = flow_of(b)
        for bi, t in _calls(F, b, lambda c: c in ('std::ops::FnOnce::call_once', 'std::ops::FnMut::call_mut', 'std::ops::Fn::call')):
            for o in fl.origins(t['args'][0]):
                if o.kind == 'param' and not o.path:
                    out[p] = o.key - 1
    _cache[key] = out
    return out


def byte_decoders(F):
    """functions that turn one byte into a value of a crate enum (u8 -> Result/Option<Enum>) by a table: the C20 rules read the
    table in the function and treat a call of it as `decoded from this byte`"""
    out = set()
    for p_, b_ in F.bodies.items():
        if b_.kind != 'fn' or b_.argc != 1 or b_.local_ty(1) != 'u8':
            continue
        rt = b_.local_ty(0)
        if rt.startswith(('std::result::Result<', 'std::option::Option<')) and not rt.split('<', 1)[1].startswith(('std::', 'core::', 'u', 'i', '&', '(', '[')):
            if any(blk['term']['k'] == 'switch' and len(blk['term']['targets']) >= 3 for blk in b_.blocks):
                out.add(p_)
    return out
