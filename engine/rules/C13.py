"""C13 — hub-sync lands the local tree on the hub and skips what is already there (DESIGN §7 C13)."""
import re
from rules.common import *  # noqa: F401,F403
import shell
import tables

CONFIGS = ['cli']
LEVEL = 'other'
EXPLANATION = (
    'Decides the client half: (R1) hub_sync iterates the whole local fingerprint map and each file either is skipped on the equal edge of '
    'listed-hash == local-hash or is Put; (R2) the Put carries the path, the listed hash as `expected`, the content of local_root.join(rel) and the local '
    'digest of the same loop entry; HubClient::put announces the file\'s metadata length and streams that file; (R3) a non-committed Put latches a variable (counter, bool or Option) that is never reset and guards the Ok return, the loop always goes on to the next local entry after a Put reply (a lost CAS does not stop the push), '
    'and every I/O error propagates; (R4) the client module neither deletes, mutates files, nor sends Delete; List hides only the .copia control '
    'directory; the hiding predicate must be the component-wise Path::starts_with (a string prefix would also hide .copiarc), in filter or loop form; (R5) target dispatch: host:root -> ssh -T host copia serve root, otherwise <current_exe> serve <target>; prologue and Hello precede every other request. '
    '(R6) the hub half of the last clause: in the handlers of the hub the CAS read, cas_decide and the rename / remove are inside one held region and on the matching edge, and success replies follow the operation (the C03.R3 / R5 rules run under this property); staging and content integrity are C10. R3 is judged per outcome: every value put() can return as Ok other than the committed one (a lost CAS, a refusal the client carries on after) must on its own keep hub_sync from returning Ok. Not decided: hub end state; second-run silence (follows from R1 and C10). R4 also: the digests of the Fingerprints payload come only from functions that hash the file when asked; digests from other crate functions or read back from stored data (a listing index) are not decided.')
ASSUMPTIONS = ['the hub behaves as decided by C03/C10/C11/C12']


def run(ctx):
    F = ctx.F['cli']
    ctx.rule('C13.R1', 'hub_sync: whole local map; per file skip (listed == local) or Put', floor=2)
    ctx.rule('C13.R2', 'Put arguments all from the same loop entry; put() sends metadata len then streams the same file', floor=3)
    ctx.rule('C13.R3', 'lost CAS -> non-zero exit, and the push continues with the remaining files; I/O errors propagate', floor=4)
    ctx.rule('C13.R4', 'client never deletes / writes; List hides only .copia', floor=2)
    ctx.rule('C13.R5', 'target dispatch and handshake order', floor=4)
    # the hub half of "nothing another client committed has been overwritten": compare and swap are one step under the commit
    # lock, the mutation sits on the matching edge, replies report what happened (the C03.R3 / R5 rules, run under C13.R6)
    ctx.rule('C13.R6', 'hub side: the CAS read, the decision and the rename / remove are inside one held region, on the matching edge (= C03.R3, R5)', floor=5)
    from rules import C03
    from rules.hub import Hub
    hubx = Hub(ctx, F, 'C13.R6')
    ctx.attempt(C03.r3_r5, RidProxy(ctx, {'C03.R2': 'C13.R6', 'C03.R3': 'C13.R6', 'C03.R5': 'C13.R6'}), F, hubx)
    b = F.body('hub::hub_sync')
    if b is None:
        ctx.missing('C13.R1', 'hub::hub_sync')
    fl = flow_of(b)
    cfg = fl.cfg
    puts = fl.calls_to('hub::HubClient::put')
    lists = fl.calls_to('hub::HubClient::list')
    disc = fl.calls_to('meta::discover_local_fingerprints')
    nexts = fl.calls_to('std::iter::Iterator::next')
    if not puts or not lists or not disc or not nexts:
        ctx.missing('C13.R1', 'hub_sync: put/list/discover/loop')
    puts = sorted(puts, key=lambda x: x[0])
    from rules.hub import put_arg_slots
    PS = put_arg_slots(F)
    if PS is None:
        ctx.missing('C13.R2', 'HubClient::put parameters (path: &str, expected: Option<[u8; 32]>, local: &Path, hash: [u8; 32])')
    pb, pt = puts[0]
    put_blocks = {x[0] for x in puts}
    loops = cfg.loops()
    heads = [h for h, blocks in loops.items() if pb in blocks]
    nb = next((n for n, _ in nexts if any(n in loops[h] for h in heads)), None)
    staged = prepared_list(fl, nb) if nb is not None else []
    if staged:
        # two passes: the first decides per local file and stores a record, the second sends the records. What is sent is then
        # read out of a list - which entry a record came from is in the data
        ctx.undecided('C13.R1', 'hub_sync sends from a list it prepared in an earlier pass: that every differing local file gets a record, and that a record pairs one entry with its own digest, is not decided')
    # iterated collection = discover_local_fingerprints(local_root)
    it_ok = False
    for n, nt in nexts:
        if n == nb:
            io = fl.origins(nt['args'][0])
            if any(x.kind == 'call' and x.key != 'meta::discover_local_fingerprints' for x in io):
                io = iterated_collection(fl, n)
            if any(x.kind == 'call' and x.key == 'meta::discover_local_fingerprints' for x in io) and \
               not any(x.kind == 'call' and x.key != 'meta::discover_local_fingerprints' for x in io):
                it_ok = True
    root_ok = all(all(x.kind == 'param' and x.key == 1 for x in fl.origins(dt['args'][0])) for _, dt in disc)
    if not staged:
      ctx.check(it_ok and root_ok, 'C13.R1', 'hub_sync:iterates-local-map', 'for (rel, fp) in &discover_local_fingerprints(local_root)',
              'hub_sync does not iterate the complete local fingerprint map', term_loc(b, nb) if nb is not None else loc(b, b.lo))
    # skip edge
    equal = set()
    for cb, ct in fl.calls_to('std::cmp::PartialEq::eq', 'std::cmp::PartialEq::ne'):
        o0, o1 = fl.origins(ct['args'][0]), fl.origins(ct['args'][1])
        listed = lambda os_: any(o.kind == 'call' and o.key.endswith('::get') for o in os_)
        localh = lambda os_: any(o.kind == 'call' and o.key == 'std::iter::Iterator::next' and o.path[-1:] == ('blake3',) for o in os_) and \
            any(o.kind == 'agg' and o.key == 'std::option::Option::Some' for o in os_)
        if (listed(o0) and localh(o1)) or (listed(o1) and localh(o0)):
            eq, ne = eq_edges(fl, cb)
            equal |= eq
    some_e = fl.outcomes(nb).get('Some', set()) if nb is not None else set()
    covered = bool(equal) and bool(some_e)
    if covered:
        errs = error_blocks(b)
        for (s, t, lab) in some_e:
            r = cfg.reach(t, cut_edges=list(equal), cut_blocks=set(put_blocks) | errs)
            if r & (set(heads) | set(cfg.exits())):
                covered = False
    if not staged:
      ctx.check(covered, 'C13.R1', 'hub_sync:skip-or-put', 'each iteration passes the equal edge (skip) or the put call',
              'a local file can be neither proven equal to the listing nor Put (it would silently be missing on the hub)', term_loc(b, pb))
    # ---- R2
    from_loop = lambda os_: any(o.kind == 'call' and o.key == 'std::iter::Iterator::next' for o in os_)
    args_ok = True
    bad_put = None
    for pb_, pt_ in puts:
        rel_o = fl.origins(pt_['args'][PS['rel']])
        file_o = fl.origins(pt_['args'][PS['local']])
        hash_o = fl.origins(pt_['args'][PS['hash']])
        joined = False
        for o in file_o:
            if o.kind == 'call' and o.key == 'std::path::Path::join':
                a0 = call_arg_origins(fl, o.bb, 0)
                a1 = call_arg_origins(fl, o.bb, 1)
                if all(x.kind == 'param' and x.key == 1 for x in a0) and from_loop(a1):
                    joined = True
        hash_ok = bool(hash_o) and all(o.kind == 'call' and o.key == 'std::iter::Iterator::next' and o.path[-1:] == ('blake3',) for o in hash_o)
        if not (from_loop(rel_o) and joined and hash_ok):
            args_ok = False
            bad_put = pb_
    if not staged:
      ctx.check(args_ok, 'C13.R2', 'hub_sync:put-args', 'put(rel, listed, local_root.join(rel), fp.blake3) from one loop entry',
              'the Put does not pair the path, the local file and its digest of the same local entry', term_loc(b, bad_put if bad_put is not None else pb))
    p = F.body('hub::HubClient::put')
    if p is None:
        ctx.missing('C13.R2', 'hub::HubClient::put')
    pfl = flow_of(p)
    local_i = PS['local'] + 1
    req = None
    for bi in pfl.cfg.reachable():
        for st in p.blocks[bi]['stmts']:
            rv = st['rv']
            if rv['k'] == 'agg' and rv.get('adt') == 'wire::Request' and rv.get('vname') == 'Put':
                req = (bi, rv)
    if req is None:
        ctx.missing('C13.R2', 'HubClient::put: Request::Put construction')
    f = req[1]['fields']
    lo = pfl.origins(req[1]['ops'][f.index('len')])
    len_ok = any(o.kind == 'call' and o.key == 'std::fs::Metadata::len' for o in lo)
    if len_ok:
        for o in lo:
            if o.kind == 'call' and o.key == 'std::fs::Metadata::len':
                mo = call_arg_origins(pfl, o.bb, 0)
                len_ok = any(x.kind == 'call' and x.key in ('std::fs::metadata', 'std::path::Path::metadata') and
                             all(y.kind == 'param' and y.key == local_i for y in call_arg_origins(pfl, x.bb, 0)) for x in mo)
    ho = pfl.origins(req[1]['ops'][f.index('hash')])
    po = pfl.origins(req[1]['ops'][f.index('path')])
    fields_ok = all(o.kind == 'param' for o in ho) and any(o.kind == 'param' for o in po)
    ctx.check(len_ok and fields_ok, 'C13.R2', 'put:request-fields', 'len = metadata(local).len(); hash/path forwarded',
              'HubClient::put announces a length/hash/path that are not those of the file it streams', loc(p, p.blocks[req[0]]['term']['line']))
    streams = False
    for cb, ct in pfl.calls_to('std::io::copy'):
        so = pfl.origins(ct['args'][0])
        if any(o.kind == 'call' and o.key == 'std::fs::File::open' and all(y.kind == 'param' and y.key == local_i for y in call_arg_origins(pfl, o.bb, 0)) for o in so):
            # after the frame was sent
            sends = [sb for sb, st in pfl.calls_to('hub::HubClient::send')]
            if sends and all(pfl.guarded_by(cb, sb, 'Ok') for sb in sends[:1]):
                streams = True
    ctx.check(streams, 'C13.R2', 'put:streams-file', 'io::copy(File::open(local), w) after the Put frame', 'HubClient::put does not stream the announced file right after the frame', loc(p, p.lo))
    # ---- R3
    ok_e, f_e, t_e = set(), set(), set()
    all_ok = True
    lost_names, won_names = put_reply_meaning(F, p)
    for pb_, _ in puts:
        oc = fl.outcomes(pb_)
        all_ok = all_ok and bool(oc.get('Ok'))
        ok_e |= oc.get('Ok', set())
        for nme in lost_names:
            f_e |= oc.get(nme, set())
        for nme in won_names:
            t_e |= oc.get(nme, set())
    if not all_ok:
        ok_e = set()
    oks = ok_assign_blocks(b, 'Ok')
    # every way a Put can end without the file being the hub's version of the path (a lost CAS, a refusal the client carries on
    # after) must, on its own, keep the run from exiting 0: judged per outcome - a counter that is kept but never tested does not count
    per_name = {}
    for pb_, _ in puts:
        oc = fl.outcomes(pb_)
        for nme in lost_names:
            if oc.get(nme):
                per_name.setdefault(nme, set()).update(oc[nme])
    latch, lwhy = (None, 'no not-committed edge / Ok return found')
    for nme, edges_ in sorted(per_name.items()) if (f_e and oks) else []:
        l1, w1 = sticky_flag(fl, edges_, oks)
        if l1 is None:
            ok_c, why_c = counted_event(fl, edges_, oks)
            if ok_c:
                l1, w1 = 'count', why_c
            else:
                w1 = '%s; %s' % (w1, why_c)
        if l1 is None:
            latch, lwhy = None, 'outcome %s: %s' % (nme, w1)
            break
        latch, lwhy = l1, w1
    ctx.check(latch is not None, 'C13.R3', 'hub_sync:conflicts->Err', 'the not-committed edge latches a variable; Ok is returned only while it is untouched',
              'a Put that did not commit (a lost CAS, a refusal the client carries on after) does not make hub_sync fail (%s)' % lwhy, term_loc(b, pb))
    # a lost (or won) CAS does not end the push: the loop goes on to the next local file
    stops = None
    reply_edges = (f_e | t_e) or ok_e      # the reply is in hand: after it, only the next entry or an I/O error
    for (s_, t_, lab) in reply_edges:
        r = cfg.reach(t_, cut_blocks=([nb] if nb is not None else []) + sorted(error_blocks(b)))      # an I/O error (`?`) may end the run
        if r & set(cfg.exits()):
            stops = t_
    ctx.check(nb is not None and bool(reply_edges) and stops is None, 'C13.R3', 'hub_sync:conflict-does-not-stop-the-push', 'after a Put reply the loop always returns to the next local entry',
              'hub_sync can leave the loop after a Put reply (e.g. on a lost CAS): the local files that sort after it are never sent, so they are not retrievable from the hub',
              term_loc(b, stops) if stops is not None else term_loc(b, pb))
    ctx.check(bool(ok_e), 'C13.R3', 'hub_sync:put-error-propagates', 'client.put(..)? propagates errors', 'the result of client.put is not propagated', term_loc(b, pb))
    lb = lists[0][0]
    ctx.check(bool(fl.outcomes(lb).get('Ok')) and cfg.dominates(lb, pb), 'C13.R3', 'hub_sync:list-error-propagates', 'client.list()? before the loop',
              'the listing result is not checked before pushing', term_loc(b, lb))
    # ---- R4
    bad = []
    for hb in F.bodies_in_file('bin/copia/hub.rs'):
        hfl = flow_of(hb)
        for bb, t in hfl.calls(lambda c: c in tables.FS_MUTATORS and not c.endswith('OpenOptions::open')):
            bad.append('%s:%s' % (hb.path, callee(t)))
        for bi in hfl.cfg.reachable():
            for st in hb.blocks[bi]['stmts']:
                rv = st['rv']
                if rv['k'] == 'agg' and rv.get('adt') == 'wire::Request' and rv.get('vname') == 'Delete':
                    bad.append('%s:Request::Delete' % hb.path)
    ctx.check(not bad, 'C13.R4', 'hub.rs:no-delete-no-write', 'no fs mutator, no Request::Delete in the client',
              'the hub client module contains %s' % bad, None)
    # List hides only .copia
    hide, why = list_hides_only_control(F)
    ctx.check(hide, 'C13.R4', 'serve:List-hides-only-.copia', 'the listing drops an entry only when p.starts_with(".copia")',
              'the List arm hides something else than the .copia control directory (%s)' % why, 'src/bin/copia/serve.rs (serve::serve)')
    # what the listing is computed from: the scan that hashes every file NOW.  Digests that come out of anything else (an index
    # kept between requests, a cache keyed on size + mtime) are right only if that store is - a statement about values
    src_ = listing_sources(F)
    if src_ is None:
        ctx.undecided('C13.R4', 'the List arm of serve no longer builds a Response::Fingerprints payload in serve::serve: what it lists is not read')
    else:
        hashing = {'meta::discover_local_fingerprints', 'meta::fingerprint_path'} | set(hubx.current_reads())
        others = sorted(x for x in src_ if x not in hashing and not _hashes_when_asked(F, x))
        if src_ and not others:
            ctx.ok('C13.R4', 'serve:List-hashes-the-files', 'the digests of the payload come from %s only (each hashes the file when asked)' % ', '.join(sorted(x.split('::')[-1] for x in src_)), 'src/bin/copia/serve.rs (serve::serve)')
        else:
            ctx.undecided('C13.R4', 'the digests List reports are not (only) computed by hashing the files when asked (%s): that each is the hash of the file\'s current content - what "already there" and the CAS expectation of every client rest on - is not decided' % (', '.join(o.split('::')[-1] for o in others[:4]) or 'no hashing function found on the way to the payload'))
    ctx.attempt(r5, ctx, F)


def listing_sources(F):
    """the crate functions the Response::Fingerprints payload of serve::serve is computed from (through adaptor calls)"""
    sv = F.body('serve::serve')
    if sv is None:
        return None
    vfl = flow_of(sv)
    out = None
    for bi in vfl.cfg.reachable():
        for st in sv.blocks[bi]['stmts']:
            rv = st['rv']
            if rv['k'] == 'agg' and rv.get('adt') == 'wire::Response' and rv.get('vname') == 'Fingerprints' and rv['ops']:
                out = set() if out is None else out
                work, seen_ = [rv['ops'][0]], set()
                while work and len(seen_) < 400:
                    cur = work.pop()
                    if cur['k'] == 'const':
                        continue
                    for o in vfl.origins(cur, mut_calls=True):
                        k_ = (o.kind, str(o.key), o.bb)
                        if k_ in seen_:
                            continue
                        seen_.add(k_)
                        if o.kind in ('call', 'mutcall') and F.body(str(o.key)) is not None:
                            # a crate function that hands back digests (a listing of paths or of sizes / times carries none)
                            rty = F.body(str(o.key)).local_ty(0)
                            if '[u8; 32]' in rty or 'Fingerprint' in rty or 'Hash' in rty or str(o.key) == 'meta::discover_local_fingerprints':
                                out.add(str(o.key))
                        elif o.kind in ('call', 'mutcall') and re.search(r'(serde_json|bincode|ciborium|serde_cbor|toml)::.*(from_|deserialize|de::)', str(o.key)):
                            out.add('stored data (%s)' % str(o.key).split('::')[0])     # digests read back from something written earlier
                        if o.kind in ('call', 'mutcall') and o.bb is not None:
                            work += [a for a in sv.blocks[o.bb]['term'].get('args', []) if a['k'] != 'const']
                        if o.kind == 'agg' and F.body(str(o.key)) is not None and F.body(str(o.key)).kind == 'closure':
                            # a closure on the chain (`.filter_map(|p| Some((name, hub_fingerprint(&root.join(&p))?)))`): what it calls
                            cbody = F.body(str(o.key))
                            for cb_, ct_ in flow_of(cbody).calls(lambda c: True):
                                c_ = callee(ct_) or ''
                                if F.body(c_) is not None:
                                    rty = F.body(c_).local_ty(0)
                                    if '[u8; 32]' in rty or 'Fingerprint' in rty or 'Hash' in rty:
                                        out.add(c_)
                                elif re.search(r'(serde_json|bincode|ciborium|serde_cbor|toml)::.*(from_|deserialize|de::)', c_):
                                    out.add('stored data (%s)' % c_.split('::')[0])
    return out


def _hashes_when_asked(F, path, depth=0):
    """a crate function every returned value of which is computed from the file on this very call: fingerprint_path / a blake3
    digest, directly or through crate functions of the same kind - and nothing taken out of a collection"""
    b = F.body(path)
    if b is None or depth > 3:
        return False
    os_ = [o for o in flow_of(b).origins(0) if o.kind not in ('comb', 'const')]
    if not os_:
        return False
    for o in os_:
        k = str(o.key)
        if o.kind != 'call':
            return False
        if re.search(r'(BTreeMap|HashMap|BTreeSet|HashSet|Vec|VecDeque|LruCache)\b.*::(get|get_mut|get_key_value|remove|entry|first|last|pop\w*)$', k):
            return False
        if k in ('meta::fingerprint_path', 'blake3::Hasher::finalize', 'blake3::hash'):
            continue
        if F.body(k) is not None and _hashes_when_asked(F, k, depth + 1):
            continue
        return False
    return True


def put_reply_meaning(F, p):
    """(outcome names of HubClient::put's Ok payload that mean "the CAS was lost", names that mean "committed"): the payload is
    the hub's `committed` flag itself (false / true), or a value of a crate enum chosen under the false / true edge of that flag"""
    pfl = flow_of(p)
    cfg = pfl.cfg
    lost, won = set(), set()
    # edges of the tests of PutResult.committed
    c_true, c_false = set(), set()
    for bi in cfg.reachable():
        t = p.blocks[bi]['term']
        if t['k'] == 'switch' and t['on']['k'] != 'const':
            pr = t['on']['p']['proj']
            direct = any(isinstance(e, dict) and e.get('name') == 'committed' for e in pr)
            via = False
            if not pr:
                via = any(tuple(o.path)[-1:] == ('committed',) for o in pfl.origins(t['on']) if o.kind != 'comb') and p.local_ty(t['on']['p']['l']) == 'bool'
            if direct or via:
                for v, tgt in t['targets']:
                    (c_false if v == 0 else c_true).add((bi, tgt, v))
                (c_true if [v for v, _ in t['targets']] == [0] else c_false).add((bi, t['otherwise'], 'otherwise'))
    for ob in ok_assign_blocks(p, 'Ok'):
        for st in p.blocks[ob]['stmts']:
            rv = st['rv']
            if not (rv['k'] == 'agg' and rv.get('vname') == 'Ok' and rv['ops']):
                continue
            os_ = [o for o in pfl.origins(rv['ops'][0]) if o.kind != 'comb']
            if os_ and all(tuple(o.path)[-1:] == ('committed',) for o in os_):
                lost.add('false')
                won.add('true')
                continue
            names = set()
            for o in os_:
                if o.kind == 'call' and o.bb is not None and F.body(str(o.key)) is not None:
                    # Ok(convert(committed)): the helper picks the value under the false / true edge of its parameter
                    hb = F.body(str(o.key))
                    hfl = flow_of(hb)
                    for j, a in enumerate(p.blocks[o.bb]['term'].get('args', [])):
                        ao = [x for x in pfl.origins(a) if x.kind != 'comb'] if a['k'] != 'const' else []
                        if not (ao and all(tuple(x.path)[-1:] == ('committed',) for x in ao)):
                            continue
                        for sb, st_ in switch_blocks_on(hfl, lambda os2: bool(os2) and all(x.kind == 'param' and x.key == j + 1 for x in os2)):
                            tr, fa = bool_edges(sb, st_)
                            for rb in hfl.cfg.reachable():
                                for st2 in hb.blocks[rb]['stmts']:
                                    rv2 = st2['rv']
                                    if st2['dst']['l'] == 0 and not st2['dst']['proj'] and rv2['k'] == 'agg' and rv2.get('vname'):
                                        if fa and hfl.cfg.edges_guard(fa, rb):
                                            lost.add(rv2['vname'])
                                        elif tr and hfl.cfg.edges_guard(tr, rb):
                                            won.add(rv2['vname'])
                    continue
                if o.kind == 'agg' and '::' in str(o.key):
                    names.add(str(o.key).split('::')[-1])
                elif o.kind == 'const' and o.key in (0, 1, True, False):
                    names.add('true' if o.key else 'false')
            if not names:
                continue
            if c_false and cfg.edges_guard(c_false, ob):
                lost |= names
            elif c_true and cfg.edges_guard(c_true, ob):
                won |= names
            else:
                # one return for both: each value is built under its own edge of the flag
                for o in os_:
                    if o.kind == 'agg' and '::' in str(o.key) and o.bb is not None:
                        if c_false and cfg.edges_guard(c_false, o.bb):
                            lost.add(str(o.key).split('::')[-1])
                        elif c_true and cfg.edges_guard(c_true, o.bb):
                            won.add(str(o.key).split('::')[-1])
    # any further value put() can return as Ok (a refusal turned into an outcome instead of an Err) is, like a lost CAS, a file
    # that is not the hub's version of the path
    if won:
        for ob in ok_assign_blocks(p, 'Ok'):
            for st in p.blocks[ob]['stmts']:
                rv = st['rv']
                if rv['k'] == 'agg' and rv.get('vname') == 'Ok' and rv['ops']:
                    for o in pfl.origins(rv['ops'][0]):
                        if o.kind == 'agg' and '::' in str(o.key) and not str(o.key).startswith('std::'):
                            nme = str(o.key).split('::')[-1]
                            if nme not in won:
                                lost.add(nme)
    if not lost and not won:
        lost, won = {'false'}, {'true'}
    return lost, won


def _is_control_test(fl, t):
    ao = fl.origins(t['args'][1]) if len(t['args']) > 1 else set()
    # component-wise: Path::starts_with(".copia") is the control directory and what is under it; the same call on a string is
    # a character prefix and also hides `.copiaignore`, `.copia-hooks/..` (user files the hub would then never list)
    return callee(t) in ('std::path::Path::starts_with', 'std::path::PathBuf::starts_with') and bool(ao) and all(o.kind == 'const' and o.key == '.copia' for o in ao)


def list_hides_only_control(F):
    """The map sent for List is every entry of the tree scan except those under `.copia`.
    Form A: a `filter` closure that is exactly `!p.starts_with(".copia")`.  Form B: a loop over the scan in which the only way to
    reach the next entry without recording the current one is the true edge of `p.starts_with(".copia")`."""
    sv = F.body('serve::serve')
    if sv is None:
        return False, 'serve::serve missing'
    filters, hide = [], False
    # closures on the way of the map that is SENT (a second chain over the same scan - feeding a cache, a log - filters what it
    # likes): everything the Fingerprints payload is computed from, through the adaptor calls
    on_chain = None
    vfl = flow_of(sv)
    for bi in vfl.cfg.reachable():
        for st in sv.blocks[bi]['stmts']:
            rv = st['rv']
            if rv['k'] == 'agg' and rv.get('adt') == 'wire::Response' and rv.get('vname') == 'Fingerprints' and rv['ops']:
                on_chain = set()
                work, seen_ = [rv['ops'][0]], set()
                while work and len(seen_) < 300:
                    cur = work.pop()
                    if cur['k'] == 'const':
                        continue
                    for o in vfl.origins(cur, mut_calls=True):
                        k_ = (o.kind, str(o.key), o.bb)
                        if k_ in seen_:
                            continue
                        seen_.add(k_)
                        if o.kind == 'agg' and F.body(str(o.key)) is not None:
                            on_chain.add(str(o.key))
                        if o.kind in ('call', 'mutcall') and o.bb is not None:
                            work += [a for a in sv.blocks[o.bb]['term'].get('args', []) if a['k'] != 'const']
    for sb in F.nested('serve::serve'):
        if sb.kind != 'closure':
            continue
        if on_chain is not None and on_chain and sb.path not in on_chain:
            continue
        sfl = flow_of(sb)
        preds = sfl.calls(lambda c: c.endswith('::starts_with') or c.endswith('::contains') or c.endswith('::ends_with')
                          or c.endswith('::eq') or c.endswith('::ne') or c.endswith('::is_some_and'))
        if not preds or sb.local_ty(0) != 'bool':
            continue
        filters.append(sb.path)
        branches = [bi for bi in sfl.cfg.reachable() if sb.blocks[bi]['term']['k'] == 'switch']
        for cb, ct in preds:
            if _is_control_test(sfl, ct):
                ro = sfl.origins(0)
                if any(o.kind == 'op' and o.key == 'Not' for o in ro) and len(preds) == 1 and not branches:
                    hide = True
    if filters:
        return hide and len(filters) == 1, 'filter closures: %s' % filters
    # form B
    fl = flow_of(sv)
    cfg = fl.cfg
    scans = fl.calls_to('meta::discover_local_fingerprints')
    recs = [(bb, t) for bb, t in fl.calls(lambda c: c.split('::')[-1] in ('insert', 'push', 'push_back', 'extend'))]
    for nb, nt in fl.calls_to('std::iter::Iterator::next'):
        src = iterated_collection(fl, nb)
        if not any(o.kind == 'call' and o.key == 'meta::discover_local_fingerprints' for o in src):
            continue
        some_e = fl.outcomes(nb).get('Some', set())
        skip_e = set()
        for cb, ct in fl.calls(lambda c: c.endswith('::starts_with')):
            if _is_control_test(fl, ct):
                skip_e |= fl.outcomes(cb).get('true', set())
        rec_blocks = [bb for bb, t in recs if cfg.can_reach(nb, bb)]
        if not some_e or not rec_blocks:
            return False, 'no record of the entries in the listing loop'
        for (s_, t_, lab) in some_e:
            r = cfg.reach(t_, cut_edges=list(skip_e), cut_blocks=rec_blocks + sorted(error_blocks(sv)))
            if nb in r or (r & set(cfg.exits())):
                return False, 'an entry can be skipped by something else than the .copia test'
        return True, ''
    return False, 'no filter closure and no loop over the tree scan'


def r5(ctx, F):
    b = F.body('hub::HubClient::connect')
    if b is None:
        ctx.missing('C13.R5', 'hub::HubClient::connect')
    fl = flow_of(b)
    cfg = fl.cfg
    st = fl.calls_to('hub::split_target')
    if len(st) != 1:
        ctx.missing('C13.R5', 'connect: split_target')
    sb, stt = st[0]
    oc = fl.outcomes(sb)
    cmds = shell.commands(b)
    ssh = [c for c in cmds if c.program_const() == 'ssh']
    local = [c for c in cmds if c.program_const() != 'ssh']
    ok_ssh = False
    if len(ssh) == 1 and oc.get('Some'):
        c = ssh[0]
        av = []
        for ab, aop in c.args:
            v = const_val(aop)
            if v is not None:
                av.append(v)
            else:
                os_ = fl.origins(aop)
                if all(o.kind == 'call' and o.key == 'hub::split_target' for o in os_):
                    av.append('<%s>' % '.'.join(sorted({o.path[-1] if o.path else '?' for o in os_})))
                else:
                    av.append('?')
        ok_ssh = av == ['-T', '<0>', 'copia', 'serve', '<1>'] and cfg.edges_guard(oc['Some'], c.new_bb)
    ctx.check(ok_ssh, 'C13.R5', 'connect:remote', 'Some((host, root)) -> ssh -T host copia serve root',
              'a host:root target is not served by `ssh -T <host> copia serve <root>`', term_loc(b, sb))
    ok_loc = False
    if len(local) == 1 and oc.get('None'):
        c = local[0]
        po = fl.origins(c.program)
        av = []
        for ab, aop in c.args:
            v = const_val(aop)
            if v is not None:
                av.append(v)
            else:
                os_ = fl.origins(aop)
                av.append('<target>' if all(o.kind == 'param' and o.key == 1 for o in os_) else '?')
        ok_loc = any(o.kind == 'call' and o.key == 'std::env::current_exe' for o in po) and av == ['serve', '<target>'] and cfg.edges_guard(oc['None'], c.new_bb)
    ctx.check(ok_loc, 'C13.R5', 'connect:local', 'None -> <current_exe> serve <target>', 'a local target is not served by `<current_exe> serve <target>`', term_loc(b, sb))
    # split_target: Some only for a non-empty slash-free prefix before the first ':'
    s = F.body('hub::split_target')
    if s is None:
        ctx.missing('C13.R5', 'hub::split_target')
    sfl = flow_of(s)
    somes = ok_assign_blocks(s, 'Some')
    # the first colon: t.find(':') or t.split_once(':') (both stop at the FIRST one)
    finds = [(fb, ft) for fb, ft in sfl.calls(lambda c: c.endswith('::find') or c.endswith('::split_once')) if any(o.kind == 'const' and o.key == ord(':') for o in sfl.origins(ft['args'][1]))]
    empt = sfl.calls(lambda c: c.endswith('::is_empty'))
    cont = [(cb, ct) for cb, ct in sfl.calls(lambda c: c.endswith('::contains')) if any(o.kind == 'const' and o.key == ord('/') for o in sfl.origins(ct['args'][1]))]
    good = bool(somes) and len(finds) == 1 and len(empt) == 1 and len(cont) == 1
    if good:
        for sb2 in somes:
            g1 = sfl.guarded_by(sb2, finds[0][0], 'Some')
            e_f = sfl.outcomes(empt[0][0]).get('false', set())
            c_f = sfl.outcomes(cont[0][0]).get('false', set())
            good = good and g1 and bool(e_f) and bool(c_f) and sfl.cfg.edges_guard(e_f, sb2) and sfl.cfg.edges_guard(c_f, sb2)
    ctx.check(good, 'C13.R5', 'split_target', 'Some only if find(\':\') is Some, host non-empty and slash-free',
              'split_target classifies a target as remote without a non-empty, slash-free host before the first colon', loc(s, s.lo))
    # handshake order: write_magic, then Hello, before connect returns Ok
    wm = fl.calls_to('wire::write_magic')
    sends = fl.calls_to('hub::HubClient::send')
    oks = ok_assign_blocks(b, 'Ok')
    hello = False
    for sb3, st3 in sends:
        if any(o.kind == 'agg' and o.key == 'wire::Request::Hello' for o in fl.origins(st3['args'][1])):
            hello = bool(wm) and fl.guarded_by(sb3, wm[0][0], 'Ok') and all(fl.guarded_by(ob, sb3, 'Ok') for ob in oks) and bool(oks)
    ctx.check(hello, 'C13.R5', 'connect:handshake-order', 'write_magic Ok -> Hello Ok -> Ok(client)', 'the client can send requests before the prologue and Hello', loc(b, b.lo))
