"""C11 — a hub client can never reach outside the served directory (DESIGN §7 C11)."""
from rules.common import *  # noqa: F401,F403
from rules.common import _strip_ty
from rules.hub import SIBLING, Hub, SERVE, SAFE_JOIN, ROOT, SAFE, TAINT, OTHER, FS_PATH_SINKS
from flow import ENUMS

CONFIGS = ['cli']
LEVEL = 'other'
EXPLANATION = (
    'Decides the property up to symlinks (excluded by the quantifier): (R1) interprocedural taint - every path operand of every fs call '
    'reachable from serve() is labelled from its provenance; a request-derived string reaches a sink only through the Some payload of safe_join '
    '(and the tabled safe derivations parent / suffix push / tmp_of), everything else derives from the served root only; (R2) safe_join returns '
    'Some only on the false edge of is_absolute() and after the component loop is exhausted, and the ParentDir, RootDir and Prefix components each lead '
    'to None; the joined value is root.join(rel); an fs mutator applied to the ancestors of a request path (pruning emptied directories) must be limited by the number of Path components - a limit computed from the text of the path (`/` count) climbs past the root for `a//////f`; (R3) a refused Put drains exactly take(len) before the error reply, refused Get/Delete reply without '
    'consuming, and all three return the reply result to the loop; (R4) no fs call is reachable on the refusal edge. R2 in the form `refusal(rel).is_none()` is not decided. R3 also: an Error reply that carries a client-supplied string with no cut to a fixed length on the way is reported (the reply can exceed MAX_FRAME and end the session instead of refusing the request).')
ASSUMPTIONS = ['Path::components / is_absolute classify components as documented', 'no symlinks leading outside the served tree (property quantifier)']

HANDLERS = ['serve::handle_get', 'serve::handle_put', 'serve::handle_delete']


def run(ctx):
    F = ctx.F['cli']
    ctx.rule('C11.R1', 'taint: request-derived paths reach fs calls only through safe_join; other path operands derive from the root', floor=11)
    ctx.rule('C11.R2', 'safe_join: Some only if !is_absolute and every component passed; ParentDir/RootDir/Prefix -> None; value = root.join(rel)', floor=5)
    ctx.rule('C11.R3', 'refusal keeps the stream framed: Put drains take(len) before replying; handlers return the reply result', floor=3)
    ctx.rule('C11.R4', 'no fs call on the refusal (safe_join None) edge', floor=3)
    hub = Hub(ctx, F, 'C11.R1')
    ctx.attempt(r1, ctx, F, hub)
    ctx.attempt(r2, ctx, F)
    ctx.attempt(r34, ctx, F, hub)


def r1(ctx, F, hub):
    sinks = hub.fs_sinks()
    for b, bb, c, pos, op in sinks:
        labels = hub.label_operand(b, op)
        fl = flow_of(b)
        key = '%s:%s(%s)' % (b.path.split('::{')[0] + ('{closure}' if '::{' in b.path else ''), c.split('::')[-1], root_name(fl, op).replace(' ', '_'))
        bad = labels & {TAINT, OTHER}
        # parent()/with_file_name()/with_extension() of a request path: fine for creating the directory chain above a file,
        # but as the target of a create / rename / remove it names the parent or a sibling of the served directory when the
        # request path is the directory itself ("", ".", "./")
        climbs = SIBLING in labels and c != 'std::fs::create_dir_all'
        labels2 = labels - {SIBLING}
        walk = hub.ancestor_walk_bound(b, op) if climbs else None
        if walk is not None:
            # a walk up the ancestors of a request path (pruning emptied directories): it stays inside the tree only if it climbs
            # at most as many levels as the NORMALISED path has below the root - `a//////f` has many separators and one level
            if walk[0] == 'components':
                ctx.undecided('C11.R1', '%s: %s walks up the parents of a request path, limited by the number of its components: that the limit is below the served root is not decided' % (key, c.split('::')[-1]))
                continue
            ctx.bad('C11.R1', key + ':walk-above-the-root', 'fs call %s is applied to the parents of a request path and %s: repeated separators or `.` components make the walk climb '
                    'past the served directory (`a//////f` has six separators and one level)' % (c, walk[1]), term_loc(b, bb))
            continue
        if OTHER in labels and TAINT not in labels and not climbs:
            # part of the value has a provenance the labelling does not follow (a struct mutated through a helper, a value
            # from outside the serve graph): nothing client-controlled was seen in it, nothing proves it clean either
            ctx.undecided('C11.R1', '%s: a path of unknown provenance reaches %s (labels %s)' % (key, c.split('::')[-1], sorted(labels)))
            continue
        if TAINT in labels and _behind_confinement_predicate(F, hub, b, bb):
            # the path did not come out of safe_join, but the call runs only where the predicate safe_join itself is built on
            # said yes to the request path (`is_confined(path).then(|| Landing::under(root, path))`): the same test, another shape
            ctx.undecided('C11.R1', '%s: the request path reaches %s without passing safe_join, behind the confinement predicate safe_join is built on: that the predicate was asked about this very path is not decided' % (key, c.split('::')[-1]))
            continue
        ctx.check(not bad and bool(labels2) and not climbs, 'C11.R1', key, 'path labels %s' % sorted(labels),
                  'fs call %s receives a path that is %s' % (c, 'client-controlled without passing safe_join' if TAINT in labels else
                                                            'built with parent()/with_file_name()/with_extension() from a request path: for a request that names the served '
                                                            'directory itself ("", ".") it lies outside the tree' if climbs else
                                                            'not derived from the served root or safe_join (%s)' % sorted(labels)),
                  term_loc(b, bb))
    # safe_join's own root argument is the served root at every call site
    for b, bb, c in hub.cg.call_sites(lambda c: c == SAFE_JOIN, within=hub.graph):
        t = b.blocks[bb]['term']
        l0 = hub.label_operand(b, t['args'][0])
        l1 = hub.label_operand(b, t['args'][1])
        ctx.check(l0 == {ROOT}, 'C11.R1', '%s:safe_join(root)' % b.path, 'joined under the served root',
                  'safe_join is called with a base other than the served root (%s)' % sorted(l0), term_loc(b, bb))
    # the request path parameter of each handler is the decoded request's (taint source present)
    n_src = 0
    for h in HANDLERS:
        hb = F.body(h)
        if hb is None:
            ctx.missing('C11.R1', h)
        for i in range(1, hb.argc + 1):
            ty_i = hb.local_ty(i)
            is_str = ty_i == '&str'
            # ... or a request-header struct parameter that carries the path as a &str field
            adt = F.adts.get(_strip_ty(ty_i).split('<')[0])
            if adt and adt.get('variants') and any(_strip_ty(x['ty']) == 'str' or x['ty'].replace(' ', '').endswith('&str') or "str" == x['ty'].split(' ')[-1] for x in adt['variants'][0]['fields']):
                is_str = True
            if TAINT in hub.param_label(hb, i) and is_str:
                n_src += 1
    if n_src < 3:
        ctx.missing('C11.R1', 'request-derived &str parameter in each of the three handlers (found %d)' % n_src)


def r2(ctx, F):
    b = F.body(SAFE_JOIN)
    if b is None:
        ctx.missing('C11.R2', SAFE_JOIN)
    fl = flow_of(b)
    cfg = fl.cfg
    somes = ok_assign_blocks(b, 'Some')
    if not somes:
        ctx.missing('C11.R2', 'safe_join: Some return')
    root_i, rel_i = 1, 2
    # the decision may go through the Option a helper returns (`match refusal(rel) { Some(_) => None, None => Some(join) }`
    # written with is_none / is_some): the refusing arms then build a value instead of returning, and the path rules below do
    # not follow a value through a predicate call - not decided (never a violation)
    # ... or through a bool predicate of the crate (`is_confined(rel).then_some(root.join(rel))`): the component tests sit in that
    # predicate, which this rule does not read through - not decided (never a violation)
    for qb, qt in fl.calls(lambda c: c.split('::')[-1] in ('then_some', 'then') and 'bool' in c):
        ro = [o for o in fl.origins(qt['args'][0]) if o.kind != 'comb']
        if ro and all(o.kind == 'call' and F.body(str(o.key)) is not None and F.body(str(o.key)).local_ty(0) == 'bool' for o in ro):
            ctx.undecided('C11.R2', 'safe_join accepts a path when the crate predicate %s says so (bool::%s): that every dangerous component makes that predicate say no is not decided' % (
                str(ro[0].key).split('::')[-1], (callee(qt) or '').split('::')[-1]))
            return
    for qb, qt in fl.calls(lambda c: c.startswith('std::option::Option::<') and c.split('::')[-1] in ('is_none', 'is_some')):
        oc_ = fl.outcomes(qb)
        if any(es and all(cfg.edges_guard(es, sb) for sb in somes) for es in oc_.values()):
            ctx.undecided('C11.R2', 'safe_join accepts a path on the is_none / is_some of what a refusal helper returned: that every dangerous component makes that helper refuse is not decided')
            return
    abss = fl.calls_to('std::path::Path::is_absolute')
    comps = fl.calls_to('std::path::Path::components')
    nexts = fl.calls_to('std::iter::Iterator::next')
    heads = set(cfg.loops().keys())
    pred_ok = set()
    for sb in somes:
        c_abs = False
        for ab, at in abss:
            if all(o.kind == 'param' and o.key == rel_i for o in fl.origins(at['args'][0])):
                oc = fl.outcomes(ab)
                if oc.get('false') and cfg.edges_guard(oc['false'], sb):
                    c_abs = True
        ctx.check(c_abs, 'C11.R2', 'safe_join:absolute->None', 'Some guarded by is_absolute(rel) == false',
                  'safe_join can return Some for an absolute path', term_loc(b, sb))
        c_loop = False
        for nb, nt in nexts:
            io = fl.origins(nt['args'][0])
            from_comps = any(o.kind == 'call' and o.key == 'std::path::Path::components' for o in io)
            if from_comps and fl.guarded_by(sb, nb, 'None'):
                c_loop = True
        # the same test written with an iterator predicate: components(rel).any(|c| bad(c)) == false, or .all(|c| good(c)) == true
        for qb, qt in fl.calls(lambda c: c in ('std::iter::Iterator::any', 'std::iter::Iterator::all')):
            io = fl.origins(qt['args'][0])
            if not any(o.kind == 'call' and o.key == 'std::path::Path::components' for o in io):
                continue
            is_any = callee(qt).endswith('any')
            oc = fl.outcomes(qb)
            es = oc.get('false' if is_any else 'true', set())
            if not (es and cfg.edges_guard(es, sb)):
                continue
            # the predicate closure decides the dangerous variants the right way round
            for o in fl.origins(qt['args'][1]):
                cb_ = F.body(o.key) if o.kind == 'agg' else None
                if cb_ is None:
                    continue
                if all(closure_variant_results(cb_, v) == {1 if is_any else 0} for v in ('ParentDir', 'RootDir', 'Prefix')):
                    c_loop = True
                    pred_ok.add(qb)
        comp_src = all(all(o.kind == 'param' and o.key == rel_i for o in fl.origins(ct['args'][0])) for cb, ct in comps) and bool(comps)
        ctx.check(c_loop and comp_src, 'C11.R2', 'safe_join:all-components', 'Some only after every component of rel was examined (loop exhausted / any()==false / all()==true)',
                  'safe_join can return Some without having examined every component of the request path', term_loc(b, sb))
        # value
        vo = set()
        for st in b.blocks[sb]['stmts']:
            if st['dst']['l'] == 0 and st['rv']['k'] == 'agg':
                for o in st['rv']['ops']:
                    vo |= fl.origins(o)
        good = bool(vo)
        for o in vo:
            if not (o.kind == 'call' and o.key == 'std::path::Path::join'):
                good = False
                continue
            a0 = call_arg_origins(fl, o.bb, 0)
            a1 = call_arg_origins(fl, o.bb, 1)
            if not (all(x.kind == 'param' and x.key == root_i for x in a0) and all(x.kind == 'param' and x.key == rel_i for x in a1)):
                good = False
        ctx.check(good, 'C11.R2', 'safe_join:value', 'Some(root.join(rel))', 'safe_join returns something else than root.join(<the checked path>)', term_loc(b, sb))
    # component variants
    vmap = ENUMS["std::path::Component<'_>"]
    found = {}
    found_edge = {}
    for bi in cfg.reachable():
        blk = b.blocks[bi]
        for st in blk['stmts']:
            rv = st['rv']
            if rv['k'] == 'discr' and 'Component' in b.local_ty(rv['p']['l']) and not rv['p']['proj']:
                t = blk['term']
                if t['k'] == 'switch':
                    listed = {}
                    for v, tgt in t['targets']:
                        listed[v] = tgt
                    for v, name in vmap.items():
                        found[name] = listed.get(v, t['otherwise'])
                        found_edge[name] = (bi, listed[v], v) if v in listed else (bi, t['otherwise'], 'otherwise')
    if not found and pred_ok:
        for name in ('ParentDir', 'RootDir', 'Prefix'):
            ctx.ok('C11.R2', 'safe_join:%s->None' % name, 'component %s makes the iterator predicate refuse the path' % name, loc(b, b.lo))
        return
    if not found:
        ctx.missing('C11.R2', 'safe_join: match on Component')
    for name in ('ParentDir', 'RootDir', 'Prefix'):
        tgt = found.get(name)
        r = cfg.reach(tgt) if tgt is not None else set()
        leaks = r & (set(somes) | heads)
        if leaks and name in found_edge:
            # the arm may only SET a flag (`matches!(c, Normal | CurDir)` = false) that the next test reads: follow the constant
            # along feasible paths before calling it a leak
            leaks = cfg.feasible_after_edge(found_edge[name]) & (set(somes) | heads)
        ctx.check(tgt is not None and not leaks, 'C11.R2', 'safe_join:%s->None' % name, 'component %s can only lead to None' % name,
                  'a path with a %s component is not refused by safe_join (the arm continues the loop or reaches Some)' % name, loc(b, b.lo))


def closure_variant_results(cb, variant):
    """{0/1}: the boolean constants a |c: Component| -> bool closure can return when c is `variant`"""
    fl = flow_of(cb)
    vmap = ENUMS["std::path::Component<'_>"]
    want = [v for v, n in vmap.items() if n == variant]
    out = set()
    found = False
    for bi in fl.cfg.reachable():
        blk = cb.blocks[bi]
        for st in blk['stmts']:
            rv = st['rv']
            if rv['k'] == 'discr' and 'Component' in cb.local_ty(rv['p']['l']):
                t = blk['term']
                if t['k'] != 'switch':
                    continue
                found = True
                tg = dict((a, b_) for a, b_ in t['targets'])
                for v in want:
                    tgt = tg.get(v, t['otherwise'])
                    for rb in fl.cfg.reach(tgt):
                        for st2 in cb.blocks[rb]['stmts']:
                            if st2['dst']['l'] == 0 and not st2['dst']['proj'] and st2['rv']['k'] == 'use' and st2['rv']['ops'][0]['k'] == 'const':
                                out.add(int(bool(st2['rv']['ops'][0].get('v'))))
    return out if found else set()


def _behind_confinement_predicate(F, hub, b, bb):
    """the fs call in (b, bb) runs only behind the true answer of a crate bool predicate that safe_join itself calls: edge-guarded
    in this body, or inside a closure handed to `bool::then` on that predicate's result"""
    sj = F.body('serve::safe_join')
    if sj is None:
        return False
    preds = {callee(t_) for _, t_ in flow_of(sj).calls(lambda c: F.body(c) is not None and F.body(c).local_ty(0) == 'bool')}
    def guarded_in(body, blk):
        fl_ = flow_of(body)
        for pb_, pt_ in fl_.calls(lambda c: c in preds):
            e_ = fl_.outcomes(pb_).get('true', set())
            if e_ and fl_.cfg.edges_guard(e_, blk):
                return True
        return False
    if guarded_in(b, bb):
        return True
    # the predicate written out (or spliced) in place: the call sits behind `is_absolute == false` AND behind the exhausted
    # loop over `components()` - the two tests safe_join itself consists of
    fl0 = flow_of(b)
    abs_ok = any((fl0.outcomes(ab).get('false') and fl0.cfg.edges_guard(fl0.outcomes(ab)['false'], bb)) for ab, at in fl0.calls_to('std::path::Path::is_absolute'))
    loop_ok = False
    for nb, nt in fl0.calls_to('std::iter::Iterator::next'):
        if any(o.kind == 'call' and o.key == 'std::path::Path::components' for o in fl0.origins(nt['args'][0])) and fl0.guarded_by(bb, nb, 'None'):
            loop_ok = True
    if abs_ok and loop_ok:
        return True
    # the enclosing closure is the argument of bool::then(<predicate result>, closure) in its parent
    cur, hops = b, 0
    while cur is not None and cur.parent and hops < 3:
        pb = F.body(cur.parent)
        if pb is None:
            break
        pfl = flow_of(pb)
        for tb_, tt_ in pfl.calls(lambda c: c.split('::')[-1] == 'then' and 'bool' in c):
            recv = [o for o in pfl.origins(tt_['args'][0]) if o.kind != 'comb']
            clo = [o for o in pfl.origins(tt_['args'][1]) if o.kind == 'agg'] if len(tt_['args']) > 1 else []
            if recv and all(o.kind == 'call' and o.key in preds for o in recv) and any(str(o.key) == cur.path for o in clo):
                return True
        for blk_i, blk in enumerate(pb.blocks):
            for st in blk['stmts']:
                rv = st['rv']
                if rv['k'] == 'agg' and rv.get('ak') in ('closure', 'coroutine') and norm(rv['def']) == cur.path and guarded_in(pb, blk_i):
                    return True
        cur, hops = pb, hops + 1
    return False


def refusal_reply_is_bounded(ctx, F, hub):
    """'refused with an error reply ... the connection stays usable': the Error frame must be deliverable.  write_frame refuses a
    frame over MAX_FRAME, and a handler that propagates that failure ends the session - so the text of an error reply must not
    grow with a client-supplied string: a request path that reaches the reply is cut to a fixed length first (take / truncate /
    get(..n)).  An echo of the whole path is reported."""
    BOUND = ('take', 'truncate', 'get', 'split_at', 'chars_take', 'floor_char_boundary', 'nth')
    n = 0
    for h in HANDLERS:
        hb = F.body(h)
        if hb is None:
            continue
        for xb in [hb] + [x for x in F.nested(h) if x.path != hb.path]:
            xfl = flow_of(xb)
            for bi in xfl.cfg.reachable():
                for st in xb.blocks[bi]['stmts']:
                    rv = st['rv']
                    if not (rv['k'] == 'agg' and rv.get('adt') == 'wire::Response' and rv.get('vname') == 'Error' and rv['ops']):
                        continue
                    n += 1
                    # walk back from the payload; remember whether a bounding call was passed on the way
                    work, seen_, hit = [(rv['ops'][0], False)], set(), None
                    while work and len(seen_) < 400:
                        cur, bounded = work.pop()
                        if cur['k'] == 'const':
                            continue
                        for o in xfl.origins(cur, mut_calls=True):
                            k_ = (o.kind, str(o.key), o.bb, bounded)
                            if k_ in seen_:
                                continue
                            seen_.add(k_)
                            if o.kind == 'param' and not bounded and 'str' in xb.local_ty(o.key) and TAINT in hub.param_label(xb, o.key):
                                hit = hit or o
                                continue
                            if o.kind in ('call', 'mutcall') and o.bb is not None:
                                last = str(o.key).split('::')[-1]
                                b2 = bounded or last in BOUND
                                work += [(a, b2) for a in xb.blocks[o.bb]['term'].get('args', []) if a['k'] != 'const']
                            if o.kind == 'agg' and o.bb is not None:
                                for s2 in xb.blocks[o.bb]['stmts']:
                                    if s2['rv']['k'] == 'agg':
                                        work += [(a, bounded) for a in s2['rv']['ops'] if a['k'] != 'const']
                    # (coarse on purpose: if anything on the way cuts a string to a fixed length - `chars().take(n)`, a `truncate`
                    # of the text before it is sent - the reply is taken as bounded; only an echo with no cut at all is reported)
                    if hit is not None and any(k_[0] in ('call', 'mutcall') and k_[1].split('::')[-1] in BOUND for k_ in seen_):
                        hit = None
                    if hit is not None:
                        ctx.bad('C11.R3', '%s:error-reply-echoes-unbounded' % h.split('::')[-1],
                                'the Error reply of %s carries a client-supplied string in full: a path close to the frame limit makes the reply exceed MAX_FRAME, write_frame fails, '
                                'and the handler ends the session instead of refusing the request on it' % h.split('::')[-1], term_loc(xb, bi))


def r34(ctx, F, hub):
    ctx.attempt(refusal_reply_is_bounded, ctx, F, hub)
    for h in HANDLERS:
        b = F.body(h)
        fl = flow_of(b)
        cfg = fl.cfg
        sj = fl.calls_to(SAFE_JOIN)
        if len(sj) != 1:
            ctx.missing('C11.R3', '%s: exactly one safe_join call' % h)
        jb, jt = sj[0]
        oc = fl.outcomes(jb)
        none_e = oc.get('None', set())
        some_e = oc.get('Some', set())
        if not none_e or not some_e:
            ctx.missing('C11.R3', '%s: Some/None edges of safe_join' % h)
        # what can run after the refusal: followed along feasible paths only (the refusal may travel as a typed error through
        # `?` and a shared `answer(w, outcome)` tail - the arm taken there is decided by what the None edge built)
        refusal = set()
        for e_ in none_e:
            refusal |= cfg.feasible_after_edge(e_)
        accept = set()
        for (s, t, lab) in some_e:
            accept |= cfg.reach(t)
        only_refusal = refusal - accept
        shared_tail = refusal & accept
        short = h.split('::')[-1]
        # R4: no fs call on the refusal edge
        fs_here = [(bb, callee(b.blocks[bb]['term'])) for bb in only_refusal
                   if b.blocks[bb]['term']['k'] == 'call' and callee(b.blocks[bb]['term']) in FS_PATH_SINKS]
        ctx.check(not fs_here, 'C11.R4', '%s:refusal-no-fs' % short, 'no fs call reachable only from the None edge',
                  'a refused request still performs %s' % [c for _, c in fs_here], term_loc(b, jb))
        # R3: reply with Response::Error through write_frame, returned to the loop
        import cfg as _cfgmod
        err_idx = next((i for i, v in enumerate((F.adts.get('wire::Response') or {}).get('variants', [])) if v['name'] == 'Error'), None)

        def is_error_reply(op_):
            for o in fl.origins(op_):
                if o.kind == 'agg' and o.key == 'wire::Response::Error':
                    return True
                if o.kind == 'call' and err_idx is not None and _cfgmod.FN_VARIANT.get(str(o.key)) == err_idx and (F.body(str(o.key)) is not None) and \
                        'wire::Response' in (F.body(str(o.key)).local_ty(0) or ''):
                    return True         # `Response::from(why)` of a conversion that always builds Response::Error
            return False
        # a conversion call in the refusal region that always builds Response::Error (`Response::from(why)`, resolved callee)
        conv = [bb for bb in refusal if b.blocks[bb]['term']['k'] == 'call' and err_idx is not None and
                _cfgmod.FN_VARIANT.get(callee_resolved(b.blocks[bb]['term']) or '') == err_idx and 'wire::Response' in b.local_ty(b.blocks[bb]['term']['dst']['l'])]
        replies = [(wb, wt) for wb, wt in fl.calls_to('wire::write_frame') if wb in only_refusal or (wb in shared_tail and is_error_reply(wt['args'][1])) or
                   (wb in refusal and any(cfg.dominates(cb_, wb) for cb_ in conv))]
        err_reply = any(is_error_reply(wt['args'][1]) or any(cfg.dominates(cb_, wb) for cb_ in conv) for wb, wt in replies)
        ret_o = {(o.kind, str(o.key), o.bb) for o in fl.origins(0)}
        returns_reply = any(wt['dst']['l'] == 0 or ('call', 'wire::write_frame', wb) in ret_o for wb, wt in replies)
        if short == 'handle_put':
            drained = False
            u64s = [i for i in range(1, b.argc + 1) if b.local_ty(i) == 'u64']
            len_i = u64s[0] if len(u64s) == 1 else param_index(b, 'len')     # the declared content length: handle_put's only u64 parameter
            for cb, ct in fl.calls_to('std::io::copy'):
                if cb not in refusal:
                    continue
                from rules.C12 import reader_sources
                so = reader_sources(fl, ct['args'][0])
                for o in so:
                    if o.kind == 'call' and o.key == 'std::io::Read::take':
                        lo = call_arg_origins(fl, o.bb, 1)
                        ro = call_arg_origins(fl, o.bb, 0)
                        if request_value(F, b, lo, 'u64') and \
                           any(x.kind == 'param' and 'mut R' in b.local_ty(x.key) for x in ro if x.kind == 'param'):
                            ok_e = fl.outcomes(cb).get('Ok', set())
                            if replies and ok_e:
                                # from the refusal, every way to a reply passes the Ok edge of the drain (the reply itself may be
                                # a tail shared with other refusals - only the ways that start at the None edge count)
                                around = set()
                                for e_ in none_e:
                                    around |= cfg.feasible_after_edge(e_, cut_edges=list(ok_e))
                                if not any(wb in around for wb, _ in replies):
                                    drained = True
            ctx.check(drained and err_reply and returns_reply, 'C11.R3', 'handle_put:drain-then-error-reply',
                      'io::copy(r.take(len), sink) Ok guards the Error reply; reply result returned',
                      'a refused Put does not consume exactly its `len` content bytes before replying (drained=%s, error reply=%s, returned=%s): '
                      'following requests would be parsed out of step' % (drained, err_reply, returns_reply), term_loc(b, jb))
        else:
            consumes = [bb for bb in only_refusal if b.blocks[bb]['term']['k'] == 'call' and
                        (callee(b.blocks[bb]['term']) or '').startswith('std::io::Read::')]
            ctx.check(err_reply and returns_reply and not consumes, 'C11.R3', '%s:error-reply' % short, 'Error reply returned to the loop; nothing consumed',
                      'a refused %s does not answer with an error reply that is returned to the serve loop' % short, term_loc(b, jb))
