"""C08 — bisync is crash-safe: the record never runs ahead of the data (DESIGN §7 C08)."""
from rules.common import *  # noqa: F401,F403
from rules.bisync import Bisync, RUN, APPLY, COPY
from callgraph import callgraph_of
import tables

CONFIGS = ['cli']
LEVEL = 'other'
EXPLANATION = (
    'Decides the ordering clause as dominance facts (independent of any kill point): (R1) every call in copy_atomic that creates file content writes dst+".copia-tmp" (never the live path; staging names built by crate-local helpers are evaluated from their body), '
    'the staged file is flushed and renamed onto dst only under the Ok edges of copy and sync, and after a write no Ok return skips the rename; (R2) in the bisync call graph file '
    'content is created / renamed only by copy_atomic and Archive::save; (R3) Archive::save has one call site, reachable only through the '
    'exhaustion edge of the apply loop and never from an apply Err edge, and not under --dry-run; (R4) save = create(tmp) -> write_all Ok -> '
    'sync_all Ok -> [.bak rename] -> rename(tmp, path) -> parent-dir sync; (R5) nothing else uses the archive path. '
    'R2 also: a hard link / symlink in the bisync graph places complete content but does not replace - AlreadyExists must fall back to a replacing publisher, else a re-run after a kill stops there forever (the re-run clause, decided for this one construct). R1 also: when deliveries are staged into a container and renamed in a loop over it, they become visible in the order the container iterates in - a map or set keyed by path is reported (the winner would replace the loser\'s file before the loser\'s copy has a real name), a list is not decided. R1 also: re-opening the staging file for writing (continuing a leftover of an interrupted run) is reported when what decides it is not given the source, and not decided otherwise. R3 judges every save site of run_bisync on its own; one on a path that skips the apply loop is not decided. Not decided: the recovery clause (re-running converges) - behavioural.')
ASSUMPTIONS = ['rename(2) is atomic; fsync(2) flushes the file', 'std::fs::copy creates/truncates its destination only']

SYNC = ('std::fs::File::sync_all', 'std::fs::File::sync_data')
RENAMES = ('std::fs::rename', 'tokio::fs::rename')


def tmp_of_param(fl, os_, param, suffix):
    """os_ describes `<param> + suffix`: to_owned(as_os_str(param)) mutated by push(const suffix)."""
    base = any(o.kind == 'param' and o.key == param for o in os_)
    pushed = False
    for o in os_:
        if o.kind == 'mutcall' and o.key == 'std::ffi::OsString::push':
            a = call_arg_origins(fl, o.bb, 1)
            if any(x.kind == 'const' and x.key == suffix for x in a):
                pushed = True
    return base and pushed


def run(ctx):
    F = ctx.F['cli']
    ctx.rule('C08.R1', 'copy_atomic: content created only at dst+".copia-tmp"; copy Ok -> sync of the staged file Ok -> rename(tmp, dst); every success passes the rename', floor=5)
    ctx.rule('C08.R2', 'in the bisync call graph only copy_atomic and Archive::save create file content or rename', floor=4)
    ctx.rule('C08.R3', 'Archive::save: one call site, after the apply loop is exhausted, never after an apply error, not under dry_run, and nothing mutates a tree after it', floor=4)
    ctx.rule('C08.R4', 'Archive::save: create(tmp) -> write_all Ok -> sync_all Ok -> rename(tmp, path); .bak first; parent sync after', floor=4)
    ctx.rule('C08.R5', 'the archive path is used only by Archive::load and Archive::save', floor=1)
    bs = Bisync(ctx, F, 'C08.R3')
    ctx.attempt(r1, ctx, F)
    ctx.attempt(r2, ctx, F, bs)
    ctx.attempt(r3, ctx, F, bs)
    ctx.attempt(r4, ctx, F)
    ctx.attempt(r5, ctx, F, bs)


def r1(ctx, F):
    import semantic_anchors
    pubs = sorted(semantic_anchors.atomic_publishers(F))
    if F.body(COPY) is None and not pubs:
        ctx.missing('C08.R1', COPY)
    # the delivery primitive is the function that stages and renames; `copy_atomic` may have become a thin wrapper around it
    targets = pubs or [COPY]
    batched = []
    for path in targets:
        batched += [(path, x) for x in batched_renames(flow_of(F.body(path)))]
    if batched:
        # deliveries are staged into a container and published (renamed) together in a loop over it.  The order in which they
        # become visible is the order the container ITERATES in: a map / set keyed by path publishes `d/f` before
        # `d/f.conflict-..` whatever order they were staged in - the winner replaces the loser's file before the loser's copy has
        # a real name, and a kill in between leaves the loser under staging names only.  A list keeps the staging order; whether
        # that order is the right one is not decided here.
        unordered = [(p_, x) for p_, x in batched if not re.match(r'^(std|alloc)::(vec::Vec|collections::VecDeque|collections::vec_deque::VecDeque)', x[2])]
        multi = [(p_, x) for p_, x in unordered if p_ != COPY]
        if multi:
            p_, (rb_, nb_, ty_) = multi[0]
            ctx.bad('C08.R1', '%s:publication-order' % p_.split('::')[-1],
                    '%s renames its staged deliveries in a loop over a %s: they become visible in the order of the keys, not in the order they were staged - '
                    'a conflict publishes the winner over the loser\'s path before the loser\'s conflict-copy exists under a real name (killed in between, the loser survives '
                    'only under staging names and the next run drops it)' % (p_.split('::')[-1], ty_.split('<')[0].split('::')[-1]), term_loc(F.body(p_), rb_))
        else:
            ctx.undecided('C08.R1', 'deliveries are staged into a list and renamed in a loop over it: that the staging order is the safe publication order is not decided')
        return
    for path in targets:
        _r1_body(ctx, F, F.body(path))
    cb_ = F.body(COPY)
    if cb_ is not None and COPY not in targets:
        cfl = flow_of(cb_)
        fw = [t for _, t in cfl.calls(lambda c: c in targets)]
        ok = bool(fw) and all(all(o.kind == 'param' and o.key == 1 for o in cfl.origins(t['args'][0])) and all(o.kind == 'param' and o.key == 2 for o in cfl.origins(t['args'][1])) for t in fw)
        ctx.check(ok, 'C08.R1', 'copy_atomic:forwards', 'copy_atomic(src, dst) forwards its two paths to the staging primitive', 'copy_atomic no longer stages and renames, nor forwards to a function that does', loc(cb_, cb_.lo))


def _r1_body(ctx, F, b):
    fl = flow_of(b)
    cfg = fl.cfg
    src_i, dst_i = 1, 2      # (source, destination) are the primitive's first two path parameters
    creators = fl.calls(lambda c: c in tables.CONTENT_CREATORS and not c.endswith('OpenOptions::open'))
    renames = fl.calls(lambda c: c in RENAMES)
    is_tmp = lambda op: is_param_plus_suffix(F, fl, op, dst_i, '.copia-tmp')
    is_dst = lambda op: is_plain_param(F, fl, op, dst_i)
    # (a) every call that creates file content in copy_atomic writes the staging name, never the live path
    staged_copies = []
    for cb, ct in creators:
        c = callee(ct)
        dop = ct['args'][tables.CONTENT_CREATORS[c]]
        ok = is_tmp(dop)
        ctx.check(ok, 'C08.R1', 'copy_atomic:%s:writes-staging-only' % c.split('::')[-1], 'content is created only at dst+".copia-tmp"',
                  'copy_atomic creates file content with %s at a path that is not the reserved staging name dst+".copia-tmp": a kill during the write leaves a partial file at a live path' % c,
                  term_loc(b, cb))
        if ok and c.endswith('fs::copy'):
            so = fl.origins(ct['args'][0])
            if so and all(o.kind == 'param' and o.key == src_i for o in so):
                staged_copies.append(cb)
    for cb, ct in fl.calls(lambda c: c.endswith('OpenOptions::write') or c.endswith('OpenOptions::append') or c.endswith('OpenOptions::create')):
        # re-opening the STAGING file for writing = continuing a leftover of an interrupted run.  What it holds is a prefix of the
        # version that was being delivered then; the source may have changed since, so continuing it is only right after its bytes
        # were compared with the source's.  A decision that is not even given the source (path or open file) cannot have looked:
        # reported.  One that is given both is a statement about what it compares - not decided.
        opens_ = [(ob, ot) for ob, ot in fl.calls(lambda c: c.endswith('OpenOptions::open')) if fl.cfg.can_reach(cb, ob) and is_tmp(ot['args'][1])]
        if opens_:
            decided_with_src = False
            for sb in fl.cfg.reachable():
                st_ = b.blocks[sb]['term']
                if st_['k'] != 'switch' or st_['on']['k'] == 'const' or not fl.cfg.dominates(sb, opens_[0][0]):
                    continue
                for o in fl.origins(st_['on']):
                    if o.kind == 'call' and o.bb is not None and F.body(str(o.key)) is not None:
                        for a in b.blocks[o.bb]['term'].get('args', []):
                            if a['k'] == 'const':
                                continue
                            ty_ = b.local_ty(a['p']['l']).replace('&', '').replace('mut ', '').strip()
                            if ty_ in ('std::path::Path', 'std::path::PathBuf', 'std::fs::File') and is_plain_param(F, fl, a, src_i):
                                decided_with_src = True
            # (the deciding helper may have been spliced in: the call site is remembered on the goto that replaced it)
            for sb in fl.cfg.reachable():
                st_ = b.blocks[sb]['term']
                if st_.get('inlined') and fl.cfg.can_reach(sb, opens_[0][0]) and str(st_.get('inlined')).split('::{')[0] not in (COPY,):
                    for a in st_.get('inlined_args', []):
                        if a['k'] == 'const':
                            continue
                        ty_ = b.local_ty(a['p']['l']).replace('&', '').replace('mut ', '').strip()
                        rty_ = b.local_ty(st_['inlined_dst']['l']) if isinstance(st_.get('inlined_dst'), dict) else ''
                        if ty_ in ('std::path::Path', 'std::path::PathBuf', 'std::fs::File') and is_plain_param(F, fl, a, src_i) and rty_ in ('bool', 'u64', 'usize') or \
                                (ty_ in ('std::path::Path', 'std::path::PathBuf', 'std::fs::File') and is_plain_param(F, fl, a, src_i) and rty_.startswith('std::option::Option<')):
                            decided_with_src = True
            if decided_with_src:
                ctx.undecided('C08.R1', 'copy_atomic continues a leftover staging file under a test that is given the source: that the leftover is compared byte for byte with the source is not decided')
            else:
                ctx.bad('C08.R1', 'copy_atomic:leftover-continued-unverified', 'copy_atomic re-opens an existing staging file and continues it, and what decides that is not given the source: a leftover '
                        'of an interrupted run is trusted by its length alone - if the source was edited in between, the published file is the head of one version and the tail of another', term_loc(b, cb))
            continue
        ctx.bad('C08.R1', 'copy_atomic:OpenOptions-write', 'copy_atomic opens a file for writing through OpenOptions (not the staged copy)', term_loc(b, cb))
    # content may also be streamed into a created staging file (File::create(tmp) + io::copy / write_all): those writes count
    streamed = []
    created = [(cb, ct) for cb, ct in creators if not callee(ct).endswith('fs::copy') and is_tmp(ct['args'][tables.CONTENT_CREATORS[callee(ct)]])]
    if created:
        for wb, wt in fl.calls(lambda c: c in ('std::io::copy', 'std::io::Write::write_all', 'std::io::Write::write')):
            streamed.append(wb)
    staged_copies = staged_copies + streamed
    if not staged_copies and not ctx.violations:
        ctx.missing('C08.R1', 'copy_atomic: a copy(src, dst+".copia-tmp")')
    if not renames:
        ctx.missing('C08.R1', 'copy_atomic: rename(tmp, dst)')
    # (b) every rename publishes the staged file onto dst, only after copy Ok and a flush Ok of the staged file
    for rb, rt in renames:
        shape = is_tmp(rt['args'][0]) and is_dst(rt['args'][1])
        ctx.check(shape, 'C08.R1', 'copy_atomic:staging-name', 'rename(dst+".copia-tmp", dst)',
                  'copy_atomic does not stage into dst+".copia-tmp" and rename that onto dst', term_loc(b, rb))
        guarded = bool(staged_copies) and any(fl.guarded_by(rb, cb, 'Ok') for cb in staged_copies)
        # no write of the staged content may have failed on the way to the rename
        for cb in staged_copies:
            for (s_, t_, lab) in fl.outcomes(cb).get('Err', set()):
                if rb in cfg.reach(t_):
                    guarded = False
        ctx.check(guarded, 'C08.R1', 'copy_atomic:copy-ok-guards-rename', 'rename only after copy returned Ok',
                  'copy_atomic renames the staging file even if the copy failed (partial data published)', term_loc(b, rb))
        synced = False
        for sb, st in fl.calls(lambda c: c in SYNC):
            for o in fl.origins(st['args'][0]):
                if o.kind == 'call' and (o.key in tables.FS_READERS or o.key in tables.CONTENT_CREATORS):
                    pop = fl.body.blocks[o.bb]['term']['args'][tables.FS_READERS.get(o.key, tables.CONTENT_CREATORS.get(o.key, 0))]
                    if is_tmp(pop) and fl.guarded_by(rb, sb, 'Ok') and any(cfg.dominates(cb, sb) for cb in staged_copies):
                        synced = True
        # the file handle may be reached through a buffered writer (`w.get_ref().sync_all()`, `w.into_inner()?.sync_all()`)
        if not synced:
            for sb, st in fl.calls(lambda c: c in SYNC):
                if fl.guarded_by(rb, sb, 'Ok') and any(cfg.dominates(cb, sb) for cb in staged_copies) and created:
                    synced = True
        bw = buffered_writer_flushed_before(fl, rb)
        if bw is not None:
            ctx.check(bw, 'C08.R1', 'copy_atomic:buffer-flushed-before-rename', 'the buffered writer of the staged file is flushed (flush / into_inner Ok) before the rename',
                      'copy_atomic writes the staged file through a BufWriter and renames it into place without flushing the buffer: the tail still in the buffer is written '
                      'when the writer is dropped - after the fsync and after the rename - so a kill in between leaves a truncated file under the live name', term_loc(b, rb))
        ctx.check(synced, 'C08.R1', 'copy_atomic:fsync-before-rename', 'staged file flushed (sync_all Ok) between copy and rename',
                  'copy_atomic renames the staged file without fsync: the archive (which is fsynced) can become durable before the data it describes',
                  term_loc(b, rb))
    # (c) once content was staged, a successful return passes the rename (an early Ok before any write is not judged)
    errs_ = error_blocks(b)
    oks = [rb_ for (rb_, kind, data) in ret_defs(b) if rb_ not in errs_]
    rn = {rb for rb, _ in renames}
    reach_wo = set()
    for cb, _ in creators:
        reach_wo |= cfg.reach(cb, cut_blocks=rn)
    exits_ok = [x for x in oks if x in reach_wo and not (b.blocks[x]['term']['k'] == 'call' and callee(b.blocks[x]['term']) in RENAMES)]
    ctx.check(not exits_ok, 'C08.R1', 'copy_atomic:every-success-passes-rename', 'after content was written no non-error return is reachable without the rename',
              'copy_atomic can write content and return a non-error result without having renamed the staged file onto dst', term_loc(b, exits_ok[0]) if exits_ok else None)


LINKERS = ('std::fs::hard_link', 'std::os::unix::fs::symlink', 'tokio::fs::hard_link', 'tokio::fs::symlink')


def r2(ctx, F, bs):
    cg, graph = bs.bisync_graph()
    import semantic_anchors
    pubs = semantic_anchors.atomic_publishers(F) | {COPY, 'archive::Archive::save'}
    want = set(tables.CONTENT_CREATORS) | set(RENAMES)
    sites = cg.call_sites(lambda c: c in want, within=graph)
    for b, bb, c in sites:
        top = b.path.split('::{')[0]
        t = b.blocks[bb]['term']
        if c.endswith('OpenOptions::open'):
            continue   # classified by the write flag below
        ok = top in pubs
        if not ok and c in RENAMES and top.startswith('archive::'):
            # moving a complete archive file between its sibling names is atomic by itself (what may be TRUSTED is C07's matter)
            ok = True
        ctx.check(ok, 'C08.R2', '%s:%s' % (top, c), 'content creator / rename inside the atomic-delivery helper',
                  '%s creates file content or renames directly (bypassing copy_atomic / Archive::save): a kill can leave a partial live file' % top,
                  term_loc(b, bb))
    # OpenOptions opened for write inside the graph
    for b, bb, c in cg.call_sites(lambda c: c == 'std::fs::OpenOptions::write' or c == 'std::fs::OpenOptions::append' or c == 'std::fs::OpenOptions::create', within=graph):
        if b.path.split('::{')[0] in pubs:
            continue        # inside the delivery primitive itself: judged by C08.R1 (a staging file continued)
        ctx.bad('C08.R2', '%s:OpenOptions-write' % b.path.split('::{')[0], 'file opened for writing in the bisync call graph outside copy_atomic / Archive::save', term_loc(b, bb))
    # a link places complete content atomically, but unlike a rename it does not REPLACE: onto a name a killed run left behind
    # it fails with AlreadyExists - forever, unless that very error falls back to a publisher that replaces
    ek = F.adts.get('std::io::ErrorKind')
    exists_discr = next((v['discr'] for v in (ek or {}).get('variants', []) if v['name'] == 'AlreadyExists'), None)
    for b, bb, c in cg.call_sites(lambda c: c in LINKERS, within=graph):
        top = b.path.split('::{')[0]
        fl = flow_of(b)
        cfg = fl.cfg
        err = fl.outcomes(bb).get('Err', set())
        verdict = None
        if exists_discr is not None and err:
            after_err = set()
            for (s_, t_, lab) in err:
                after_err |= cfg.reach(t_)
            for sb in sorted(after_err):
                st = b.blocks[sb]['term']
                if st['k'] != 'switch' or st['on']['k'] == 'const':
                    continue
                os_ = fl.origins(st['on'])
                if not any(o.kind == 'call' and str(o.key).endswith('io::Error::kind') for o in os_):
                    continue
                tgt = dict((tv, tb) for tv, tb in st['targets']).get(exists_discr, st['otherwise'])
                r = cfg.reach(tgt)
                handled = any(b.blocks[x]['term']['k'] == 'call' and (callee(b.blocks[x]['term']) in pubs or callee(b.blocks[x]['term']) in RENAMES) for x in r)
                verdict = handled
        if verdict is None and err:
            # every error falls back?
            after_err = set()
            for (s_, t_, lab) in err:
                after_err |= cfg.reach(t_)
            if any(b.blocks[x]['term']['k'] == 'call' and callee(b.blocks[x]['term']) in pubs for x in after_err):
                ctx.undecided('C08.R2', '%s links a file into place and falls back to a publisher on some errors: which ones is not decided' % top)
                continue
            verdict = False
        ctx.check(bool(verdict), 'C08.R2', '%s:%s:replaces-on-rerun' % (top, c.split('::')[-1]), 'AlreadyExists from the link falls back to a publisher that replaces the destination',
                  '%s places a file with %s, which does not replace an existing destination, and AlreadyExists is not turned into a replacing copy: after a kill '
                  'between this step and the end of the action, every re-run stops here with "File exists" and the pair never converges' % (top, c.split('::')[-1]),
                  term_loc(b, bb))


def r3(ctx, F, bs):
    cg = callgraph_of(F)
    sites = cg.call_sites(lambda c: c == 'archive::Archive::save')
    # (several call sites inside run_bisync are several ways to finish - each one is judged below; a call from elsewhere is not)
    ctx.check(len(sites) >= 1 and all(x[0].path.split('::{')[0] == RUN for x in sites), 'C08.R3', 'save:single-call-site', 'only run_bisync calls Archive::save',
              'Archive::save is called from %s' % sorted(b.path for b, _, _ in sites), None)
    r = bs.rfl
    R = bs.run
    cfg = r.cfg
    for sb, st in r.calls_to('archive::Archive::save'):
        # the loop that applies the plan
        ab = bs.apply_call_bb
        loops = cfg.loops()
        heads = [h for h, blocks in loops.items() if ab in blocks]
        nexts = [nb for nb, nt in r.calls_to('std::iter::Iterator::next') if any(nb in loops[h] for h in heads)]
        after_loop = bool(nexts) and any(r.guarded_by(sb, nb, 'None') for nb in nexts) and not any(sb in loops[h] for h in heads)
        if not after_loop and not cfg.can_reach(sb, ab) and not any(sb in loops[h] for h in heads) and len(r.calls_to('archive::Archive::save')) > 1:
            # a second way to finish that does not run the apply loop at all (a fast path for plans with nothing to deliver):
            # nothing is applied after this record - whether anything was PENDING on this path is a question about the plan
            ctx.undecided('C08.R3', 'run_bisync records the archive on a path that does not run the apply loop: that the plan held nothing to deliver there is not decided')
        else:
            ctx.check(after_loop, 'C08.R3', 'run_bisync:save-after-apply-loop', 'save guarded by the exhaustion (None) edge of the plan iterator',
                      'Archive::save is reachable before every planned action was applied (inside or before the apply loop)', term_loc(R, sb))
        oc = r.outcomes(ab)
        err = oc.get('Err', set())
        reach_err = set()
        for (s, t, lab) in err:
            reach_err |= cfg.reach(t)
        ctx.check(bool(err) and sb not in reach_err and r.guarded_by(sb, ab, 'Ok') or (bool(err) and sb not in reach_err), 'C08.R3', 'run_bisync:no-save-after-apply-error',
                  'Err edge of apply cannot reach save', 'Archive::save is reachable after apply returned an error: the record would describe data that was not delivered',
                  term_loc(R, sb))
        # the record is the LAST effect: nothing reachable after save changes a tree (a delete or copy queued behind the
        # save would let a kill leave the new record on disk while the data it describes is not there yet)
        late = []
        for bi2 in sorted(cfg.reach(sb) - {sb}):
            t2 = R.blocks[bi2]['term']
            if t2['k'] != 'call':
                continue
            c2 = callee(t2) or ''
            mut = c2 in tables.FS_MUTATORS or (F.body(c2) is not None and any(x in tables.FS_MUTATORS for x in cg.reach([c2])))
            if mut:
                late.append((bi2, c2))
        ctx.check(not late, 'C08.R3', 'run_bisync:nothing-after-save', 'no file-system mutation is reachable after Archive::save',
                  'run_bisync changes a tree after the archive was saved (%s): a kill in between leaves a record that runs ahead of the data - '
                  'the re-run treats the not-yet-deleted file as new and resurrects it' % sorted({c for _, c in late})[:3], term_loc(R, late[0][0]) if late else term_loc(R, sb))
        dry_false = set()
        for swb, swt in switch_blocks_on(r, lambda os_: bool(os_) and all(o.path[-1:] == ('dry_run',) for o in os_)):
            tr, fa = bool_edges(swb, swt)
            dry_false |= fa
        ctx.check(bool(dry_false) and cfg.edges_guard(dry_false, sb), 'C08.R3', 'run_bisync:no-save-under-dry-run', 'save guarded by dry_run == false',
                  'Archive::save is reachable under --dry-run', term_loc(R, sb))


def r4(ctx, F):
    b = F.body('archive::Archive::save')
    if b is None:
        ctx.missing('C08.R4', 'archive::Archive::save')
    fl = flow_of(b)
    cfg = fl.cfg
    path_i = param_index(b, 'path') or 2
    creates = fl.calls(lambda c: c in ('std::fs::File::create', 'std::fs::File::create_new'))
    writes = fl.calls(lambda c: c in ('std::io::Write::write_all',))
    syncs = fl.calls(lambda c: c in SYNC)
    renames = fl.calls(lambda c: c in RENAMES)
    pub = [(rb, rt) for rb, rt in renames if is_plain_param(F, fl, rt['args'][1], path_i)]
    bak = [(rb, rt) for rb, rt in renames if (rb, rt) not in pub]
    if len(pub) != 1 or not creates or not writes or not syncs:
        ctx.missing('C08.R4', 'Archive::save: create/write_all/sync_all/publishing rename (found %d/%d/%d/%d)' % (len(creates), len(writes), len(syncs), len(pub)))
    pb, pt = pub[0]
    staged = is_param_plus_suffix(F, fl, pt['args'][0], path_i, '.tmp') and \
        all(is_param_plus_suffix(F, fl, ct['args'][0], path_i, '.tmp') for cb, ct in creates)
    ctx.check(staged, 'C08.R4', 'save:staging-name', 'File::create(path+".tmp"); rename(path+".tmp", path)',
              'Archive::save does not write a path+".tmp" staging file and rename it into place (archive written in place?)', term_loc(b, pb))
    # handle identity: write_all and sync_all on the created file
    file_sig = {(o.kind, o.key, o.bb) for cb, ct in creates for o in [Origin('call', callee(ct), (), cb)]}
    w_ok = [wb for wb, wt in writes if {(o.kind, o.key, o.bb) for o in fl.origins(wt['args'][0])} & file_sig]
    s_ok = [sb for sb, st in syncs if {(o.kind, o.key, o.bb) for o in fl.origins(st['args'][0])} & file_sig]
    chain = bool(w_ok) and bool(s_ok) and any(fl.guarded_by(pb, wb, 'Ok') for wb in w_ok) and any(fl.guarded_by(pb, sb, 'Ok') for sb in s_ok) \
        and any(cfg.dominates(wb, sb) for wb in w_ok for sb in s_ok)
    ctx.check(chain, 'C08.R4', 'save:write-sync-rename', 'write_all Ok -> sync_all Ok dominate the publishing rename',
              'Archive::save can publish an archive that was not completely written and fsynced (write_all/sync_all of the staged file do not guard the rename)',
              term_loc(b, pb))
    # written bytes = serialisation of self
    ser = False
    for wb in w_ok:
        wo = fl.origins(b.blocks[wb]['term']['args'][1])
        if any(o.kind == 'call' and o.key.startswith('serde_json::to_') for o in wo):
            ser = True
    ctx.check(ser, 'C08.R4', 'save:content', 'bytes written are serde_json of self', 'Archive::save writes something else than the serialised archive', term_loc(b, pb))
    bak_ok = all(cfg.dominates(bb_, pb) or not cfg.can_reach(pb, bb_) for bb_, _ in bak) and all(not cfg.can_reach(pb, bb_) for bb_, _ in bak)
    ctx.check(bak_ok, 'C08.R4', 'save:bak-before-publish', '.bak rename happens before the publishing rename',
              'a rename other than the publishing one can run after the archive was published', term_loc(b, pb))
    # parent dir sync after publish
    after = [sb for sb, st in syncs if sb not in s_ok and cfg.dominates(pb, sb)]
    ctx.check(bool(after), 'C08.R4', 'save:parent-dir-sync', 'directory handle synced after the rename',
              'Archive::save no longer syncs the parent directory after the publishing rename', term_loc(b, pb))


def r5(ctx, F, bs):
    cg = callgraph_of(F)
    sites = cg.call_sites(lambda c: c == 'archive::archive_path')
    only = bool(sites) and all(x[0].path.split('::{')[0] in (RUN,) or x[0].path.startswith('archive::') for x in sites)     # (how many times it is computed does not matter)
    r = bs.rfl
    R = bs.run
    uses_ok = True
    detail = []
    for b, bb, c in sites:
        if b.path != RUN:
            continue
        l = b.blocks[bb]['term']['dst']['l']
        for (ubb, uidx, role) in r._transitive_uses(l):
            if uidx == 'term':
                t = R.blocks[ubb]['term']
                if t['k'] == 'call':
                    c2 = callee(t)
                    if c2 in ('archive::Archive::load', 'archive::Archive::save') or c2 in IDENTITY_CALLS:
                        continue
                    uses_ok = False
                    detail.append(c2)
    ctx.check(only and uses_ok, 'C08.R5', 'archive_path:uses', 'archive_path() result flows only into Archive::load / Archive::save',
              'the archive path is also used by %s (callers of archive_path: %s)' % (detail, sorted(b.path for b, _, _ in sites)), None)
