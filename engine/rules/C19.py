"""C19 — the one-way planner and its pattern matcher equal their set definitions (DESIGN §7 C19)."""
import os
import re

from rules.common import *  # noqa: F401,F403
import dd
import extract
import shell
from callgraph import callgraph_of

CONFIGS = ['cli']
LEVEL = 'other'
EXPLANATION = (
    'Decides the membership conditions: (R1) build_plan pushes a source path to `transfer` exactly on (not excluded AND needs_transfer), counts it as '
    'skipped exactly on (not excluded AND NOT needs_transfer), pushes a destination path to `delete` exactly on (with_delete AND absent from src AND not '
    'excluded); both loops range over the whole maps with the loop path as operand everywhere; both vectors are sorted before return; a plan built by one merge pass over the two sorted listings is accepted only as NO-VERDICT, and reported when its keys are compared as strings or bytes (the maps iterate in Path component order); is_excluded must be called with paths relative to the tree root at every call site; glob_match must walk characters, not bytes; (R2) the decision DAG of '
    'needs_transfer is "dst absent OR size differs OR mtime differs" (exhaustive over 5 valuations; Lean mirror cross-checked); (R3) is_excluded dispatches on '
    '`/` in the pattern between whole-path and per-Normal-component matching with the trailing slash trimmed and empty patterns skipped, and in glob_match every '
    'literal comparison of a pattern character is guarded by the not-equal edge of each metacharacter test (`?`, `*`) of that character; characters flow only into ==; '
    '(R4) the remote listing writer (find -printf \'%s\\t%T@\\t%p\\0\') and its parser agree on separators, field order, field count, the ./ prefix and whole seconds. '
    'R3 also decides the matcher\'s step function: glob_match is cut at its loop heads and every transition is compared with the classic single-star backtracking matcher on every valuation of {ti<len(t), pi<len(p), p[pi]==\'*\', p[pi]==\'?\', p[pi]==t[ti], star.is_some()}; the prefix/suffix-overlap fast path is reported. '
    'Not decided: that the classic matcher equals the declarative wildcard semantics (textbook argument); early returns outside the modelled loops (NO-VERDICT); UTF-8 lossy corner.')
ASSUMPTIONS = ['BTreeMap iteration visits every entry', 'find(1) -printf semantics for %s %T@ %p']


def run(ctx):
    F = ctx.F['cli']
    ctx.attempt(plan_rules, ctx, F, 'C19.R1')
    ctx.attempt(needs_transfer_rule, ctx, F, 'C19.R2')
    ctx.attempt(excluded_rules, ctx, F, 'C19.R3')
    ctx.attempt(glob_rules, ctx, F, 'C19.R3')
    ctx.attempt(listing_rule, ctx, F, 'C19.R4')


# ---------------------------------------------------------------- build_plan
def plan_rules(ctx, F, rid):
    """build_plan as a set of NECESSARY conditions over dominance facts (idiom-tolerant: continue / nested if / match with a
    guard / iterator chains with a filter closure all satisfy them):
      transfer  every push into plan.transfer is behind the `false` edge of is_excluded(<the pushed path>, excludes), is unreachable
                (within the iteration) from the `false` edge of needs_transfer, and the needs_transfer that steers it compares the
                entry's own metadata with dst.get(<the same path>);
      skipped   the skipped count is behind is_excluded == false and unreachable from needs_transfer == true; a non-excluded source
                entry cannot finish its iteration without being pushed or counted;
      delete    every push / extend into plan.delete is behind with_delete == true; a pushed path is behind contains_key(src, path)
                == false (or src.get(path) None) and is_excluded(path) == false; an extend takes dst keys through a filter whose
                closure is exactly !in_src && !excluded (truth table over the two atoms, stepfn.py);
      whole     both walks range over the whole src / dst map (order-preserving adaptors only);  sorted  before return."""
    ctx.rule(rid, 'build_plan: transfer/skipped/delete membership (necessary guards), whole-map walks, sorted output', floor=5)
    b = F.body('plan::build_plan')
    if b is None:
        ctx.missing(rid, 'plan::build_plan')
    fl = flow_of(b)
    cfg = fl.cfg
    src_i, dst_i, exc_i, del_i = (param_index(b, n) for n in ('src', 'dst', 'excludes', 'with_delete'))
    if None in (src_i, dst_i, exc_i, del_i):
        src_i, dst_i, exc_i, del_i = 1, 2, 3, 4          # positional: (src, dst, excludes, with_delete)
    loops = cfg.loops()
    heads = set(loops.keys())
    exits = set(cfg.exits())
    # A merge pass over the two sorted maps (instead of one lookup per entry) is another algorithm: it is right exactly when
    # the keys are compared in the order the maps iterate in (Path's component order).  A comparison of the raw bytes / strings
    # of the paths is a different order (`lib/x.rs` vs `lib.rs`) - that is a violation; a merge pass that compares the paths
    # themselves is outside what this rule models.
    merge = []
    for bodyx in F.nested('plan::build_plan') + [x for k_, x in F.bodies.items() if k_.startswith('plan::') and k_.split('::{')[0] not in ('plan::build_plan', 'plan::is_excluded', 'plan::glob_match', 'plan::needs_transfer') and '::tests' not in k_]:
        xfl = flow_of(bodyx)
        for cb_, ct_ in xfl.calls(lambda c: c in ('std::cmp::Ord::cmp', 'std::cmp::PartialOrd::partial_cmp', 'std::cmp::PartialOrd::lt', 'std::cmp::PartialOrd::le',
                                                   'std::cmp::PartialOrd::gt', 'std::cmp::PartialOrd::ge')):
            tys = ' '.join(bodyx.local_ty(a['p']['l']) for a in ct_['args'] if a['k'] != 'const')
            if 'Path' in tys or 'OsStr' in tys or 'str' in tys or '[u8]' in tys:
                raw = 'Path' not in tys or any(o.kind == 'call' and str(o.key).split('::')[-1] in ('as_os_str', 'as_encoded_bytes', 'to_string_lossy', 'to_str', 'as_bytes', 'as_str', 'display', 'to_string')
                                               for a in ct_['args'] if a['k'] != 'const' for o in xfl.origins(a))
                merge.append((bodyx, cb_, raw))
    called = {c for c in (callee(t_) for _, t_ in fl.calls(lambda c: True))}
    def under_build_plan(bx):
        # closures of a helper that was spliced into build_plan hang under build_plan (re-parented)
        cur, n_ = bx, 0
        while cur is not None and n_ < 8:
            if cur.path.split('::{')[0] == 'plan::build_plan' or cur.path == 'plan::build_plan':
                return True
            cur = F.body(cur.parent) if cur.parent else None
            n_ += 1
        return False
    merge = [m_ for m_ in merge if under_build_plan(m_[0]) or m_[0].path.split('::{')[0] in called]
    if merge:
        rawm = [m_ for m_ in merge if m_[2]]
        if rawm:
            ctx.bad(rid, 'build_plan:merge-order', 'build_plan walks the two listings in one merge pass and compares the keys as raw bytes / strings: the maps iterate in Path (component) order, '
                    'where `lib/x.rs` < `lib.rs`, the bytes say the opposite - around such a pair the pass mis-aligns, a file present on both sides is re-sent and/or lands in the delete set',
                    term_loc(rawm[0][0], rawm[0][1]))
        else:
            ctx.undecided(rid, 'build_plan is a merge pass over both listings (keys compared as paths): membership is not decided by the per-entry rules')
        return

    def field_of(op):
        for o in fl.origins(op):
            if o.path:
                return o.path[-1]
        return None

    def vsig(op):
        return {(o.kind, o.key, o.bb) for o in fl.origins(op) if o.kind != 'comb'}

    def is_param(os_, i):
        os_ = [o for o in os_ if o.kind != 'comb']
        return bool(os_) and all(o.kind == 'param' and o.key == i for o in os_)

    def loop_heads_of(bb):
        return [h for h, blocks in loops.items() if bb in blocks]

    def walked(bb):
        """(param indices, restricting adaptors) of the collection walked by the innermost loop around bb"""
        hs = loop_heads_of(bb)
        for nb, nt in fl.calls_to('std::iter::Iterator::next'):
            if any(nb in loops[h] for h in hs):
                coll = iterated_collection(fl, nb)
                return nb, {o.key for o in coll if o.kind == 'param'}, {str(o.key) for o in coll if o.kind == 'call'}
        return None, set(), set()

    other_predicates = set()

    def from_excludes(op, depth=0):
        # the operand is the `excludes` parameter, or was built from it (a compiled pattern set: a collection filled with values
        # computed from the patterns)
        work, seen_, steps = [op], set(), 0
        while work and steps < 200:
            steps += 1
            cur = work.pop()
            if cur['k'] == 'const':
                continue
            for o in fl.origins(cur, mut_calls=True):
                k_ = (o.kind, str(o.key), o.bb)
                if k_ in seen_:
                    continue
                seen_.add(k_)
                if o.kind == 'param' and o.key == exc_i:
                    return True
                if o.kind in ('call', 'mutcall') and o.bb is not None:
                    work += [a for a in b.blocks[o.bb]['term'].get('args', []) if a['k'] != 'const']
        return False

    def exclusion_tests(sig):
        """calls that ask "is this path excluded?": is_excluded(path, excludes), or another crate predicate (-> bool) that is
        given the path and something built from `excludes`"""
        out = []
        for cb, ct in fl.calls(lambda c: F.body(c) is not None):
            c = callee(ct)
            if b.local_ty(ct['dst']['l']) != 'bool':
                continue
            has_path = any(a['k'] != 'const' and vsig(a) == sig for a in ct['args'])
            has_exc = any(a['k'] != 'const' and from_excludes(a) for a in ct['args'])
            if has_path and has_exc:
                out.append((cb, ct, fl.outcomes(cb)))
                if c != 'plan::is_excluded':
                    other_predicates.add(c)
        # .. the same predicate spliced in place (inline.py): the site is remembered on the goto that replaced the call
        for bi_ in cfg.reachable():
            t_ = b.blocks[bi_]['term']
            if t_.get('inlined') and isinstance(t_.get('inlined_dst'), dict) and not t_['inlined_dst'].get('proj') and b.local_ty(t_['inlined_dst']['l']) == 'bool':
                args_ = t_.get('inlined_args', [])
                if any(a['k'] != 'const' and vsig(a) == sig for a in args_) and any(a['k'] != 'const' and from_excludes(a) for a in args_):
                    out.append((bi_, t_, fl.outcomes(None, t_['inlined_dst']['l'])))
                    if t_['inlined'] != 'plan::is_excluded':
                        other_predicates.add(t_['inlined'])
        # a spliced predicate may itself test pattern after pattern through spliced helpers: those inner tests (one pattern against
        # the path) lie inside the outer one and are not "the" exclusion test
        inner = set()
        for cb, ct, oc_ in out:
            if ct.get('inlined') and isinstance(ct.get('target'), int):
                stop = {e[1] for es in oc_.values() for e in es} | {e[0] for es in oc_.values() for e in es if e[2] is not None}
                region = cfg.reach(ct['target'], cut_blocks=list(stop))
                inner |= {cb2 for cb2, _, _ in out if cb2 != cb and cb2 in region}
        out = [x for x in out if x[0] not in inner]
        return out

    def excl_false(sig):
        e = set()
        for cb, ct, oc_ in exclusion_tests(sig):
            e |= oc_.get('false', set())
        return e

    def excl_true(sig):
        e = set()
        for cb, ct, oc_ in exclusion_tests(sig):
            e |= oc_.get('true', set())
        return e

    def absent_edges(sig, map_i):
        """edges on which `path` is known to be absent from map param map_i"""
        e = set()
        for cb, ct in fl.calls(lambda c: c.split('::')[-1] in ('contains_key', 'get')):
            if is_param(fl.origins(ct['args'][0]), map_i) and vsig(ct['args'][1]) == sig:
                oc_ = fl.outcomes(cb)
                e |= oc_.get('false', set()) if callee(ct).endswith('contains_key') else oc_.get('None', set())
                if callee(ct).endswith('::get'):
                    for ib, it in fl.calls(lambda c: c.startswith('std::option::Option::<') and c.split('::')[-1] in ('is_none', 'is_some')):
                        if any(o.kind == 'call' and o.bb == cb for o in fl.origins(it['args'][0])):
                            e |= fl.outcomes(ib).get('true' if callee(it).endswith('is_none') else 'false', set())
        return e

    def within_iteration_reach(edges, hs):
        r = set()
        for (s_, t_, lab) in edges:
            r |= cfg.reach(t_, cut_blocks=hs)
        return r

    pushes = fl.calls(lambda c: c in ('std::vec::Vec::<T, A>::push',))
    extends = fl.calls(lambda c: c.split('::')[-1] in ('extend', 'extend_from_slice', 'append') and 'Vec' in c or c == 'std::iter::Extend::extend')
    del_true = set()
    for sb, st in switch_blocks_on(fl, lambda os_: is_param(os_, del_i)):
        tr, fa = bool_edges(sb, st)
        del_true |= tr
    seen = set()
    # ------------------------------------------------------------ transfer / skipped (the walk over src)
    nt_calls = fl.calls_to('plan::needs_transfer')
    for pb, pt in pushes:
        fld = field_of(pt['args'][0])
        if fld != 'transfer':
            continue
        seen.add('transfer')
        sig = vsig(pt['args'][1])
        hs = loop_heads_of(pb)
        nb, cols, extra = walked(pb)
        whole = cols == {src_i} and not extra
        g_ex = bool(excl_false(sig)) and cfg.edges_guard(excl_false(sig), pb)
        nt_ok, nt_true, nt_false = False, set(), set()
        for cb, ct in nt_calls:
            so = [o for o in fl.origins(ct['args'][0]) if o.kind != 'comb']
            do = [o for o in fl.origins(ct['args'][1]) if o.kind not in ('comb', 'agg')]
            s_ok = bool(so) and all(o.kind == 'call' and o.key == 'std::iter::Iterator::next' and o.bb == nb for o in so)
            d_ok = bool(do) and all(o.kind == 'call' and o.key.endswith('::get') and is_param(call_arg_origins(fl, o.bb, 0), dst_i) and
                                    {(x.kind, x.key, x.bb) for x in call_arg_origins(fl, o.bb, 1) if x.kind != 'comb'} == sig for o in do)
            if s_ok and d_ok:
                nt_ok = True
                nt_true |= fl.outcomes(cb).get('true', set())
                nt_false |= fl.outcomes(cb).get('false', set())
        not_after_false = pb not in within_iteration_reach(nt_false, hs)
        ctx.check(whole and g_ex and nt_ok and bool(nt_false) and not_after_false, rid, 'build_plan:transfer',
                  'push(path) behind !is_excluded(path), never after needs_transfer(smeta, dst.get(path)) == false, over all of src',
                  'transfer membership differs from {non-excluded source paths that need transfer} (whole src: %s, behind !is_excluded: %s, needs_transfer on '
                  'this entry and dst.get(path): %s, unreachable after needs_transfer == false: %s)' % (whole, g_ex, nt_ok, not_after_false), term_loc(b, pb))
        # skipped
        sk = None
        for bi in cfg.reachable():
            for st in b.blocks[bi]['stmts']:
                pr = st['dst']['proj']
                if pr and isinstance(pr[-1], dict) and pr[-1].get('name') == 'skipped':
                    sk = bi
        ok_sk = sk is not None and nt_ok and g_ex and cfg.edges_guard(excl_false(sig), sk) and sk not in within_iteration_reach(nt_true, hs) and \
            bool(nt_false) and cfg.edges_guard(nt_false, sk)
        # a non-excluded entry is pushed or counted before the iteration ends
        accounted = True
        for (s_, t_, lab) in excl_false(sig):
            r = cfg.reach(t_, cut_blocks=[pb] + ([sk] if sk is not None else []))
            if r & (set(hs) | exits):
                accounted = False
        ctx.check(ok_sk and accounted, rid, 'build_plan:skipped', 'skipped += 1 behind !is_excluded && needs_transfer == false; every non-excluded entry is pushed or counted',
                  'the skipped count is not the number of non-excluded source paths that need no transfer (guards: %s, every entry accounted: %s)' % (ok_sk, accounted),
                  term_loc(b, sk) if sk is not None else loc(b, b.lo))
    # ------------------------------------------------------------ delete: explicit loop form
    for pb, pt in pushes:
        if field_of(pt['args'][0]) != 'delete':
            continue
        seen.add('delete')
        sig = vsig(pt['args'][1])
        hs = loop_heads_of(pb)
        nb, cols, extra = walked(pb)
        whole = cols == {dst_i} and not extra
        g = bool(del_true) and cfg.edges_guard(del_true, pb) and bool(excl_false(sig)) and cfg.edges_guard(excl_false(sig), pb) and \
            bool(absent_edges(sig, src_i)) and cfg.edges_guard(absent_edges(sig, src_i), pb)
        # on the conjunction the push is unavoidable: from the last guard edge(s) the iteration cannot end without it
        u = g
        if g:
            both = [e for e in excl_false(sig) if cfg.edges_guard(absent_edges(sig, src_i), e[1])] or \
                   [e for e in absent_edges(sig, src_i) if cfg.edges_guard(excl_false(sig), e[1])]
            for (s_, t_, lab) in both:
                if cfg.reach(t_, cut_blocks=[pb]) & (set(hs) | exits):
                    u = False
        ctx.check(whole and g and u, rid, 'build_plan:delete', 'push(path) iff with_delete && path not in src && !is_excluded(path), over all dst keys',
                  'delete membership differs from {destination paths absent from the source and not excluded, only with --delete} (whole dst: %s, guarded: %s, unavoidable: %s)' % (whole, g, u),
                  term_loc(b, pb))
    # ------------------------------------------------------------ delete: iterator-chain form  delete.extend(dst.keys().filter(P).cloned())
    for eb, et in extends:
        if field_of(et['args'][0]) != 'delete':
            continue
        seen.add('delete')
        ok, why = _filter_chain_is(F, b, fl, et['args'][1], dst_i, src_i, exc_i)
        g = bool(del_true) and cfg.edges_guard(del_true, eb)
        ctx.check(ok and g, rid, 'build_plan:delete', 'delete.extend(dst keys filtered by !in_src && !excluded) under with_delete',
                  'delete membership differs from {destination paths absent from the source and not excluded, only with --delete} (%s; behind with_delete: %s)' % (why, g),
                  term_loc(b, eb))
    for need in ('transfer', 'delete'):
        if need not in seen:
            ctx.bad(rid, 'build_plan:%s-exists' % need, 'build_plan never fills plan.%s (or not in a recognised way)' % need, loc(b, b.lo))
    # sorted before return
    sorts = fl.calls(lambda c: 'sort' in c.split('::')[-1])
    sorted_fields = set()
    for sb, st in sorts:
        for o in fl.origins(st['args'][0]):
            if o.path:
                sorted_fields.add(o.path[-1])
    rets = [bb for bb, kind, data in ret_defs(b)]
    dom = all(any(cfg.dominates(sb, rb) for sb, _ in sorts) for rb in rets) if sorts else False
    if other_predicates:
        # the plan asks another predicate than is_excluded (a compiled pattern set): membership is judged with it as "the
        # exclusion test"; that it implements the documented exclusion semantics is what the matcher rules decide - for is_excluded
        ctx.undecided(rid, 'build_plan tests exclusion through %s, not through is_excluded: that this predicate is the documented one is not decided' % sorted(other_predicates)[0].split('::{')[0])
    ctx.check({'transfer', 'delete'} <= sorted_fields and dom, rid, 'build_plan:sorted', 'transfer and delete sorted before return',
              'build_plan returns unsorted vectors (sorted: %s)' % sorted(sorted_fields), loc(b, b.lo))
    ctx.ok(rid, 'build_plan:anchors', 'src=%s dst=%s excludes=%s with_delete=%s' % (src_i, dst_i, exc_i, del_i))


def _filter_chain_is(F, b, fl, op, dst_i, src_i, exc_i):
    """`op` is dst.keys() (or dst.iter() keys) through exactly one filter whose closure is (p not in src) && !is_excluded(p, excludes),
    followed only by element-preserving adaptors (cloned / copied / map(clone))"""
    import stepfn
    KEEP = ('cloned', 'copied', 'into_iter', 'iter', 'keys', 'by_ref', 'into_keys')
    filt = None
    cur = [op]
    base = set()
    for _ in range(8):
        nxt = []
        for o_ in cur:
            for o in fl.origins(o_):
                if o.kind == 'param':
                    base.add(o.key)
                elif o.kind == 'call' and o.bb is not None:
                    last = str(o.key).split('::')[-1]
                    t = b.blocks[o.bb]['term']
                    if last == 'filter':
                        if filt is not None:
                            return False, 'more than one filter'
                        filt = t
                        nxt.append(t['args'][0])
                    elif last in KEEP:
                        nxt.append(t['args'][0])
                    else:
                        return False, 'adaptor %s' % last
        cur = nxt
        if not cur:
            break
    if base != {dst_i} or filt is None:
        return False, 'not dst keys through a filter (base params %s)' % sorted(base)
    clos = [o for o in fl.origins(filt['args'][1]) if o.kind == 'agg' and F.body(o.key) is not None]
    if len(clos) != 1:
        return False, 'filter predicate is not a closure of this function'
    cb = F.body(clos[0].key)
    # captured variables: which upvar is src / excludes
    cap = {}
    for blk in b.blocks:
        for st in blk['stmts']:
            rv = st['rv']
            if rv['k'] == 'agg' and rv.get('ak') == 'closure' and norm(rv['def']) == cb.path:
                for k_, o_ in enumerate(rv['ops']):
                    os_ = [x for x in fl.origins(o_) if x.kind != 'comb']
                    if os_ and all(x.kind == 'param' for x in os_):
                        cap[k_] = {x.key for x in os_}
    cfl = flow_of(cb)

    def upv_is(os_, want):
        os_ = [o for o in os_ if o.kind != 'comb']
        return bool(os_) and all(o.kind == 'upvar' and o.key is not None and cap.get(int(o.key)) == {want} for o in os_)

    def is_elem(os_):
        os_ = [o for o in os_ if o.kind != 'comb']
        return bool(os_) and all(o.kind == 'param' and o.key == 2 for o in os_)
    # atoms of the closure: C = src.contains_key(p) / src.get(p).is_some(),  E = is_excluded(p, excludes)
    atoms = {}
    for bb_, t_ in cfl.calls():
        c_ = callee(t_) or ''
        if c_.split('::')[-1] == 'contains_key' and upv_is(cfl.origins(t_['args'][0]), src_i) and is_elem(cfl.origins(t_['args'][1])):
            atoms[bb_] = 'C'
        elif c_ == 'plan::is_excluded' and is_elem(cfl.origins(t_['args'][0])) and upv_is(cfl.origins(t_['args'][1]), exc_i):
            atoms[bb_] = 'E'
    if set(atoms.values()) != {'C', 'E'}:
        return False, 'the filter closure does not test both membership in src and is_excluded on its element'
    # truth table by path enumeration: result true exactly on (not C and not E); short-circuit forms leave atoms unread
    rets_true, rets_false = set(), set()
    for bi in cfl.cfg.reachable():
        for st in cb.blocks[bi]['stmts']:
            if st['dst']['l'] == 0 and not st['dst']['proj']:
                rv = st['rv']
                if rv['k'] == 'use' and rv['ops'][0]['k'] == 'const':
                    (rets_true if rv['ops'][0].get('v') else rets_false).add(bi)
                elif rv['k'] == 'un' and rv['op'] == 'Not':
                    # `_0 = !x` with x the result of one of the atoms: true exactly on that atom's false outcome
                    src_calls = [o.bb for o in cfl.origins(rv['ops'][0]) if o.kind == 'call' and o.bb in atoms]
                    if len(src_calls) != 1:
                        return False, 'closure result is a negation of something else'
                    rets_true.add(('notcall', bi, src_calls[0]))
                else:
                    return False, 'closure result of an unmodelled form'
    cf = lambda a_: set().union(*[cfl.outcomes(bb_).get('false', set()) for bb_, n in atoms.items() if n == a_]) if True else set()
    ct_ = lambda a_: set().union(*[cfl.outcomes(bb_).get('true', set()) for bb_, n in atoms.items() if n == a_])
    ok = True
    for r in rets_true:
        if isinstance(r, tuple):
            _, bi, cbb = r
            other = 'E' if atoms[cbb] == 'C' else 'C'
            ok = ok and bool(cf(other)) and cfl.cfg.edges_guard(cf(other), bi)
        else:
            ok = ok and bool(cf('C')) and bool(cf('E')) and cfl.cfg.edges_guard(cf('C'), r) and cfl.cfg.edges_guard(cf('E'), r)
    for r in rets_false:
        # a constant false is returned only when one of the atoms was true
        reach_ok = False
        for a_ in ('C', 'E'):
            if ct_(a_) and cfl.cfg.edges_guard(ct_(a_), r):
                reach_ok = True
        ok = ok and reach_ok
    if not rets_true:
        ok = False
    return ok, 'filter closure is%s exactly !in_src && !excluded' % ('' if ok else ' not')


# ---------------------------------------------------------------- needs_transfer
def needs_transfer_rule(ctx, F, rid):
    ctx.rule(rid, 'needs_transfer == dst absent OR size differs OR mtime differs', floor=5)
    where = 'src/bin/copia/plan.rs (plan::needs_transfer)'
    eng = dd.DD(F, {})
    try:
        leaves = eng.run('plan::needs_transfer', [dd.Sym('s'), dd.Opt('d')])
    except dd.DataDependence as e:
        ctx.bad(rid, 'needs_transfer:data', 'needs_transfer uses metadata other than through (in)equality of size and mtime: %s' % e, where)
        return
    except dd.Undecided as e:
        from verdict import NoVerdict
        raise NoVerdict('undecided: needs_transfer %s' % e)
    a_sz = ('eq', 'd.size', 's.size')
    a_mt = ('eq', 'd.mtime', 's.mtime')
    atoms_seen = set()
    table = {}
    for has in (False, True):
        for sz in ((True, False) if has else (None,)):
            for mt in ((True, False) if has else (None,)):
                v = {('has', 'd'): has}
                if has:
                    v[a_sz] = sz
                    v[a_mt] = mt
                res = set()
                for asg, val in leaves:
                    atoms_seen |= set(asg)
                    if all(k in v and v[k] == t for k, t in asg.items()):
                        if val[0] == 'const':
                            res.add(bool(val[1]))
                        elif val[0] == 'bool':
                            r = dd.eval_formula(val[1], v)
                            res.add(r if r in (True, False) else None)
                exp = (not has) or (not sz) or (not mt)
                key = 'absent' if not has else 'size%s,mtime%s' % ('=' if sz else '!=', '=' if mt else '!=')
                table[key] = res
                ctx.check(res == {exp}, rid, 'needs_transfer:' + key, '-> %s' % sorted(map(str, res)),
                          'needs_transfer(%s) yields %s, the definition says %s' % (key, sorted(map(str, res)), exp), where)
    extra = atoms_seen - {a_sz, a_mt, ('has', 'd')}
    if extra:
        ctx.bad(rid, 'needs_transfer:atoms', 'needs_transfer depends on more than presence, size equality and mtime equality: %s' % sorted(extra), where)
    # Lean mirror (informational)
    p = os.path.join(extract.REPO, 'lean', 'IncrementalSync.lean')
    try:
        txt = open(p).read()
        m = re.search(r'def needsTransfer[^\n]*\n((?:\s+.*\n)+)', txt)
        ctx.note('Lean mirror needsTransfer: %s' % (' '.join(m.group(1).split()) if m else 'not found'))
    except OSError:
        ctx.note('cross-check unavailable: lean/IncrementalSync.lean')


# ---------------------------------------------------------------- is_excluded
ABS_SOURCES = ('std::fs::DirEntry::path', 'std::path::Path::join', 'std::fs::canonicalize', 'std::path::Path::canonicalize', 'std::env::current_dir',
               'tokio::fs::DirEntry::path')
REL_SOURCES = ('std::path::Path::strip_prefix',)


def excluded_callers(ctx, F, rid):
    """is_excluded matches slash-free patterns against EVERY component of the path it is given: it must be given paths
    relative to the synchronised root (the keys of the listings).  A caller that hands it an absolute path lets the location
    of the tree itself take part in the match (`--exclude backup` with a destination under /mnt/backup excludes everything)."""
    cg = callgraph_of(F)
    for b, bb, c in cg.call_sites(lambda c: c == 'plan::is_excluded'):
        if '::tests' in b.path or b.path.startswith('plan::is_excluded'):
            continue
        t = b.blocks[bb]['term']
        work = [(b, t['args'][0])]
        verdict, why, steps = None, '', 0
        seen = set()
        while work and steps < 60 and verdict is None:
            steps += 1
            body, op = work.pop()
            bfl = flow_of(body)
            for o in bfl.origins(op):
                k = (body.path, o.kind, str(o.key), o.bb, tuple(o.path))
                if k in seen or o.kind == 'comb':
                    continue
                seen.add(k)
                if o.kind == 'call' and o.key in ABS_SOURCES:
                    verdict, why = 'abs', '%s in %s' % (o.key.split('::')[-1], body.path.split('::{')[0])
                elif o.kind == 'call' and str(o.key) in ('std::path::Path::file_name', 'std::path::Path::file_stem', 'std::path::Path::extension'):
                    verdict, why = 'part', '%s in %s' % (str(o.key).split('::')[-1], body.path.split('::{')[0])
                elif o.kind == 'call' and o.key in REL_SOURCES:
                    continue
                elif o.kind == 'call' and (o.key == 'std::iter::Iterator::next' or str(o.key).split('::')[-1] in ('keys', 'into_keys')):
                    continue        # an element of a listing (keys of the metadata maps are relative by construction: C19.R4 / C14.R6)
                elif o.kind in ('param', 'upvar') and body.kind == 'closure' and o.kind == 'param' and o.key >= 2:
                    acts = closure_actuals(F, body, o.key - 1)
                    if acts is None:
                        # handed to an iterator adaptor (`dst.keys().filter(|p| ..)`): the argument is an element of what is iterated
                        pb = F.body(body.parent) if body.parent else None
                        its = []
                        if pb is not None:
                            pfl_ = flow_of(pb)
                            for bb2, t2 in pfl_.calls(lambda c: c.startswith('std::iter::Iterator::')):
                                if any(x.kind == 'agg' and x.key == body.path for a2 in t2['args'][1:] if a2['k'] != 'const' for x in pfl_.origins(a2)):
                                    its.append((pb, t2['args'][0]))
                        if its:
                            work.extend(its)
                        else:
                            verdict, why = 'unknown', 'closure parameter of %s' % body.path
                    else:
                        work.extend(acts)
                elif o.kind == 'upvar' and body.parent and o.key is not None:
                    pb = F.body(body.parent)
                    for blk in pb.blocks:
                        for st in blk['stmts']:
                            rv = st['rv']
                            if rv['k'] == 'agg' and rv.get('ak') in ('closure', 'coroutine') and norm(rv.get('def')) == body.path and int(o.key) < len(rv['ops']):
                                work.append((pb, rv['ops'][int(o.key)]))
                elif o.kind == 'param':
                    top = F.body(body.path.split('::{')[0])
                    if top is not None and top.path in ('plan::build_plan',):
                        continue
                    verdict, why = 'unknown', 'parameter %s of %s' % (o.key, body.path)
                elif o.kind == 'call' and o.bb is not None:
                    for a in body.blocks[o.bb]['term']['args'][:1]:
                        if a['k'] != 'const':
                            work.append((body, a))
        key = 'is_excluded:called-with-relative-path:%s' % b.path.split('::{')[0].split('::')[-1]
        if verdict == 'abs':
            ctx.bad(rid, key, 'is_excluded is given a path that is not relative to the synchronised root (%s): the directories the tree itself lives in take part in the '
                    'exclude match, so a pattern that matches the destination\'s own location empties its listing and the whole unchanged tree is sent again' % why, term_loc(b, bb))
        elif verdict == 'part':
            ctx.bad(rid, 'is_excluded:called-with-part-of-the-path:%s' % b.path.split('::{')[0].split('::')[-1],
                    'is_excluded is asked about a part of the path only (%s): a pattern with a slash is matched against the whole relative path and a slash-free one against '
                    'every component - given just the name, neither can see the directories, so a path those patterns exclude is transferred (and deleted under --delete)' % why, term_loc(b, bb))
        elif verdict == 'unknown':
            ctx.undecided(rid, 'is_excluded call in %s: where its path comes from is not followed (%s)' % (b.path, why))
        else:
            ctx.ok(rid, key, 'path argument is an element of a listing / a stripped path', term_loc(b, bb))


def excluded_rules(ctx, F, rid):
    ctx.rule(rid, 'is_excluded dispatch / glob_match metacharacter precedence', floor=4)
    b = F.body('plan::is_excluded')
    if b is None:
        ctx.missing(rid, 'plan::is_excluded')
    fl = flow_of(b)
    cfg = fl.cfg
    rel_i, exc_i = 1, 2
    excluded_callers(ctx, F, rid)
    globs = fl.calls_to('plan::glob_match')
    # "the pattern contains a slash": str::contains('/'), or str::find('/') examined with is_some / is_none
    c_true, c_false = set(), set()
    n_slash = 0
    is_slash = lambda op_: any(o.kind == 'const' and o.key == ord('/') for o in fl.origins(op_))
    for cb, ct in fl.calls(lambda c: c.endswith('str>::contains')):
        if is_slash(ct['args'][1]):
            n_slash += 1
            c_true |= fl.outcomes(cb).get('true', set())
            c_false |= fl.outcomes(cb).get('false', set())
    for cb, ct in fl.calls(lambda c: c.endswith('str>::find') or c.endswith('str>::rfind')):
        if is_slash(ct['args'][1]):
            n_slash += 1
            oc_ = fl.outcomes(cb)
            c_true |= oc_.get('Some', set())
            c_false |= oc_.get('None', set())
            for ib, it in fl.calls(lambda c: c.startswith('std::option::Option::<') and c.split('::')[-1] in ('is_some', 'is_none')):
                if any(o.kind == 'call' and o.bb == cb for o in fl.origins(it['args'][0])):
                    some = callee(it).endswith('is_some')
                    c_true |= fl.outcomes(ib).get('true' if some else 'false', set())
                    c_false |= fl.outcomes(ib).get('false' if some else 'true', set())
    empties = fl.calls(lambda c: c.endswith('str>::is_empty'))
    trims = [(tb, tt) for tb, tt in fl.calls(lambda c: 'trim_end_matches' in c) if any(o.kind == 'const' and o.key == ord('/') for o in fl.origins(tt['args'][1]))]
    # the per-component match may live in the predicate closure of components(rel).any(..)
    comp_closure = None
    for qb, qt in fl.calls(lambda c: c == 'std::iter::Iterator::any'):
        if any(o.kind == 'call' and o.key == 'std::path::Path::components' and
               all(y.kind == 'param' and y.key == rel_i for y in call_arg_origins(fl, o.bb, 0)) for o in fl.origins(qt['args'][0])):
            for o in fl.origins(qt['args'][1]):
                cb_ = F.body(o.key) if o.kind == 'agg' else None
                if cb_ is not None and flow_of(cb_).calls_to('plan::glob_match'):
                    comp_closure = (qb, qt, cb_)
    if not (len(globs) == 2 or (len(globs) == 1 and comp_closure is not None)) or n_slash != 1:
        ctx.missing(rid, 'is_excluded: two glob_match calls, contains(\'/\'), is_empty, trim_end_matches(\'/\') (found %d/%d/%d/%d)' % (len(globs), n_slash, len(empties), len(trims)))
    # (an empty pattern is slash-free and matches no Normal component, so skipping it is an optimisation: when the code
    # tests for it, the matches must sit behind that test; when it does not, nothing is lost)
    e_false = set()
    for eb, et in empties:
        e_false |= fl.outcomes(eb).get('false', set())

    class _G:
        @staticmethod
        def edges_guard(edges, blk):
            return True if (not empties and edges is e_false) else cfg.edges_guard(edges, blk)
    trues = [bi for bi in cfg.reachable() for st in b.blocks[bi]['stmts']
             if st['dst']['l'] == 0 and st['rv']['k'] == 'use' and st['rv']['ops'][0]['k'] == 'const' and st['rv']['ops'][0].get('v') == 1]
    kinds = set()
    for gb, gt in globs:
        for o in fl.origins(gt['args'][0]):
            if o.kind == 'call' and o.key == 'std::iter::Iterator::next':
                coll = [x for x in iterated_collection(fl, o.bb) if x.kind != 'comb']
                stored = lambda x: x.kind == 'agg' or (x.kind == 'call' and str(x.key).split('::')[-1] in ('new', 'with_capacity', 'collect', 'from_iter', 'default', 'to_vec'))
                if coll and not any(x.kind == 'param' for x in coll) and all(stored(x) for x in coll):
                    # the patterns were prepared ahead of the matching loop (trimmed / classified into a local collection): which
                    # matcher a pattern gets is then in the data, not in the control flow these rules read
                    ctx.undecided(rid, 'is_excluded matches patterns taken from a collection it prepared beforehand: the whole-path / per-component dispatch is not decided')
                    return
    for gb, gt in globs:
        po = fl.origins(gt['args'][0])
        to = fl.origins(gt['args'][1])
        pat_ok = bool(po) and all(o.kind == 'call' and 'trim_end_matches' in o.key for o in po)
        # the trimmed string is the loop's pattern from `excludes`
        if pat_ok:
            for o in po:
                src = call_arg_origins(fl, o.bb, 0)
                pat_ok = pat_ok and any(x.kind == 'call' and x.key == 'std::iter::Iterator::next' for x in src)
        whole = bool(to) and all(o.kind == 'param' and o.key == rel_i for o in to)
        comp = bool(to) and all(o.kind == 'call' and o.key == 'std::iter::Iterator::next' for o in to)
        if whole:
            kinds.add('whole')
            ok = pat_ok and cfg.edges_guard(c_true, gb) and _G.edges_guard(e_false, gb)
            ctx.check(ok, rid, 'is_excluded:whole-path', 'glob_match(trimmed pat, whole rel) only if pat contains \'/\' and is non-empty',
                      'whole-path matching is not confined to non-empty patterns containing a slash', term_loc(b, gb))
        elif comp:
            kinds.add('component')
            # Normal components only
            normal = False
            for bi in cfg.reachable():
                for st in b.blocks[bi]['stmts']:
                    rv = st['rv']
                    if rv['k'] == 'discr' and 'Component' in b.local_ty(rv['p']['l']) and not rv['p']['proj']:
                        t = b.blocks[bi]['term']
                        if t['k'] == 'switch':
                            e = {(bi, tgt, v) for v, tgt in t['targets'] if v == 4}
                            if e and cfg.edges_guard(e, gb):
                                normal = True
            it_ok = False
            for o in to:
                io = call_arg_origins(fl, o.bb, 0)
                if any(x.kind == 'call' and x.key == 'std::path::Path::components' for x in io):
                    for x in io:
                        if x.kind == 'call' and x.key == 'std::path::Path::components':
                            it_ok = all(y.kind == 'param' and y.key == rel_i for y in call_arg_origins(fl, x.bb, 0))
            if not it_ok:
                # the components were decoded once into a local collection and the pattern is matched against its elements:
                # the same obligations on the loop that fills the collection (every Normal component of rel, nothing else)
                for o in to:
                    coll = {(x.kind, str(x.key), x.bb) for x in iterated_collection(fl, o.bb) if x.kind == 'call'}
                    for pb_, pt_ in fl.calls(lambda c: c.endswith('Vec::<T, A>::push') or c.endswith('Vec::<T>::push')):
                        if not ({(x.kind, str(x.key), x.bb) for x in fl.origins(pt_['args'][0]) if x.kind == 'call'} & coll):
                            continue
                        vo = fl.origins(pt_['args'][1])
                        src_ok = False
                        for v in vo:
                            if v.kind == 'call' and v.key == 'std::iter::Iterator::next':
                                io = call_arg_origins(fl, v.bb, 0)
                                for x in io:
                                    if x.kind == 'call' and x.key == 'std::path::Path::components':
                                        src_ok = all(y.kind == 'param' and y.key == rel_i for y in call_arg_origins(fl, x.bb, 0))
                        nrm = False
                        for bi in cfg.reachable():
                            for st in b.blocks[bi]['stmts']:
                                rv = st['rv']
                                if rv['k'] == 'discr' and 'Component' in b.local_ty(rv['p']['l']) and not rv['p']['proj']:
                                    t_ = b.blocks[bi]['term']
                                    if t_['k'] == 'switch':
                                        e_ = {(bi, tgt, v_) for v_, tgt in t_['targets'] if v_ == 4}
                                        if e_ and cfg.edges_guard(e_, pb_):
                                            nrm = True
                        if src_ok and nrm:
                            it_ok, normal = True, True
            ok = pat_ok and normal and it_ok and cfg.edges_guard(c_false, gb) and _G.edges_guard(e_false, gb)
            ctx.check(ok, rid, 'is_excluded:per-component', 'glob_match(trimmed pat, each Normal component of rel) only if pat has no \'/\' and is non-empty',
                      'per-component matching is not over every Normal component for non-empty slash-free patterns (normal=%s, components(rel)=%s)' % (normal, it_ok), term_loc(b, gb))
        else:
            ctx.bad(rid, 'is_excluded:glob-operand', 'glob_match is applied to something else than the whole path or a path component', term_loc(b, gb))
    if comp_closure is not None and 'component' not in kinds:
        qb, qt, cb_ = comp_closure
        kinds.add('component')
        cfl = flow_of(cb_)
        gb2, gt2 = cfl.calls_to('plan::glob_match')[0]
        # Normal components only: inside the closure the glob call is behind the Normal (4) edge of the component's discriminant
        normal = False
        for bi in cfl.cfg.reachable():
            for st in cb_.blocks[bi]['stmts']:
                rv = st['rv']
                if rv['k'] == 'discr' and 'Component' in cb_.local_ty(rv['p']['l']):
                    t = cb_.blocks[bi]['term']
                    if t['k'] == 'switch':
                        e = {(bi, tgt, v) for v, tgt in t['targets'] if v == 4}
                        if e and cfl.cfg.edges_guard(e, gb2):
                            normal = True
        # other components make the predicate false; the closure's value is the glob result
        ro = [o for o in cfl.origins(0) if o.kind != 'comb']
        val_ok = any(o.kind == 'call' and o.key == 'plan::glob_match' for o in ro) and all(
            (o.kind == 'call' and o.key == 'plan::glob_match') or (o.kind == 'const' and o.key in (0, False)) for o in ro)
        # the captured pattern is the trimmed loop pattern
        pat_ok = False
        for o in cfl.origins(gt2['args'][0]):
            if o.kind == 'upvar' and o.key is not None:
                for blk in b.blocks:
                    for st in blk['stmts']:
                        rv = st['rv']
                        if rv['k'] == 'agg' and rv.get('ak') == 'closure' and norm(rv['def']) == cb_.path and int(o.key) < len(rv['ops']):
                            po = fl.origins(rv['ops'][int(o.key)])
                            pat_ok = bool(po) and all(x.kind == 'call' and 'trim_end_matches' in x.key for x in po if x.kind != 'comb')
        ok = pat_ok and normal and val_ok and cfg.edges_guard(c_false, qb) and _G.edges_guard(e_false, qb)
        ctx.check(ok, rid, 'is_excluded:per-component', 'components(rel).any(|c| Normal(c) && glob_match(trimmed pat, c)) only if pat has no \'/\' and is non-empty',
                  'per-component matching is not over every Normal component for non-empty slash-free patterns (normal=%s, value=%s, pattern=%s)' % (normal, val_ok, pat_ok), term_loc(b, qb))
        globs = globs + [(qb, qt)]       # for the "true only on a hit" / "hit returns true" rules the any() call stands for the match
    hit_edges = set()
    for gb, _ in globs:
        hit_edges |= fl.outcomes(gb).get('true', set())
    for tb_ in trues:
        g = bool(hit_edges) and cfg.edges_guard(hit_edges, tb_)
        ctx.check(g, rid, 'is_excluded:true-only-on-match', 'returns true only on a glob_match hit', 'is_excluded can return true without a pattern match', loc(b, b.lo))
    # false only after all patterns were tried; a match returns true immediately
    outer = None
    for nb, nt in fl.calls_to('std::iter::Iterator::next'):
        src_ = [o for o in (fl.origins(nt['args'][0]) if all(o.kind == 'param' for o in fl.origins(nt['args'][0])) else iterated_collection(fl, nb)) if o.kind != 'comb']
        if src_ and all(o.kind == 'param' and o.key == exc_i for o in src_):
            outer = nb
    falses = [bi for bi in cfg.reachable() for st in b.blocks[bi]['stmts']
              if st['dst']['l'] == 0 and st['rv']['k'] == 'use' and st['rv']['ops'][0]['k'] == 'const' and st['rv']['ops'][0].get('v') == 0]
    ok = outer is not None and bool(falses) and all(fl.guarded_by(fb, outer, 'None') for fb in falses)
    hit_returns = True
    for gb, gt in globs:
        for (s, t, lab) in fl.outcomes(gb).get('true', ()):
            r = cfg.reach(t)
            if r & set(cfg.loops().keys()) or r & set(falses):
                hit_returns = False
    ctx.check(ok and hit_returns and kinds == {'whole', 'component'}, rid, 'is_excluded:all-patterns', 'false only after every pattern was tried; a hit returns true',
              'is_excluded does not try every exclude pattern / a match does not lead to true', loc(b, b.lo))


# ---------------------------------------------------------------- glob_match
def glob_rules(ctx, F, rid, key_prefix='glob_match'):
    b = F.body('plan::glob_match')
    if b is None:
        ctx.missing(rid, 'plan::glob_match')
    fl = flow_of(b)
    cfg = fl.cfg
    # `?` stands for exactly one CHARACTER and `*` for a run of characters: a matcher that walks the UTF-8 bytes of the text
    # lets `?` consume one byte of a multi-byte character (`caf?.txt` no longer matches `café.txt`) - unless it steps by
    # character boundaries, which is outside this model
    bytewise = [(bb, t) for bb, t in fl.calls(lambda c: c.endswith('str>::as_bytes') or c.endswith('str>::bytes') or c.endswith('::as_encoded_bytes'))
                if any(o.kind == 'param' and o.key == 2 for o in fl.origins(t['args'][0]))]
    boundary = fl.calls(lambda c: 'is_char_boundary' in c or 'utf8_char_width' in c or c.endswith('::len_utf8') or c.endswith('char_indices'))
    if bytewise and not boundary:
        ctx.bad(rid, '%s:character-wise' % key_prefix, 'glob_match walks the bytes of the text, so `?` matches one byte instead of one character: a pattern with `?` does not '
                'match a name whose character at that position is not ASCII (an excluded file is transferred, or deleted under --delete)', term_loc(b, bytewise[0][0]))
        return
    if bytewise:
        ctx.undecided(rid, 'glob_match walks bytes with its own character-boundary handling')
        return

    def side(os_):
        """'pat' / 'text' / None for an element read out of the pattern / text character vector."""
        s = set()
        for o in os_:
            if o.kind == 'call' and o.key == 'std::ops::Index::index':
                base = call_arg_origins(fl, o.bb, 0)
                for x in base:
                    if x.kind == 'call' and x.key in ('std::iter::Iterator::collect', 'std::iter::FromIterator::from_iter'):
                        for y in call_arg_origins(fl, x.bb, 0):
                            if y.kind == 'call' and y.key.endswith('::chars'):
                                for z in call_arg_origins(fl, y.bb, 0):
                                    if z.kind == 'param':
                                        s.add('pat' if z.key == 1 else 'text')
            elif o.kind == 'const':
                s.add(('const', o.key))
            else:
                s.add('?')
        return s
    meta = {}     # char -> set of (bb, local) tests  `pat_elem == const`
    lits = []     # (bb, local) tests `pat_elem == text_elem`
    for bi in cfg.reachable():
        for st in b.blocks[bi]['stmts']:
            rv = st['rv']
            if rv['k'] == 'bin' and rv['op'] in ('Eq', 'Ne'):
                sa, sb_ = side(fl.origins(rv['ops'][0])), side(fl.origins(rv['ops'][1]))
                if sa == {'pat'} and len(sb_) == 1 and isinstance(list(sb_)[0], tuple):
                    meta.setdefault(list(sb_)[0][1], []).append((bi, st['dst']['l'], rv['op']))
                elif sb_ == {'pat'} and len(sa) == 1 and isinstance(list(sa)[0], tuple):
                    meta.setdefault(list(sa)[0][1], []).append((bi, st['dst']['l'], rv['op']))
                elif {frozenset(sa), frozenset(sb_)} == {frozenset({'pat'}), frozenset({'text'})}:
                    lits.append((bi, st['dst']['l'], rv['op']))
    if not lits or ord('*') not in meta or ord('?') not in meta:
        ctx.missing(rid, 'glob_match: literal comparison and the `*` / `?` tests (found lits=%d, meta=%s)' % (len(lits), sorted(meta)))
    for (lb, ll, lop) in lits:
        for ch in (ord('?'), ord('*')):
            ne_edges = set()
            for (mb, ml, mop) in meta[ch]:
                oc = fl.outcomes(None, ml)
                ne_edges_m = oc.get('false' if mop == 'Eq' else 'true', set())
                if ne_edges_m and fl.edges_guard_correlated(ne_edges_m, lb):
                    ne_edges |= ne_edges_m
            ctx.check(bool(ne_edges), rid, '%s:literal-after-%s' % (key_prefix, 'star' if ch == ord('*') else 'qmark'),
                      'the literal comparison is reached only when the pattern character is not %r' % chr(ch),
                      'glob_match compares a pattern character literally with the text before testing whether it is the metacharacter %r: '
                      'a text containing %r consumes the pattern\'s %r literally (e.g. pattern "*a" does not match text "*ba")' % (chr(ch), chr(ch), chr(ch)),
                      loc(b, b.lo))
    # data independence: characters flow only into ==
    leaks = []
    for ib, it in fl.calls_to('std::ops::Index::index'):
        l = it['dst']['l']
        for (ubb, uidx, role) in fl._transitive_uses(l):
            if uidx == 'term':
                t = b.blocks[ubb]['term']
                if t['k'] == 'call' and role.startswith('arg'):
                    leaks.append((ubb, callee(t)))
            else:
                st = b.blocks[ubb]['stmts'][uidx]
                if st['rv']['k'] == 'bin' and st['rv']['op'] not in ('Eq', 'Ne'):
                    leaks.append((ubb, st['rv']['op']))
                if st['rv']['k'] == 'cast':
                    leaks.append((ubb, 'cast'))
    ctx.check(not leaks, rid, '%s:chars-only-compared' % key_prefix, 'pattern/text characters flow only into ==',
              'glob_match uses characters other than through equality tests (%s)' % leaks[:3], loc(b, b.lo))
    glob_overlap_rule(ctx, F, rid, key_prefix)
    glob_step_rules(ctx, F, rid, key_prefix)


# ---------------------------------------------------------------- glob_match as a transition system
def glob_step_rules(ctx, F, rid, key_prefix='glob_match'):
    """The matcher is cut at its loop heads (stepfn.py) and every transition is compared, for every valuation of the six
    atoms {ti<len(t), pi<len(p), p[pi]=='*', p[pi]=='?', p[pi]==t[ti], star.is_some()}, with the classic single-star
    backtracking matcher: same successor node, same new (pi, ti, star, mark), same returned value.  This decides that the
    *step function* is the documented one; it is not a proof that the classic algorithm equals the declarative wildcard
    semantics (textbook).  A path the model does not cover (an early return before the loops, an unknown guard) is
    `undecided`, not a violation."""
    import stepfn
    from stepfn import SymExec, Unmodelled, subst, add, show
    b = F.body('plan::glob_match')
    if b is None:
        ctx.missing(rid, 'plan::glob_match')
    heads = sorted(bi for bi, blk in enumerate(b.blocks) if blk['term'].get('loop_head'))
    K = key_prefix + ':step'
    where = loc(b, b.lo)
    try:
        ex = SymExec(b, heads)
        entry = ex.paths_from(0)
        to_loop = [p for p in entry if p.target != 'return']
        early = [p for p in entry if p.target == 'return']
        if len(heads) != 2 or len(to_loop) != 1 or to_loop[0].guards:
            ctx.undecided(rid, 'glob_match is not the modelled shape (entry -> scan loop -> trailing-star loop): %d loop(s), %d entry path(s) into a loop' % (len(heads), len(to_loop)))
            return
        e0 = to_loop[0]
        H1 = e0.target
        H2 = [h for h in heads if h != H1][0]
        PAT, TXT = ('v', 'p'), ('v', 't')

        def seq_of(t):
            if t[0] == 'call' and t[1] in ('std::iter::Iterator::collect', 'std::iter::FromIterator::from_iter') and t[2] and t[2][0][0] == 'call' and t[2][0][1].endswith('::chars'):
                src = t[2][0][2][0]
                if src == ('v', 1):
                    return PAT
                if src == ('v', 2):
                    return TXT
            return None
        m0 = {l: seq_of(v) for l, v in e0.env.items() if isinstance(v, tuple) and seq_of(v) is not None}
        if sorted(m0.values()) != [PAT, TXT]:
            ctx.undecided(rid, 'glob_match: pattern / text are not collected into character vectors as modelled')
            return
        paths = {h: ex.paths_from(h) for h in heads}
        # roles of the loop-carried user variables
        state = sorted({l for h in heads for p in paths[h] for l in p.env if b.local_name(l) and l in e0.env})
        pi = ti = None

        def walk(t, f):
            if isinstance(t, tuple):
                f(t)
                for x in t:
                    walk(x, f)
        found = {}

        def see(t):
            if t[0] == 'idx' and t[2][0] == 'v':
                base = subst(t[1], m0)
                if base == PAT:
                    found['pi'] = t[2][1]
                if base == TXT:
                    found['ti'] = t[2][1]
        for h in heads:
            for p in paths[h]:
                for g, _ in p.guards:
                    walk(g, see)
        pi, ti = found.get('pi'), found.get('ti')
        opt = [l for l in state if b.local_ty(l).startswith('std::option::Option<')]
        rest = [l for l in state if l not in (pi, ti) and l not in opt]
        if pi is None or ti is None or len(opt) != 1 or len(rest) != 1:
            ctx.undecided(rid, 'glob_match: cannot assign the roles pattern cursor / text cursor / star / mark to the loop variables %s' % [b.local_name(l) for l in state])
            return
        star, mark = opt[0], rest[0]
        ren = dict(m0)
        ren.update({pi: ('v', 'pi'), ti: ('v', 'ti'), star: ('v', 'star'), mark: ('v', 'mark')})
        vpi, vti, vstar, vmark = ('v', 'pi'), ('v', 'ti'), ('v', 'star'), ('v', 'mark')
        # initial state
        init = {k: subst(e0.env.get(l, ('v', l)), m0) for k, l in (('pi', pi), ('ti', ti), ('star', star))}
        ctx.check(init == {'pi': ('c', 0), 'ti': ('c', 0), 'star': ('none',)}, rid, K + ':initial-state', 'pi = 0, ti = 0, star = None',
                  'glob_match does not start at pattern 0 / text 0 / no star seen (%s)' % {k: show(v) for k, v in init.items()}, where)

        ATOMS = {
            'L': ('cmp', 'Lt', vti, ('len', TXT)),
            'P': ('cmp', 'Lt', vpi, ('len', PAT)),
            'S': ('cmp', 'Eq', ('idx', PAT, vpi), ('c', 42)),
            'Q': ('cmp', 'Eq', ('idx', PAT, vpi), ('c', 63)),
            'E': ('cmp', 'Eq', ('idx', PAT, vpi), ('idx', TXT, vti)),
        }

        def atom_value(t, val):
            """(known, 0/1) of a boolean-valued term under the valuation."""
            if t[0] == 'cmp':
                op, x, y = t[1], t[2], t[3]
                neg = False
                if op in ('Ge', 'Gt'):
                    # a >= b == !(a < b);  a > b == b < a
                    if op == 'Ge':
                        op, neg = 'Lt', True
                    else:
                        op, x, y = 'Lt', y, x
                elif op == 'Le':
                    op, x, y, neg = 'Lt', y, x, True
                elif op == 'Ne':
                    op, neg = 'Eq', True
                for name, a in ATOMS.items():
                    if a[1] == op and ((a[2], a[3]) == (x, y) or (op == 'Eq' and (a[2], a[3]) == (y, x))):
                        return True, val[name] ^ neg
                return False, None
            if t[0] == 'is_some' and t[1] == vstar:
                return True, val['O']
            return False, None

        def guard_holds(g, val):
            t, test = subst(g[0], ren), g[1]
            if t[0] == 'discr' and t[1] == vstar:
                v = 1 if val['O'] else 0
            else:
                known, v = atom_value(t, val)
                if not known:
                    raise Unmodelled('branch on %s' % show(t))
                v = int(v)
            return (v == test[1]) if test[0] == 'eq' else (v not in test[1])

        ARITH = ('max', 'min', 'saturating_add', 'saturating_sub', 'wrapping_add', 'wrapping_sub', 'checked_add', 'checked_sub', '+', '-')

        def simp(t, val):
            """resolve Option combinators under the valuation; an unknown (non-arithmetic) call makes the case undecided"""
            if not isinstance(t, tuple) or not t:
                return t
            if t[0] == 'call':
                last = str(t[1]).split('::')[-1]
                args = tuple(simp(x, val) for x in t[2])
                if last in ('unwrap_or', 'unwrap_or_default', 'unwrap_or_else') and args and args[0] == vstar:
                    if val['O']:
                        return ('payload', vstar)
                    return args[1] if last == 'unwrap_or' and len(args) > 1 else ('call', t[1], args)
                if last not in ARITH:
                    raise Unmodelled('value computed by %s' % t[1])
                return ('call', t[1], args)
            if t[0] == 'off':
                return add(simp(t[1], val), t[2])
            return tuple(simp(x, val) if isinstance(x, tuple) else x for x in t)

        def code_outcome(h, val):
            hits = [p for p in paths[h] if all(guard_holds(g, val) for g in p.guards)]
            if not hits:
                raise Unmodelled('no path for a valuation')
            outs = set()
            for p in hits:
                st = tuple(simp(subst(p.env.get(l, ('v', l)), ren), val) for l in (pi, ti, star, mark))
                ret = simp(subst(p.ret, ren), val) if p.ret is not None else None
                outs.add((p.target, st, ret))
            if len(outs) != 1:
                raise Unmodelled('paths disagree for one valuation')
            return list(outs)[0]

        def norm_ret(t):
            if t is not None and t[0] == 'cmp' and t[1] == 'Eq' and t[2] == ('len', PAT):
                return ('cmp', 'Eq', t[3], t[2])
            # pi never exceeds len(pat) (it is incremented only under pi < len(pat)): >= is the same test as ==
            if t is not None and t[0] == 'cmp' and (t[1], t[2], t[3]) == ('Ge', vpi, ('len', PAT)):
                return ('cmp', 'Eq', vpi, ('len', PAT))
            if t is not None and t[0] == 'cmp' and (t[1], t[2], t[3]) == ('Le', ('len', PAT), vpi):
                return ('cmp', 'Eq', vpi, ('len', PAT))
            return t

        def describe(val, names):
            txt = {'L': ('ti < len(text)', 'ti == len(text)'), 'P': ('pi < len(pat)', 'pi == len(pat)'), 'S': ("pat[pi] == '*'", "pat[pi] != '*'"),
                   'Q': ("pat[pi] == '?'", "pat[pi] != '?'"), 'E': ('pat[pi] == text[ti]', 'pat[pi] != text[ti]'), 'O': ('a star was seen', 'no star seen')}
            return ', '.join(txt[n][0 if val[n] else 1] for n in names)
        import itertools
        n_ok = 0
        reported = set()
        # ---- scan loop
        for bits in itertools.product((0, 1), repeat=6):
            val = dict(zip('LPSQEO', bits))
            if val['S'] and val['Q']:
                continue
            if not val['P'] and (val['S'] or val['Q'] or val['E']):
                continue        # p[pi] does not exist: one representative is enough
            if not val['L'] and (val['E'] or val['P'] or val['S'] or val['Q'] or val['O']):
                continue
            if not val['L']:
                want = (H2, (vpi, vti, vstar, vmark), None)
                case = 'text exhausted'
            elif val['P'] and val['S']:
                want = (H1, (add(vpi, 1), vti, ('some', vpi), vti), None)
                case = 'star'
            elif val['P'] and (val['Q'] or val['E']):
                want = (H1, (add(vpi, 1), add(vti, 1), vstar, vmark), None)
                case = 'one-character match'
            elif val['O']:
                want = (H1, (add(('payload', vstar), 1), add(vmark, 1), vstar, add(vmark, 1)), None)
                case = 'backtrack to the star'
            else:
                want = ('return', None, ('c', 0))
                case = 'mismatch without a star'
            got = code_outcome(H1, val)
            names = 'L' if not val['L'] else ('LPSQEO' if val['P'] else 'LPO')
            if want[0] == 'return':
                good = got[0] == 'return' and got[2] == want[2]
            elif want[0] == H2:
                good = got[0] == H2 and got[1][0] == vpi      # only the pattern cursor is read after the scan
            else:
                good = got[0] == want[0] and got[1] == want[1]
            if good:
                n_ok += 1
                continue
            if case in reported:
                continue
            reported.add(case)
            if got[0] == 'return':
                does = 'returns %s' % show(got[2])
            else:
                does = '%s with pi := %s, ti := %s, star := %s, mark := %s' % ('continues the scan' if got[0] == H1 else 'leaves the scan', *[show(x) for x in got[1]])
            if want[0] == 'return':
                should = 'return false'
            elif want[0] == H2:
                should = 'leave the scan with pi unchanged'
            else:
                should = 'continue with pi := %s, ti := %s, star := %s, mark := %s' % tuple(show(x) for x in want[1])
            ctx.bad(rid, '%s:scan:%s' % (K, case.replace(' ', '-')),
                    'glob_match, scan loop, case "%s" [%s]: the code %s; the wildcard matcher must %s' % (case, describe(val, names), does, should), where)
        # ---- trailing stars
        for bits in itertools.product((0, 1), repeat=2):
            val = dict(zip('PS', bits))
            val.update({'L': 0, 'Q': 0, 'E': 0, 'O': 0})
            if not val['P'] and val['S']:
                continue
            got = code_outcome(H2, val)
            if val['P'] and val['S']:
                good = got[0] == H2 and got[1][0] == add(vpi, 1)
                should = 'skip the trailing star (pi := pi+1)'
                case = 'trailing star'
            else:
                good = got[0] == 'return' and norm_ret(got[2]) == ('cmp', 'Eq', vpi, ('len', PAT))
                should = 'return pi == len(pat)'
                case = 'end of pattern test'
            if good:
                n_ok += 1
                continue
            does = 'returns %s' % show(got[2]) if got[0] == 'return' else 'continues with pi := %s' % show(got[1][0])
            ctx.bad(rid, '%s:tail:%s' % (K, case.replace(' ', '-')), 'glob_match, after the scan, case "%s" [%s]: the code %s; the wildcard matcher must %s' % (
                case, describe(val, 'PS' if val['P'] else 'P'), does, should), where)
        if n_ok:
            ctx.ok(rid, K + ':transitions', '%d (node, valuation) transitions equal the classic matcher' % n_ok, where)
        if early:
            ctx.undecided(rid, 'glob_match returns on %d path(s) before the matcher loops (a fast path the transition model does not cover)' % len(early))
    except Unmodelled as e:
        ctx.undecided(rid, 'glob_match: %s' % e)


def glob_overlap_rule(ctx, F, rid, key_prefix='glob_match'):
    """Bug pattern (decidable on its own): `text.starts_with(prefix) && text.ends_with(suffix)` with prefix/suffix the two
    halves of the pattern split at `*` accepts texts in which prefix and suffix overlap ("a*a" vs "a") unless the text is
    known to be at least len(prefix)+len(suffix) long."""
    for body in F.nested('plan::glob_match'):
        fl = flow_of(body)
        cfg = fl.cfg
        sw = fl.calls(lambda c: c.endswith('::starts_with'))
        ew = fl.calls(lambda c: c.endswith('::ends_with'))
        for sb, st in sw:
            for eb, et in ew:
                so, eo = fl.origins(st['args'][1]), fl.origins(et['args'][1])
                split = lambda os_: {o.bb for o in os_ if o.kind == 'call' and 'split' in o.key.split('::')[-1]}
                same_text = {(o.kind, o.key) for o in fl.origins(st['args'][0])} == {(o.kind, o.key) for o in fl.origins(et['args'][0])}
                if not (split(so) & split(eo)) or not same_text:
                    continue
                # is there a length test on the text guarding the result?
                lens = [lb for lb, lt in fl.calls(lambda c: c.split('::')[-1] == 'len') if
                        {(o.kind, o.key) for o in fl.origins(lt['args'][0])} == {(o.kind, o.key) for o in fl.origins(st['args'][0])}]
                ctx.check(bool(lens), rid, '%s:prefix-suffix-overlap' % key_prefix, 'prefix/suffix test together with a length test of the text',
                          'glob_match decides a one-star pattern by text.starts_with(prefix) && text.ends_with(suffix) without requiring '
                          'len(text) >= len(prefix) + len(suffix): prefix and suffix may overlap in the text (pattern "a*a" matches "a", "lib/*/lib" matches "lib/lib")',
                          term_loc(body, sb))


# ---------------------------------------------------------------- remote listing writer/reader
def listing_rule(ctx, F, rid):
    ctx.rule(rid, 'remote listing: find -printf writer and parse_remote_meta_output reader agree', floor=6)
    w = None
    for f in F.formats:
        if f['file'].endswith('bin/copia/meta.rs') and any(isinstance(p, str) and '-printf' in p for p in f['pieces']):
            w = f
    if w is None:
        ctx.missing(rid, 'meta.rs: the `find … -printf` command template')
    text = ''.join(p if isinstance(p, str) else '\x00HOLE' for p in w['pieces'])
    m = re.search(r"-printf '([^']*)'", text)
    where = '%s:%d' % (w['file'], w['line'])
    if not m:
        ctx.bad(rid, 'listing:printf', 'the -printf format is not a single-quoted literal', where)
        return
    fmt = m.group(1)
    # writer table
    parts = re.split(r'(\\t|\\0|\\n)', fmt)
    fields = [p for p in parts[0::2]]
    seps = [p for p in parts[1::2]]
    ctx.check(fields[:3] == ['%s', '%T@', '%p'] and seps[:3] == ['\\t', '\\t', '\\0'] and ''.join(fields[3:]) == '', rid, 'listing:writer-format',
              'size TAB mtime TAB path NUL', 'the listing format is %r, expected %%s\\t%%T@\\t%%p\\0' % fmt, where)
    ctx.check(bool(re.search(r'find \. ', text)) and '-type f' in text, rid, 'listing:start-point', 'find . -type f (paths printed as ./rel)',
              'the listing does not start at `.` / is not restricted to regular files', where)
    # reader
    top = F.body('meta::parse_remote_meta_output')
    if top is None:
        ctx.missing(rid, 'meta::parse_remote_meta_output')
    b = record_parser_body(F)
    if b is None:
        ctx.missing(rid, 'the body that parses one listing record (parse::<u64> of the size field) under meta::parse_remote_meta_output')
    fl = flow_of(b)
    tfl = flow_of(top)
    # record separator 0 in the split closure
    rec0 = False
    for cb in F.nested('meta::parse_remote_meta_output'):
        if cb.kind == 'closure':
            cfl = flow_of(cb)
            for bi in cfl.cfg.reachable():
                for st in cb.blocks[bi]['stmts']:
                    rv = st['rv']
                    if rv['k'] == 'bin' and rv['op'] == 'Eq' and any(o['k'] == 'const' and o.get('v') == 0 for o in rv['ops']):
                        rec0 = True
    splitn = [(sb, st) for sb, st in fl.calls(lambda c: c.endswith('::splitn'))]
    sp_ok = False
    sp_bad = None
    for sb, st in splitn:
        n = fl.origins(st['args'][1])
        sep = fl.origins(st['args'][2])
        if any(o.kind == 'const' and o.key == ord('\t') for o in sep):
            if any(o.kind == 'const' and o.key == 3 for o in n):
                sp_ok = True
            elif n and all(o.kind == 'const' for o in n):
                sp_bad = 'splitn(%s, TAB)' % sorted(o.key for o in n)
    for sb, st in fl.calls(lambda c: c.split('::')[-1] in ('split', 'rsplit', 'split_terminator', 'rsplitn', 'split_inclusive') and 'str' in c):
        if len(st['args']) >= 2 and any(o.kind == 'const' and o.key == ord('\t') for o in fl.origins(st['args'][-1])):
            sp_bad = '%s(TAB): every TAB cuts, also those inside a name' % st['func']['fn'].split('::')[-1]
    ctx.check(rec0, rid, 'listing:reader-record-sep', 'records split on NUL', 'the parser does not split records on NUL', loc(top, top.lo))
    if sp_ok and not sp_bad:
        ctx.ok(rid, 'listing:reader-field-sep', 'splitn(3, TAB): tabs inside names survive', loc(b, b.lo))
    elif sp_bad or b is top:
        ctx.bad(rid, 'listing:reader-field-sep', 'the parser does not split exactly 3 TAB-separated fields (names containing tabs would break)%s' % (': ' + sp_bad if sp_bad else ''), loc(b, b.lo))
    else:
        ctx.undecided(rid, '%s cuts a listing record into fields in a form that is not read (no splitn / split on TAB)' % b.path)
    # field order: first next() -> parse::<u64> (size), second -> mtime (split '.'), third -> path (strip_prefix "./")
    nx = sorted([nb for nb, nt in fl.calls_to('std::iter::Iterator::next')])
    parses = fl.calls(lambda c: c.endswith('::parse'))
    order_ok = False
    ranks_read = False
    size_p = [pb for pb, pt in parses if 'u64' in (pt['func'].get('fn_args') or '')]
    mt_p = [pb for pb, pt in parses if 'i64' in (pt['func'].get('fn_args') or '')]
    mt_nested = False
    for nbody in F.nested(b.path.split('::{')[0]):
        if nbody.kind == 'closure':
            for pb2, pt2 in flow_of(nbody).calls(lambda c: c.endswith('::parse')):
                if 'i64' in (pt2['func'].get('fn_args') or ''):
                    mt_nested = True
    strip = [(sb, st) for sb, st in fl.calls(lambda c: c.endswith('::strip_prefix')) if any(o.kind == 'const' and o.key == './' for o in fl.origins(st['args'][1]))]
    dot = [(sb, st) for sb, st in fl.calls(lambda c: c.endswith('::split')) if any(o.kind == 'const' and o.key == ord('.') for o in fl.origins(st['args'][1]))]
    dot_once = False
    if not dot:
        # the same cut written with split_once('.'): the text before the dot is the first half of its payload
        dot = [(sb, st) for sb, st in fl.calls(lambda c: c.endswith('::split_once')) if any(o.kind == 'const' and o.key == ord('.') for o in fl.origins(st['args'][1]))]
        dot_once = bool(dot)

    def slice_rank(op, depth=0):
        """the same rank read from a slice pattern `[size, mtime, path]` over the collected splitn pieces: the constant index of
        the element the operand was copied from (None: not of that form)"""
        if depth > 6 or op.get('k') not in ('copy', 'move'):
            return None
        pl = op['p']
        for pr in pl['proj']:
            if isinstance(pr, dict) and 'cidx' in pr:
                if pr.get('from_end') or pr.get('min') != 3:
                    return None
                base = {'k': 'copy', 'p': {'l': pl['l'], 'proj': []}}
                sn = {sb for sb, _ in splitn}
                via = [o for o in fl.origins(base) if o.kind == 'call']
                fed = False
                for o in via:
                    if o.bb in sn:
                        fed = True
                    elif o.bb is not None and str(o.key).endswith('::collect'):
                        fed = fed or any(x.kind == 'call' and x.bb in sn for x in call_arg_origins(fl, o.bb, 0))
                return pr['cidx'] if fed else None
        defs = [st for blk in b.blocks for st in blk['stmts'] if st['dst']['l'] == pl['l'] and not st['dst']['proj']]
        if len(defs) != 1:
            return None
        rv = defs[0]['rv']
        if rv['k'] == 'ref':
            return slice_rank({'k': 'copy', 'p': rv['p']}, depth + 1)
        if rv['k'] == 'use' and rv['ops']:
            return slice_rank(rv['ops'][0], depth + 1)
        return None

    def next_rank(op):
        """index (0,1,2) of the splitn next() the operand derives from"""
        ranks = set()
        sn = {sb for sb, _ in splitn}
        for o in fl.origins(op):
            if o.kind == 'call' and o.key == 'std::iter::Iterator::next':
                it = call_arg_origins(fl, o.bb, 0)
                if any(x.kind == 'call' and x.bb in sn for x in it):
                    firsts = [n for n in nx if any(x.kind == 'call' and x.bb in sn for x in call_arg_origins(fl, n, 0))]
                    ranks.add(firsts.index(o.bb) if o.bb in firsts else -1)
        return ranks
    if size_p and (mt_p or mt_nested) and strip and dot:
        def rank_of(op):
            r = next_rank(op)
            if not r:
                sr = slice_rank(op)
                r = {sr} if sr is not None else set()
            return r
        r_size = rank_of(b.blocks[size_p[0]]['term']['args'][0])
        r_dot = rank_of(dot[0][1]['args'][0])
        r_path = rank_of(strip[0][1]['args'][0])
        ranks_read = bool(r_size) and bool(r_dot) and bool(r_path)
        order_ok = r_size == {0} and r_dot == {1} and r_path == {2}
        # mtime parse input = first piece of split('.')
        # the parsed mtime text is the first piece of split('.')
        first_piece = False
        for nb2, nt2 in fl.calls_to('std::iter::Iterator::next'):
            if any(o.kind == 'call' and o.bb == dot[0][0] for o in fl.origins(nt2['args'][0])):
                first_piece = True
        if dot_once:
            for pb_ in mt_p:
                io = [o for o in fl.origins(b.blocks[pb_]['term']['args'][0]) if o.kind != 'comb']
                d0 = any(o.kind == 'call' and o.bb == dot[0][0] and tuple(o.path)[-1:] == ('0',) for o in io)
                d1 = any(o.kind == 'call' and o.bb == dot[0][0] and tuple(o.path)[-1:] == ('1',) for o in io)
                clo = False
                for o in io:
                    cb_ = F.body(o.key) if o.kind == 'agg' else None
                    if cb_ is not None:
                        ro = [x for x in flow_of(cb_).origins(0) if x.kind != 'comb']
                        clo = bool(ro) and all(x.kind == 'param' and tuple(x.path)[-1:] == ('0',) for x in ro)
                if any(o.kind == 'call' and o.bb == dot[0][0] for o in io) and (d0 or clo) and not d1:
                    first_piece = True
        order_ok = order_ok and first_piece
    if not order_ok and b is not top and size_p and (mt_p or mt_nested) and strip and dot and not ranks_read:
        ctx.undecided(rid, '%s hands the three fields of a record on in a form that is not read (neither successive next() of the splitn nor a slice pattern over its pieces)' % b.path)
    else:
        ctx.check(order_ok, rid, 'listing:reader-field-order', 'size (u64) | integer part of mtime (i64) | path with ./ stripped',
                  'the parser does not read size, whole-second mtime and path in the order the listing writes them', loc(b, b.lo))
    ins = fl.calls(lambda c: c.endswith('::insert')) or tfl.calls(lambda c: c.endswith('::insert'))
    if not ins and b is not top:
        # a record parser handed to filter_map / map, the pairs collected into the map
        fed = [(cb_, ct_) for cb_, ct_ in tfl.calls(lambda c: c.split('::')[-1] in ('filter_map', 'map', 'flat_map'))
               if any(a.get('k') == 'const' and a.get('fn') == b.path for a in ct_['args'])]
        coll = [(cb_, ct_) for cb_, ct_ in tfl.calls(lambda c: c.endswith('::collect')) if re.search(r'BTreeMap<std::path::PathBuf, (plan::)?FileMeta|MetaMap', ct_['func'].get('fn_args') or '')]
        ins = fed and coll
    ctx.check(bool(ins), rid, 'listing:reader-insert', 'entries inserted into the MetaMap', 'parsed entries are not inserted', loc(b, b.lo))


def record_parser_body(F):
    """the body that turns ONE listing record into (size, mtime, path): parse_remote_meta_output itself, or the crate function it
    calls / hands to an iterator adaptor for each record - the one with the parse::<u64> of the size field"""
    top = F.body('meta::parse_remote_meta_output')
    if top is None:
        return None
    has_size = lambda x: bool(flow_of(x).calls(lambda c: c.endswith('::parse') ))and any('u64' in (t_['func'].get('fn_args') or '') for _, t_ in flow_of(x).calls(lambda c: c.endswith('::parse')))
    if has_size(top):
        return top
    cands = []
    for xb in [top] + [n for n in F.nested('meta::parse_remote_meta_output') if n.kind == 'closure']:
        for bi, blk in enumerate(xb.blocks):
            t = blk['term']
            if t['k'] != 'call':
                continue
            names = [t['func'].get('fn')] + [a.get('fn') for a in t['args'] if a.get('k') == 'const' and a.get('fn')]
            for n in names:
                nb = F.body(n) if n else None
                if nb is not None and nb is not top and nb not in cands:
                    cands.append(nb)
    hits = [c for c in cands if has_size(c)]
    return hits[0] if len(hits) == 1 else None
