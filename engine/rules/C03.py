"""C03 — hub commits are a linearizable compare-and-swap (DESIGN §7 C03)."""
import re
from rules.common import *  # noqa: F401,F403
from rules.hub import Hub, SERVE, LOCK, SAFE_JOIN, TMP_OF, ROOT, SAFE, TAINT, OTHER
import dd
import tables

CONFIGS = ['cli']
LEVEL = 'other'
EXPLANATION = (
    'Decides the lock discipline linearizability rests on, not the linearization itself: (R1) with_commit_lock takes an exclusive flock on '
    '<root>/.copia/commit.lock, calls its closure exactly once under the Ok edge of lock_exclusive, and keeps the file open across the call; '
    '(R2) every mutation of a live (safe_join-derived, non-staging) hub path happens in a closure run under that lock; (R3) inside each held region '
    'the current hash is read there, compared by cas_decide with the client\'s untouched `expected`, the live mutation is on the Commit edge and the '
    'conflict rename on the Conflict edge; (R4) cas_decide is Commit iff current == expected (decision DAG, 2 leaves); (R5) committed:true / deleted:true / '
    'committed:false replies are built only under the Ok edge of the rename / remove they report; (R6) a staging file has a single owner; (R7) the client '
    'passes the listed hash as `expected`. R3 also: every value the current-hash helper returns is computed from the file - one taken out of a collection (a per-process memo) is reported. Not decided: the linearization (paper argument from R1-R6); flock semantics on the served file system (assumed). R5 also: a committed:false reply on the Conflict outcome that can be reached with the conflict-copy rename cut out is not decided - unless the test that lets it skip the rename reads the hash of exactly the live path, which is a violation (the live file is not a preserved copy).')
ASSUMPTIONS = ['flock(2) excludes across processes on the served file system', 'rename(2)/unlink(2) are atomic']

MUT = tables.FS_MUTATORS


def _drop_field_classes(F, hub, body, ops_):
    """path classes (hub.path_class at the construction site) of the struct field(s) a Drop impl removes / renames: None when an
    operand is not a plain field of `self`"""
    fl = flow_of(body)
    self_ty = re.sub(r"^&(mut )?", '', body.local_ty(1)).split('<')[0]
    fields = set()
    for op_ in ops_:
        os_ = [o for o in fl.origins(op_) if o.kind != 'comb']
        if not os_ or not all(o.kind == 'param' and o.key == 1 and len(o.path) == 1 for o in os_):
            return None
        fields |= {o.path[0] for o in os_}
    out = []
    for p_, bd in F.bodies.items():
        f2 = None
        for bi, blk in enumerate(bd.blocks):
            for st in blk['stmts']:
                rv = st['rv']
                if rv['k'] == 'agg' and rv.get('ak') == 'adt' and str(rv.get('adt')).split('<')[0] == self_ty:
                    f2 = f2 or flow_of(bd)
                    if bi not in f2.cfg.reachable():
                        continue
                    for f_ in fields:
                        if f_ in rv.get('fields', []):
                            out.append(hub.path_class(bd, rv['ops'][rv['fields'].index(f_)]) if bd.path in hub.graph else 'unknown')
    return out


def _fixed_leaf_names(F, body, op, depth=0):
    """the constant final components a path operand can have (`x.join("listing.json")`, also as the return value of a small crate
    helper); None when some origin is not of that form"""
    fl = flow_of(body)
    out = set()
    os_ = [o for o in fl.origins(op) if o.kind != 'comb']
    if not os_ or depth > 2:
        return None
    for o in os_:
        if o.kind == 'call' and o.key == 'std::path::Path::join' and o.bb is not None and not o.path:
            a1 = [x for x in call_arg_origins(fl, o.bb, 1) if x.kind != 'comb']
            if not a1 or not all(x.kind == 'const' and isinstance(x.key, str) and x.key and '/' not in x.key and x.key not in ('.', '..') for x in a1):
                return None
            out |= {x.key for x in a1}
        elif o.kind == 'call' and F.body(str(o.key)) is not None and o.bb is not None and not o.path:
            inner = _fixed_leaf_names(F, F.body(str(o.key)), 0, depth + 1)
            if inner is None:
                return None
            out |= inner
        else:
            return None
    return out


def run(ctx):
    F = ctx.F['cli']
    ctx.rule('C03.R1', 'with_commit_lock: exclusive lock on lockdir/commit.lock, closure called once under its Ok edge, file kept open; the lock path is never unlinked/renamed', floor=8)
    ctx.rule('C03.R2', 'every fs mutation of a live hub path is inside a held region', floor=2)
    ctx.rule('C03.R3', 'held region: current_hash read inside, cas_decide(current, client expected), mutation on the matching edge', floor=5)
    ctx.rule('C03.R4', 'cas_decide == Commit iff current == expected', floor=2)
    ctx.rule('C03.R5', 'success replies are built only under the Ok edge of the file operation they report', floor=3)
    ctx.rule('C03.R6', 'staging file has a single owner (unique name, create_new, or staged under the lock)', floor=1)
    ctx.rule('C03.R7', 'client: Put.expected is the hash listed for that path; hub.rs has no fs mutator and builds no Delete', floor=3)
    hub = Hub(ctx, F, 'C03.R2')
    ctx.attempt(r1, ctx, F, hub)
    ctx.attempt(r2, ctx, F, hub)
    ctx.attempt(r3_r5, ctx, F, hub)
    ctx.attempt(r4, ctx, F)
    ctx.attempt(staging_ownership, ctx, F, hub, 'C03.R6')
    ctx.attempt(r7, ctx, F)


def r1(ctx, F, hub):
    b = F.body(hub.lock_fn)
    if b is None:
        ctx.missing('C03.R1', LOCK)
    fl = flow_of(b)
    cfg = fl.cfg
    calls = fl.calls(lambda c: c in ('std::ops::FnOnce::call_once', 'std::ops::FnMut::call_mut', 'std::ops::Fn::call'))
    f_i = next((i for i in range(1, b.argc + 1) if 'FnOnce' in b.local_ty(i) or 'Fn' in b.local_ty(i)), None)
    once = len(calls) == 1 and f_i is not None and all(o.kind == 'param' and o.key == f_i for o in fl.origins(calls[0][1]['args'][0])) \
        and not any(calls[0][0] in blocks for blocks in cfg.loops().values())
    ctx.check(once, 'C03.R1', 'with_commit_lock:calls-f-once', 'exactly one call of the closure parameter, not in a loop',
              'with_commit_lock does not call its closure exactly once', loc(b, b.lo))
    if not calls:
        return
    cb = calls[0][0]
    locks = fl.calls(lambda c: c in ('fs2::FileExt::lock_exclusive', 'std::fs::File::lock'))
    good = False
    file_local = None
    for lb, lt in locks:
        ho = fl.origins(lt['args'][0])
        for o in ho:
            if o.kind == 'call' and o.key == 'std::fs::OpenOptions::open':
                po = call_arg_origins(fl, o.bb, 1)
                for x in po:
                    if x.kind == 'call' and x.key == 'std::path::Path::join':
                        a0 = call_arg_origins(fl, x.bb, 0)
                        a1 = call_arg_origins(fl, x.bb, 1)
                        if all(y.kind == 'param' and y.key == 1 for y in a0) and all(y.kind == 'const' and y.key == 'commit.lock' for y in a1):
                            if fl.guarded_by(cb, lb, 'Ok'):
                                good = True
                                file_local = lt['args'][0]
    ctx.check(good, 'C03.R1', 'with_commit_lock:lock-guards-f', 'lock_exclusive(lockdir/commit.lock) Ok edge guards the closure call',
              'the closure can run without holding the exclusive lock on lockdir/commit.lock (lock result ignored, shared lock, or other file)', term_loc(b, cb))
    # the lock is an flock on the inode behind lockdir/commit.lock, found by PATH by every server: nothing may unlink or
    # rename that path (or anything else that is not a request path / its staging file) - including Drop impls, which no
    # call edge reaches
    from rules.hub import ROOT, SAFE, TAINT, OTHER
    n_rm = 0
    for body in F.bodies_in_file('bin/copia/serve.rs'):
        bfl = flow_of(body)
        for rb_, rt_ in bfl.calls(lambda c: c in ('std::fs::remove_file', 'std::fs::remove_dir', 'std::fs::remove_dir_all', 'std::fs::rename')):
            n_rm += 1
            ops_ = rt_['args'][:2] if callee(rt_).endswith('rename') else rt_['args'][:1]
            labs = set()
            for op_ in ops_:
                if hub.path_class(body, op_) == 'staging':
                    continue        # a file this server created to stage content (under the control directory or next to the live path): not the lock
                labs |= hub.label_operand(body, op_)
            in_graph = body.path in hub.graph
            ok = in_graph and labs <= {SAFE} and (labs or all(hub.path_class(body, op_) == 'staging' for op_ in ops_))
            if not ok and in_graph and hub.optional_staging and labs <= {SAFE, OTHER} and body.path.split('::{')[0].endswith('handle_put'):
                # the staging name travels inside an Option field: its provenance is not followed through that field
                ctx.undecided('C03.R1', 'handle_put removes / renames a path it keeps in an Option (%s): that it is a request path or its staging file is not decided' % hub.optional_staging)
                continue
            if not ok and in_graph and callee(rt_).endswith('remove_dir') and labs and labs <= {SAFE, 'SIBLING'}:
                ok = True       # removing an (empty) directory above a request path never unlinks a file: the lock is a file in a non-empty directory
            if not ok and not in_graph and 'as std::ops::Drop>::drop' in body.path:
                # a guard's Drop removes the file it owns (`self.tmp`): what that field holds is decided where the guard is BUILT -
                # every construction of the struct in serve.rs must put a staging name there
                fv = _drop_field_classes(F, hub, body, ops_)
                if fv is not None:
                    if fv and all(c_ == 'staging' for c_ in fv):
                        ctx.ok('C03.R1', '%s:%s:own-staging-file' % (body.path.split('::{')[0].replace('serve::', '').replace(' ', '_'), callee(rt_).split('::')[-1]),
                               'the Drop impl removes the staging file its guard was built with (every construction stores a staging name)', term_loc(body, rb_))
                        continue
                    if not fv:
                        ctx.undecided('C03.R1', '%s removes a file named by a field whose constructions were not found' % body.path.split('::{')[0])
                        continue
            if not ok and in_graph and labs == {ROOT}:
                # a fixed name under the root / control directory that is positively not the lock's (an index file, a marker):
                # replacing it by rename never touches the lock inode
                rest = [op_ for op_ in ops_ if hub.path_class(body, op_) != 'staging']
                names = [_fixed_leaf_names(F, body, op_) for op_ in rest]
                if rest and all(n_ is not None and n_ and 'commit.lock' not in n_ for n_ in names):
                    ctx.ok('C03.R1', '%s:%s:fixed-name-not-the-lock' % (body.path.split('::{')[0].replace('serve::', '').replace(' ', '_'), callee(rt_).split('::')[-1]),
                           'renames/removes the fixed name(s) %s, not the lock file' % sorted(set().union(*names)), term_loc(body, rb_))
                    continue
            if not ok and in_graph and labs == {ROOT} and all(hub.from_walk(body, op_) for op_ in ops_):
                # entries found by walking the served tree (a clean-up of leftovers): whether the walk can hand over the lock
                # file depends on how the entries are filtered - data, not shape
                ctx.undecided('C03.R1', '%s removes / renames entries it found by listing the served tree: that the lock file is never among them is not decided' % body.path.split('::{')[0])
                continue
            ctx.check(ok, 'C03.R1', '%s:%s:request-path-only' % (body.path.split('::{')[0].replace('serve::', '').replace(' ', '_'), callee(rt_).split('::')[-1]),
                      'removes/renames only request paths (through safe_join) and their staging files',
                      'serve.rs removes or renames a path that is not a request path or its staging file (labels %s%s): if this is the commit lock file, '
                      'flock holds the unlinked inode while the next server creates and locks a fresh commit.lock - two servers are inside the commit section at once'
                      % (sorted(labs), '' if in_graph else '; in a body no call edge reaches, e.g. a Drop impl'), term_loc(body, rb_))
    if n_rm < 3:
        ctx.missing('C03.R1', 'serve.rs: remove/rename sites (found %d)' % n_rm)
    # the lock file is one fixed name under the served root - the same for every server of this root, whatever the request
    # (labels: derived from the root only; a request-dependent part would give every path / spelling a lock of its own)
    lb_ = F.body(hub.lock_fn)
    lfl_ = flow_of(lb_)
    n_open = 0
    for ob, ot in lfl_.calls(lambda c: c.endswith('OpenOptions::open')):
        n_open += 1
        labs = hub.label_operand(lb_, ot['args'][1])
        if OTHER in labs and TAINT not in labs and SAFE not in labs:
            ctx.undecided('C03.R1', 'with_commit_lock: where the path of the lock file comes from is not followed (labels %s)' % sorted(labs))
            continue
        ctx.check(labs == {ROOT}, 'C03.R1', 'with_commit_lock:lock-file-under-root', 'the lock file is a fixed name under the served root (same lock for every server of this root)',
                  'a commit region locks something other than one fixed file under <root>/.copia (labels %s): requests that reach one file through different '
                  'spellings / paths do not exclude each other' % sorted(labs), term_loc(lb_, ob))
    if n_open == 0:
        ctx.undecided('C03.R1', 'with_commit_lock: the lock file is not opened in the lock function itself')
    # the locked File is not dropped / unlocked before the closure returns
    early = []
    if file_local is not None:
        roots = {o.bb for o in fl.origins(file_local) if o.kind == 'call'}
        lf = None
        for l, ds in fl.defs.items():
            if b.local_ty(l) == 'std::fs::File' and b.local_name(l):
                lf = l
        # who holds the locked file: the local itself, and whatever it is moved into (a guard struct, `let _held = ..`)
        holders, moved_at = {lf}, {}
        changed_ = True
        while changed_:
            changed_ = False
            for bi in cfg.reachable():
                for st_ in b.blocks[bi]['stmts']:
                    ops_ = st_['rv'].get('ops', [])
                    for o_ in ops_:
                        # (also out of a wrapper: `guard = move (r as Ok).0` - what `CommitLock::acquire(..)?` leaves once the
                        # constructor is spliced in)
                        payload_ = all(isinstance(e_, dict) and ('dc' in e_ or 'f' in e_) for e_ in o_['p']['proj']) if o_['k'] == 'move' else False
                        if o_['k'] == 'move' and (not o_['p']['proj'] or payload_) and o_['p']['l'] in holders and not st_['dst']['proj']:
                            moved_at.setdefault(o_['p']['l'], set()).add(bi)
                            if st_['dst']['l'] not in holders:
                                holders.add(st_['dst']['l'])
                                changed_ = True
                t_ = b.blocks[bi]['term']
                if t_['k'] == 'call' and (callee(t_) or '').endswith('Try::branch') and t_['args'] and t_['args'][0]['k'] == 'move' and \
                        not t_['args'][0]['p']['proj'] and t_['args'][0]['p']['l'] in holders and not t_['dst']['proj']:
                    moved_at.setdefault(t_['args'][0]['p']['l'], set()).add(bi)
                    if t_['dst']['l'] not in holders:
                        holders.add(t_['dst']['l'])
                        changed_ = True
        for bi in cfg.reachable():
            t = b.blocks[bi]['term']
            is_drop = t['k'] == 'drop' and t['p']['l'] in holders and not t['p']['proj']
            if is_drop and any(cfg.dominates(mb_, bi) for mb_ in moved_at.get(t['p']['l'], ())):
                is_drop = False        # dropping a local whose value was moved out before: nothing is released
            is_unlock = t['k'] == 'call' and (callee(t) or '').endswith('::unlock')
            if (is_drop or is_unlock) and cfg.can_reach(bi, cb):
                early.append(bi)
    ctx.check(not early and file_local is not None, 'C03.R1', 'with_commit_lock:held-across-f', 'no drop/unlock of the lock file on a path to the closure call',
              'the lock file is dropped or unlocked before the closure runs', term_loc(b, cb))


def live_mutations(hub):
    """[(body, bb, callee, [classes])] of fs mutators in the serve graph with the class of each mutated path."""
    out = []
    for b, bb, c in hub.cg.call_sites(lambda c: c in MUT and MUT[c], within=hub.graph):
        t = b.blocks[bb]['term']
        classes = [hub.path_class(b, t['args'][p]) for p in MUT[c] if p < len(t['args'])]
        out.append((b, bb, c, classes))
    return out


def r2(ctx, F, hub):
    n = 0
    for b, bb, c, classes in live_mutations(hub):
        short = c.split('::')[-1]
        where = b.path.split('::{')[0].split('::')[-1] + ('{closure}' if '::{' in b.path else '')
        if c.endswith('OpenOptions::open'):
            continue
        if 'live' not in classes and not any('live' in x for x in classes):
            continue
        n += 1
        ctx.check(hub.in_held_region(b), 'C03.R2', '%s:%s(%s)' % (where, short, ','.join(classes)), 'inside a with_commit_lock closure',
                  '%s of a live hub path happens outside the commit lock: a concurrent server can interleave between its compare and this write' % short,
                  term_loc(b, bb))
    # tabled exception: create_dir_all(dst.parent()) - content-free and idempotent (classified 'parent', not 'live')


def current_is_computed(ctx, F, hub):
    """What the CAS compares is the hash of the bytes on disk NOW: the helper that produces `current` computes it from the
    file on every call.  A value taken out of a collection (a per-process memo validated by size and whole-second mtime)
    describes the file as it was when noted: another server's same-length commit within that second is invisible to it, a
    stale Put then commits over acknowledged content."""
    ch = hub.current_hash
    b = F.body(ch) if ch else None
    if b is None:
        return
    fl = flow_of(b)
    os_ = [o for o in fl.origins(0) if o.kind != 'comb']
    remembered = [o for o in os_ if o.kind == 'call' and re.search(r'(BTreeMap|HashMap|BTreeSet|HashSet|Vec|VecDeque|LruCache)\b.*::(get|get_mut|get_key_value|remove|entry|first|last|pop\w*)$', str(o.key))]
    computed = [o for o in os_ if o.kind == 'call' and (str(o.key) in ('meta::fingerprint_path', 'blake3::Hasher::finalize', 'blake3::hash') or F.body(str(o.key)) is not None)]
    if remembered:
        ctx.bad('C03.R3', 'current_hash:remembered-value', '%s can answer with a value it takes out of a collection (%s) instead of hashing the file: what the CAS compares is then what '
                'this process noted earlier, not what another server has committed since - a stale Put commits over acknowledged content, a stale Delete removes it' % (
                    ch.split('::')[-1], str(remembered[0].key).split('::')[-1]), term_loc(b, remembered[0].bb))
    elif computed:
        ctx.ok('C03.R3', 'current_hash:computed-from-the-file', 'every value it returns is computed from the file', loc(b, b.lo))


def r3_r5(ctx, F, hub):
    ctx.attempt(current_is_computed, ctx, F, hub)
    regions = sorted(hub.held.keys())
    if len(regions) < 2:
        ctx.missing('C03.R3', 'two held regions (put, delete); found %s' % regions)
    for rp in regions:
        b = F.body(rp)
        fl = flow_of(b)
        cfg = fl.cfg
        handler = b.parent.split('::')[-1]
        cas = fl.calls_to('wire::cas_decide')
        cur = fl.calls_to(hub.current_hash)
        if len(cas) != 1:
            ctx.bad('C03.R3', '%s:cas_decide' % handler, 'the held region of %s does not call cas_decide exactly once' % handler, loc(b, b.lo))
            continue
        cb, ct = cas[0]
        o_cur = fl.origins(ct['args'][0])
        cur_ok = hub.is_current(o_cur)
        # the hashed path is the live destination
        path_ok = False
        for o in o_cur:
            if o.kind == 'call' and o.bb is not None and o.key in hub.current_reads():
                path_ok = hub.path_class(b, b.blocks[o.bb]['term']['args'][0]) == 'live'
        if cur_ok and not path_ok and hub.optional_staging and handler == 'handle_put':
            # the hash IS read inside the region; which path it is read from is a field of the handler's path struct
            ctx.undecided('C03.R3', 'handle_put reads the current hash inside the region from a path it keeps in a struct (%s): that it is the live destination is not decided' % hub.optional_staging)
        else:
          ctx.check(cur_ok and path_ok, 'C03.R3', '%s:current-read-inside' % handler, 'cas_decide(current_hash(&dst) read in the region, ..)',
                    'the `current` compared by cas_decide is not the hash of the live path read inside the locked region (read before taking the lock?)', term_loc(b, cb))
        dos = hub.deep_origins(b, ct['args'][1])
        exp_ok = bool(dos)
        for bp, o in dos:
            # the client's value: the handler's Option<[u8; 32]> parameter, or that field of a request-header struct parameter
            pb_ = F.body(bp)
            vt = (origin_value_type(F, pb_, o) or '').replace(' ', '') if o.kind == 'param' else ''
            if not (o.kind == 'param' and TAINT in hub.param_label(pb_, o.key) and vt.endswith('Option<[u8;32]>')):
                exp_ok = False
        ctx.check(exp_ok, 'C03.R3', '%s:expected-untouched' % handler, '`expected` is the request\'s field, unmodified',
                  'the `expected` compared by cas_decide is not the client\'s value unchanged (%s)' % sorted('%s:%s' % (o.kind, o.key) for _, o in dos), term_loc(b, cb))
        oc = fl.outcomes(cb)
        commit_e, conflict_e = oc.get('Commit', set()), oc.get('Conflict', set())
        muts = [(bb, t) for bb, t in fl.calls(lambda c: c in MUT and MUT[c])]
        for mb, mt in muts:
            c = callee(mt)
            classes = [hub.path_class(b, mt['args'][p]) for p in MUT[c]]
            short = c.split('::')[-1]
            if c.endswith('rename') and classes == ['staging', 'live']:
                # publishing rename (dst exactly the live path) vs conflict-copy rename (live path + suffix), judged on each
                # outcome of cas_decide with the definitions of the other outcome left out: the two may share one call site
                # (`rename(&tmp, &landing.target)`) or have one each
                views = (('Commit', commit_e, conflict_e), ('Conflict', conflict_e, commit_e))
                judged = 0
                for vname, mine, other in views:
                    excl = (fl.only_through(other) - fl.only_through(mine)) if other else set()
                    if mb in excl or not mine:
                        continue
                    judged += 1
                    with fl.restricted(excl):
                        pure_live = not any(o.kind == 'mutcall' for _, o in hub.deep_origins(b, mt['args'][1], mut_calls=True)) and \
                            not path_shape(F, fl, mt['args'][1])[1]
                        guarded = cfg.edges_guard(commit_e | conflict_e, mb) and (cfg.edges_guard(mine, mb) or other and mb not in fl.only_through(other))
                        if vname == 'Commit':
                            ctx.check(pure_live and guarded, 'C03.R3', '%s:publish-on-Commit' % handler, 'rename(tmp, dst) on the Commit edge',
                                      'the publishing rename is reachable without cas_decide == Commit (stale write overwrites the live file)' if pure_live or not guarded else
                                      'on the Commit outcome the staged file is renamed onto a derived name, not the live path', term_loc(b, mb))
                            reply_rule(ctx, b, fl, mb, 'PutResult', 'committed', 1, '%s:committed-true' % handler)
                        else:
                            ctx.check((not pure_live) and guarded, 'C03.R3', '%s:conflict-copy-on-Conflict' % handler,
                                      'rename(tmp, dst+".conflict-…") on the Conflict edge', 'the conflict-copy rename is not confined to the Conflict edge' if not pure_live else
                                      'on the Conflict outcome the staged file is renamed onto the live path: a stale write overwrites what another client committed', term_loc(b, mb))
                            reply_rule(ctx, b, fl, mb, 'PutResult', 'committed', 0, '%s:committed-false' % handler)
                            # "its own bytes retrievable from a conflict-copy": the lost write is answered only after ITS staged
                            # file became the conflict copy.  A way from the Conflict edge to the reply that skips the rename
                            # (the copy "is already there", a dedup test) keeps the bytes only if what it found instead really
                            # holds them and stays - a statement about values, not passed silently
                            for rbi, rline in reply_sites(b, fl, 'PutResult', 'committed', 0):
                                # (feasible paths from the Conflict edge with the rename's block cut out: a Result merged from the
                                # rename and from the branch that skips it has ONE Ok edge, so the edge test alone does not see the skip)
                                skip = set()
                                for e_ in mine:
                                    skip |= cfg.feasible_after_edge(e_, cut_blocks=(mb,))
                                if cfg.can_reach(mb, rbi) and rbi in skip:
                                    # what lets it skip?  the switches between the Conflict edge and the reply that still decide
                                    # whether the rename runs; if one of them tests a hash read of the LIVE path, the "holder" it
                                    # found is the live file itself - which the next commit or delete replaces: positively wrong
                                    live_test = None
                                    for xb in sorted(skip):
                                        xt = b.blocks[xb]['term']
                                        if xt['k'] != 'switch' or xt['on']['k'] == 'const' or not cfg.can_reach(xb, mb) or not cfg.can_reach(xb, rbi):
                                            continue
                                        work, seen_ = [xt['on']], set()
                                        while work and len(seen_) < 200:
                                            cur = work.pop()
                                            if cur['k'] == 'const':
                                                continue
                                            for o in fl.origins(cur, mut_calls=True):
                                                k_ = (o.kind, str(o.key), o.bb)
                                                if k_ in seen_:
                                                    continue
                                                seen_.add(k_)
                                                if o.kind == 'call' and o.key in hub.current_reads() and o.bb is not None and \
                                                        hub.path_class(b, b.blocks[o.bb]['term']['args'][0]) == 'live':
                                                    ra_ = b.blocks[o.bb]['term']['args'][0]
                                                    # exactly the live path: nothing pushed onto its name (a conflict-copy name is the live path + suffix)
                                                    if not any(x.kind == 'mutcall' for _, x in hub.deep_origins(b, ra_, mut_calls=True)) and not path_shape(F, fl, ra_)[1]:
                                                        live_test = (xb, o.bb)
                                                if o.kind in ('call', 'mutcall') and o.bb is not None:
                                                    work += [a for a in b.blocks[o.bb]['term'].get('args', []) if a['k'] != 'const']
                                    if live_test:
                                        ctx.bad('C03.R5', '%s:conflict-copy-skipped-for-the-live-file' % handler,
                                                '%s answers committed:false without keeping a conflict copy when a hash read of the LIVE path matches: the live file is not a '
                                                'preserved copy - the next commit or delete of the path makes the loser\'s bytes vanish from the hub' % handler, term_loc(b, live_test[0]))
                                        break
                                    ctx.undecided('C03.R5', '%s can answer committed:false on the Conflict outcome without having renamed the staged file to a conflict copy '
                                                  '(some test lets it skip the rename): that the lost bytes are kept elsewhere, for good, is not decided' % handler)
                                    break
                if not judged:
                    ctx.bad('C03.R3', '%s:rename-outside-decision' % handler, 'a rename of the staged file is reachable on neither outcome of cas_decide', term_loc(b, mb))
            elif c.endswith('remove_file') and classes == ['live']:
                ctx.check(bool(commit_e) and cfg.edges_guard(commit_e, mb), 'C03.R3', '%s:remove-on-Commit' % handler, 'remove_file(dst) on the Commit edge',
                          'the delete is reachable without cas_decide == Commit', term_loc(b, mb))
                reply_rule(ctx, b, fl, mb, 'DeleteResult', 'deleted', 1, '%s:deleted-true' % handler)
            elif c.endswith('remove_file') and classes == ['staging']:
                ctx.ok('C03.R3', '%s:staging-cleanup' % handler, 'removal of the server\'s own staging file (not a live path)', term_loc(b, mb))
            elif short == 'remove_dir':
                ctx.undecided('C03.R3', '%s removes directories inside the commit region (pruning what a delete emptied): not a change of a live file, not judged' % handler)
            elif hub.optional_staging and handler == 'handle_put':
                ctx.undecided('C03.R3', 'handle_put keeps its staging file in an Option (%s): which file operation the commit region performs depends on its value' % hub.optional_staging)
            else:
                ctx.bad('C03.R3', '%s:%s(%s)' % (handler, short, ','.join(classes)), 'unexpected file mutation inside the commit region', term_loc(b, mb))
        # no success reply without the corresponding operation: every path to a success reply passes the Ok edge of
        # the operation, or (delete only) the edge on which the path is known to be absent already
        absent_e = set()
        for ib, it in fl.calls(lambda c: c in ('std::option::Option::<T>::is_some', 'std::option::Option::<T>::is_none')):
            if hub.is_current(fl.origins(it['args'][0])):
                oc2 = fl.outcomes(ib)
                absent_e |= oc2.get('false' if callee(it).endswith('is_some') else 'true', set())
        # ... or a `match` / combinator on the value itself (`current.map_or(Ok(()), |_| remove_file(..))`)
        a0 = ct['args'][0]
        if a0['k'] != 'const':
            cr_ = chase_root(fl, a0)
            for l_ in {a0['p']['l']} | ({cr_[0]} if cr_ else set()):
                absent_e |= fl.outcomes(None, l_).get('None', set())
        for name, field, val, verb in (('PutResult', 'committed', 1, 'rename'), ('DeleteResult', 'deleted', 1, 'remove_file')):
            for bi, line in reply_sites(b, fl, name, field, val):
                ok_e = set()
                for mb, mt in muts:
                    if callee(mt).endswith(verb) and not (verb == 'remove_file' and hub.path_class(b, mt['args'][0]) != 'live'):
                        ok_e |= fl.outcomes(mb).get('Ok', set())
                allowed = ok_e | (absent_e if name == 'DeleteResult' else set())
                if not (allowed and cfg.edges_guard(allowed, bi)):
                    ctx.bad('C03.R5', '%s:%s-without-%s' % (handler, field, verb),
                            '%s{%s:true} is reachable without a successful %s' % (name, field, verb), loc(b, line))


def reply_sites(b, fl, name, field, val):
    """[(block, line)] where the reply Response::<name>{<field>: <val>} becomes the value that is handed on: the block that
    builds it when it is built straight into the returned / written value, otherwise the blocks that move a value built
    earlier (`let ack = Response::..; .. ; |()| ack`) into a return carrier."""
    built = {}
    for bi in fl.cfg.reachable():
        for st in b.blocks[bi]['stmts']:
            rv = st['rv']
            if rv['k'] == 'agg' and rv.get('adt') == 'wire::Response' and rv.get('vname') == name and bi not in fl.exclude_blocks:
                i = rv['fields'].index(field)
                fv = rv['ops'][i].get('v') if rv['ops'][i]['k'] == 'const' else None
                if fv is None and rv['ops'][i]['k'] != 'const':
                    os_ = [o for o in fl.origins(rv['ops'][i]) if o.kind != 'comb']
                    if os_ and all(o.kind == 'const' for o in os_) and len({o.key for o in os_}) == 1:
                        fv = os_[0].key
                if fv is not None and int(bool(fv)) == val:
                    built[bi] = (st, st['dst']['l'])
    if not built:
        return []
    carriers = return_carriers(b)
    out = []
    late = False
    for bi, (st, d) in built.items():
        if d in carriers or not any(True for _ in [0]) :
            out.append((bi, st.get('line')))
    direct = {bi for bi, _ in out}
    for bi in fl.cfg.reachable():
        for st in b.blocks[bi]['stmts']:
            if st['dst']['l'] in carriers and not st['dst']['proj'] and st['rv']['k'] == 'use' and st['rv']['ops'][0]['k'] != 'const':
                os_ = fl.origins(st['rv']['ops'][0])
                if any(o.kind == 'agg' and o.bb in built and o.bb not in direct and str(o.key).endswith('::' + name) for o in os_):
                    out.append((bi, st.get('line')))
                    late = True
    if not out:
        # built into something that is neither returned nor moved on by plain copies: judge it where it is built (as before)
        out = [(bi, st.get('line')) for bi, (st, d) in built.items()]
    return out


def reply_rule(ctx, b, fl, op_bb, name, field, val, key):
    """C03.R5: Response::<name>{<field>: <val>} is handed on only under the Ok edge of the operation in op_bb."""
    cfg = fl.cfg
    found = False
    for bi, line in reply_sites(b, fl, name, field, val):
        if not cfg.can_reach(op_bb, bi):
            continue
        found = True
        # once the operation has run, the success reply must be unreachable from its Err outcome (a path that
        # legitimately skips the operation - nothing to delete - is judged by the absent-edge rule below)
        oc_ = fl.outcomes(op_bb)
        err_reach = set()
        for e_ in oc_.get('Err', set()):
            err_reach |= cfg.feasible_after_edge(e_)
        inspected = bool(oc_.get('Err')) and bool(oc_.get('Ok'))
        ctx.check(fl.guarded_by(bi, op_bb, 'Ok') or (inspected and bi not in err_reach), 'C03.R5', key, '%s{%s:%s} only under the Ok edge of the file operation' % (name, field, bool(val)),
                  'the reply %s{%s:%s} is sent although the %s it reports may have failed (its result is discarded)' % (
                      name, field, str(bool(val)).lower(), callee(b.blocks[op_bb]['term']).split('::')[-1]), loc(b, line))
    if not found:
        # a reply of that kind with the OTHER value behind the operation is a positive finding: this outcome is reported as
        # the opposite one
        wrong = [x for x in reply_sites(b, fl, name, field, 1 - val) if cfg.can_reach(op_bb, x[0])]
        if wrong:
            ctx.bad('C03.R5', key + ':reply-exists', 'behind this operation the reply is %s{%s:%s}, not %s{%s:%s}: the outcome is reported as its opposite' % (
                name, field, str(bool(1 - val)).lower(), name, field, str(bool(val)).lower()), loc(b, wrong[0][1]))
        else:
            ctx.undecided('C03.R5', '%s: no %s{%s:%s} reply was found behind the operation (the reply is built in a way the rule does not follow)' % (key, name, field, bool(val)))


def r4(ctx, F):
    eng = dd.DD(F, {})
    try:
        leaves = eng.run('wire::cas_decide', [dd.Sym('current'), dd.Sym('expected')])
    except (dd.Undecided, dd.DataDependence) as e:
        ctx.bad('C03.R4', 'cas_decide:shape', 'cas_decide is not a pure comparison of its two arguments: %s' % e, 'src/bin/copia/wire.rs (wire::cas_decide)')
        return
    atom = ('eq', 'current', 'expected')
    for truth in (True, False):
        res = [dd.show(v) for asg, v in leaves if asg.get(atom, truth) == truth and set(asg) <= {atom}]
        exp = 'Commit' if truth else 'Conflict'
        ctx.check(res == [exp], 'C03.R4', 'cas_decide:current%sexpected' % ('==' if truth else '!='), '-> %s' % res,
                  'cas_decide yields %s when current %s expected (must be %s)' % (res, '==' if truth else '!=', exp), 'src/bin/copia/wire.rs (wire::cas_decide)')


def staging_ownership(ctx, F, hub, rid):
    n = 0
    for b, bb, c in hub.cg.call_sites(lambda c: c in tables.CONTENT_CREATORS, within=hub.graph):
        t = b.blocks[bb]['term']
        pos = tables.CONTENT_CREATORS[c]
        if pos >= len(t['args']) or hub.path_class(b, t['args'][pos]) != 'staging':
            continue
        n += 1
        handler = b.path.split('::{')[0].split('::')[-1]
        exclusive = c.endswith('create_new')
        held = hub.in_held_region(b)
        # per-writer component inside tmp_of or at the call site
        uniq = False
        tb = F.body(hub.tmp_of) if hub.tmp_of else None
        for body in [tb, b]:
            if body is None:
                continue
            for bb2, t2 in flow_of(body).calls(lambda c: c in ('std::process::id',) or 'rand' in c or 'Uuid' in c or c.endswith('fetch_add')):
                uniq = True
        ctx.check(exclusive or held or uniq, rid, '%s:staging-ownership' % handler, 'staging file exclusively owned',
                  'the staging name contains nothing unique to this server process (no process id, random or counter part; not created exclusively, not inside the lock): it is a pure function of the request, created with truncate and written outside the lock: two servers '
                  'putting the same path share (and steal) one staging file', term_loc(b, bb))
    if n == 0:
        ctx.missing(rid, 'a staging File::create in the serve graph')


def r7(ctx, F):
    b = F.body('hub::hub_sync')
    if b is None:
        ctx.missing('C03.R7', 'hub::hub_sync')
    fl = flow_of(b)
    puts = fl.calls_to('hub::HubClient::put')
    if not puts:
        ctx.missing('C03.R7', 'hub_sync -> HubClient::put')
    from rules.hub import put_arg_slots
    PS = put_arg_slots(F)
    if PS is None:
        ctx.missing('C03.R7', 'HubClient::put parameters (path: &str, expected: Option<[u8; 32]>, local: &Path, hash: [u8; 32])')
    loops_ = fl.cfg.loops()
    for n_, (pb, pt) in enumerate(sorted(puts, key=lambda x: x[0])):
        eo = fl.origins(pt['args'][PS['expected']])
        ok = False
        nb_ = next((n for n, _ in fl.calls_to('std::iter::Iterator::next') if any(pb in bl and n in bl for bl in loops_.values())), None)
        if nb_ is not None and prepared_list(fl, nb_) and any(o.kind == 'call' and o.key == 'std::iter::Iterator::next' and o.bb == nb_ for o in eo):
            ctx.undecided('C03.R7', 'hub_sync sends from a list prepared in an earlier pass: `expected` is read out of a stored record, where it came from is not decided')
            continue
        for o in eo:
            if o.kind == 'call' and o.key.endswith('::get'):
                m = call_arg_origins(fl, o.bb, 0)
                k = call_arg_origins(fl, o.bb, 1)
                rel = fl.origins(pt['args'][PS['rel']])
                if any(x.kind == 'call' and x.key == 'hub::HubClient::list' for x in m) and \
                   {(x.kind, x.key, x.bb) for x in k} == {(x.kind, x.key, x.bb) for x in rel}:
                    ok = True
        only = all(o.kind in ('comb', 'agg') or (o.kind == 'call' and (o.key.endswith('::get') or o.key == 'hub::HubClient::list')) or o.kind == 'const' for o in eo)
        ctx.check(ok and only, 'C03.R7', 'hub_sync:expected=listed' + ('' if n_ == 0 else '#%d' % (n_ + 1)), 'expected = hub.get(rel).map(|f| f.blake3) from the single list()',
                  'hub_sync sends a Put whose `expected` is not the hash listed for that path at the start of the run (%s): a write based on a value '
                  'the user never saw overwrites what another client committed (CAS degenerates to last-writer-wins)' % sorted('%s:%s' % (o.kind, o.key) for o in eo), term_loc(b, pb))
    lists = fl.calls_to('hub::HubClient::list')
    in_loop = any(lb in blocks for lb, _ in lists for blocks in fl.cfg.loops().values())
    ctx.check(len(lists) == 1 and not in_loop, 'C03.R7', 'hub_sync:list-once', 'one list() before the loop', 'hub_sync lists the hub more than once / inside the loop', loc(b, b.lo))
    # HubClient::put forwards expected unchanged
    p = F.body('hub::HubClient::put')
    if p is None:
        ctx.missing('C03.R7', 'hub::HubClient::put')
    pfl = flow_of(p)
    good = False
    for bi in pfl.cfg.reachable():
        for st in p.blocks[bi]['stmts']:
            rv = st['rv']
            if rv['k'] == 'agg' and rv.get('adt') == 'wire::Request' and rv.get('vname') == 'Put':
                i = rv['fields'].index('expected')
                eo2 = pfl.origins(rv['ops'][i])
                # the CAS parameter by type (the fn's only Option<[u8; 32]>), whatever it is called
                opt_hash = [k_ for k_ in range(1, p.argc + 1) if p.local_ty(k_).replace(' ', '') == 'std::option::Option<[u8;32]>']
                e_i = opt_hash[0] if len(opt_hash) == 1 else param_index(p, 'expected')
                good = bool(eo2) and all(o.kind == 'param' and o.key == e_i and not o.path for o in eo2)
    ctx.check(good, 'C03.R7', 'HubClient::put:expected-forwarded', 'Request::Put.expected is the parameter unchanged',
              'HubClient::put does not forward `expected` unchanged into Request::Put', loc(p, p.lo))
    # ceiling 0: no fs mutator, no Request::Delete in hub.rs
    bad = []
    for hb in F.bodies_in_file('bin/copia/hub.rs'):
        hfl = flow_of(hb)
        for bb, t in hfl.calls(lambda c: c in MUT and not c.endswith('OpenOptions::open')):
            bad.append((hb, bb, callee(t)))
        for bi in hfl.cfg.reachable():
            for st in hb.blocks[bi]['stmts']:
                rv = st['rv']
                if rv['k'] == 'agg' and rv.get('adt') == 'wire::Request' and rv.get('vname') == 'Delete':
                    bad.append((hb, bi, 'Request::Delete'))
    ctx.check(not bad, 'C03.R7', 'hub.rs:no-mutator-no-delete', 'client module neither mutates files nor sends Delete',
              'hub.rs contains %s' % [(b_.path, c) for b_, _, c in bad], None)
