"""Helpers shared by the rule modules."""
import os
import re
import sys

sys.path.insert(0, os.path.dirname(os.path.dirname(os.path.abspath(__file__))))

from cfg import cfg_of  # noqa: E402
from facts import callee, callee_resolved, norm, fmt_op, fmt_term, const_val  # noqa: E402
from flow import flow_of, Origin, IDENTITY_CALLS  # noqa: E402


def loc(body, line):
    return '%s:%d (%s)' % (body.file, line, body.path)


def term_loc(body, bb):
    return loc(body, body.blocks[bb]['term']['line'])


def suffix_match(c, names):
    return c is not None and any(c == n or c.endswith('::' + n) or c.endswith(n) for n in names)


def work_body(F, fn_path, callees):
    """Among `fn_path` and the bodies nested in it (tracing's #[instrument] and async lowering
    nest the user's code one or two closures deep) return the one that calls any of `callees`."""
    best = None
    for b in F.nested(fn_path):
        fl = flow_of(b)
        n = len(fl.calls(lambda c: suffix_match(c, callees)))
        if n and (best is None or n > best[0]):
            best = (n, b)
    if best is None and F.body(fn_path) is None and '::' in fn_path:
        # the function no longer exists (written out at its call site): the one body of the same module that does the work
        mod = fn_path.rsplit('::', 1)[0]
        cands = []
        for p_, b in F.bodies.items():
            if p_.startswith(mod + '::') and 'generated' not in b.file:
                n = len(flow_of(b).calls(lambda c: suffix_match(c, callees)))
                if n:
                    cands.append((n, b))
        if len(cands) == 1:
            return cands[0][1]
    return best[1] if best else None


def fn_short(path):
    return path.replace('<', '').replace('>', '').replace(' as ', '/')


def through_aggregate(fl, op):
    """`(x.k)` / `(*x).k` where x is built by exactly one aggregate (tuple, closure environment, struct literal): the operand the
    aggregate was given for field k, with the rest of the projection kept; None when this is not that shape"""
    if op['k'] == 'const':
        return None
    l, proj = op['p']['l'], list(op['p']['proj'])
    i = 0
    while i < len(proj) and proj[i] == 'deref':
        i += 1
    if i >= len(proj) or not isinstance(proj[i], dict) or 'f' not in proj[i]:
        return None
    ds = fl.defs.get(l, [])
    # follow plain moves of the aggregate itself
    hops = 0
    while len(ds) == 1 and ds[0][2] == 'assign' and not ds[0][4] and ds[0][3]['k'] in ('use', 'ref') and hops < 6:
        src = ds[0][3]['ops'][0] if ds[0][3]['k'] == 'use' else {'k': 'copy', 'p': ds[0][3]['p']}
        if src['k'] == 'const' or [e for e in src['p']['proj'] if e != 'deref']:
            return None
        ds = fl.defs.get(src['p']['l'], [])
        hops += 1
    if len(ds) != 1 or ds[0][2] != 'assign' or ds[0][4] or ds[0][3]['k'] != 'agg':
        return None
    rv = ds[0][3]
    f = proj[i]['f']
    if rv.get('ak') == 'adt' and rv.get('variant') not in (0, None) and 'dc' not in str(proj[:i]):
        pass
    if f >= len(rv['ops']):
        return None
    inner = rv['ops'][f]
    if inner['k'] == 'const':
        return inner if i + 1 >= len(proj) else None
    return {'k': 'copy', 'p': {'l': inner['p']['l'], 'proj': list(inner['p']['proj']) + proj[i + 1:]}}


def chase_root(fl, op, stop_at_named=True):
    """(local, remaining projection) an operand is a plain copy / reference / aggregate field of: single definitions are
    followed through moves, (re)borrows and the fields of tuples, closure environments and struct literals"""
    if op['k'] == 'const':
        return None
    l, proj = op['p']['l'], list(op['p']['proj'])
    seen = set()
    for _ in range(24):
        if (l, len(proj)) in seen:
            break
        seen.add((l, len(proj)))
        ta = through_aggregate(fl, {'k': 'copy', 'p': {'l': l, 'proj': proj}})
        if ta is not None:
            if ta['k'] == 'const':
                return None
            l, proj = ta['p']['l'], list(ta['p']['proj'])
            continue
        if stop_at_named and fl.body.local_name(l) and not (1 <= l <= fl.body.argc and False):
            named_copy = False
            ds = fl.defs.get(l, [])
            # a named local that is nothing but another local moved into it (parameter of a spliced helper / closure)
            if len(ds) == 1 and ds[0][2] == 'assign' and not ds[0][4] and ds[0][3]['k'] == 'use' and ds[0][3]['ops'][0]['k'] != 'const':
                named_copy = True
            if not named_copy:
                break
        ds = fl.defs.get(l, [])
        if len(ds) != 1 or ds[0][2] != 'assign' or ds[0][4]:
            break
        rv = ds[0][3]
        if rv['k'] in ('use', 'cast') and rv['ops'][0]['k'] != 'const':
            src = rv['ops'][0]['p']
            l, proj = src['l'], list(src['proj']) + proj
        elif rv['k'] == 'ref':
            src = rv['p']
            rest = proj[1:] if proj and proj[0] == 'deref' else proj
            l, proj = src['l'], list(src['proj']) + rest
        else:
            break
    return l, proj


def root_user_local(fl, op):
    """index of the user-named local an operand is a plain copy/reference of (None if it is not one)"""
    seen = set()
    cur = op
    for _ in range(12):
        if cur['k'] == 'const':
            return None
        ta = through_aggregate(fl, cur)
        if ta is not None:
            cur = ta
            continue
        l = cur['p']['l']
        if fl.body.local_name(l):
            return l
        if l in seen:
            return None
        seen.add(l)
        ds = fl.defs.get(l, [])
        if len(ds) != 1:
            return None
        bb, idx, kind, data, dproj = ds[0]
        if kind == 'assign':
            rv = data
            if rv['k'] in ('use', 'cast') and rv['ops'][0]['k'] != 'const':
                cur = rv['ops'][0]
                continue
            if rv['k'] == 'ref':
                cur = {'k': 'copy', 'p': rv['p']}
                continue
            return None
        c = callee(data)
        if c in IDENTITY_CALLS and data['args'] and data['args'][0]['k'] != 'const':
            cur = data['args'][0]
            continue
        return None
    return None


def root_name(fl, op):
    """A readable, line-free description of what an operand is: the user variable it
    derives from, else its origin kinds."""
    seen = set()
    cur = op
    for _ in range(12):
        if cur['k'] == 'const':
            return 'const'
        ta = through_aggregate(fl, cur)
        if ta is not None:
            cur = ta
            continue
        l = cur['p']['l']
        n = fl.body.local_name(l)
        if n:
            return n
        if l in seen:
            break
        seen.add(l)
        ds = fl.defs.get(l, [])
        if len(ds) != 1:
            break
        bb, idx, kind, data, dproj = ds[0]
        if kind == 'assign':
            rv = data
            if rv['k'] in ('use', 'cast') and rv['ops'][0]['k'] != 'const':
                cur = rv['ops'][0]
                continue
            if rv['k'] == 'ref':
                cur = {'k': 'copy', 'p': rv['p']}
                continue
            break
        else:
            c = callee(data)
            if c in IDENTITY_CALLS and data['args'] and data['args'][0]['k'] != 'const':
                cur = data['args'][0]
                continue
            return 'result of ' + (c or 'indirect call')
    os_ = sorted({'%s:%s' % (o.kind, o.key) for o in fl.origins(op)})
    return '|'.join(os_)[:80]


def return_carriers(body):
    """locals whose value is handed to the return place by plain moves only (`_0 = move t`, `t = move u`, ...): where a spliced
    helper or closure left the value it returned"""
    carriers = {0}
    changed = True
    while changed:
        changed = False
        for blk in body.blocks:
            for st in blk['stmts']:
                if st['dst']['l'] in carriers and not st['dst']['proj'] and st['rv']['k'] == 'use':
                    op = st['rv']['ops'][0]
                    if op['k'] != 'const' and not op['p']['proj'] and op['p']['l'] not in carriers:
                        l = op['p']['l']
                        # the carried local must feed nothing but return carriers
                        uses = [s2 for b2 in body.blocks for s2 in b2['stmts'] if s2['rv']['k'] == 'use' and s2['rv']['ops'][0]['k'] != 'const'
                                and s2['rv']['ops'][0]['p']['l'] == l and not s2['rv']['ops'][0]['p']['proj']]
                        if all(u['dst']['l'] in carriers and not u['dst']['proj'] for u in uses) and not (1 <= l <= body.argc):
                            carriers.add(l)
                            changed = True
    return carriers


def ok_assign_blocks(body, variant='Ok'):
    """Blocks that construct the value returned as `Result::<variant>{..}` (or Option::Some...): assigned to the return place
    directly, or to a temporary that is only moved on into it (the shape a spliced helper / closure leaves)."""
    out = []
    carriers = return_carriers(body)
    if carriers == {0}:
        for bi, blk in enumerate(body.blocks):
            for st in blk['stmts']:
                if st['dst']['l'] == 0 and not st['dst']['proj'] and st['rv']['k'] == 'agg' \
                   and st['rv'].get('ak') == 'adt' and st['rv'].get('vname') == variant:
                    out.append(bi)
        return out
    # a value made in a temporary counts when it can reach the return without the chain being overwritten on the way
    # (the `Ok(())` a spliced closure yields per element is replaced by the loop's own result before anything returns)
    cfg = flow_of(body).cfg
    makers = set()
    for bi, blk in enumerate(body.blocks):
        for st in blk['stmts']:
            if st['dst']['l'] in carriers and not st['dst']['proj']:
                rv = st['rv']
                is_move = rv['k'] == 'use' and rv['ops'][0]['k'] != 'const' and not rv['ops'][0]['p']['proj'] and rv['ops'][0]['p']['l'] in carriers
                if not is_move:
                    makers.add(bi)
        t = blk['term']
        if t['k'] == 'call' and isinstance(t.get('dst'), dict) and t['dst']['l'] in carriers and not t['dst']['proj']:
            makers.add(bi)
    exits = set(cfg.exits())
    for bi, blk in enumerate(body.blocks):
        if bi not in cfg.reachable():
            continue
        for st in blk['stmts']:
            if st['dst']['l'] in carriers and not st['dst']['proj'] and st['rv']['k'] == 'agg' \
               and st['rv'].get('ak') == 'adt' and st['rv'].get('vname') == variant:
                if st['dst']['l'] == 0:
                    out.append(bi)
                    continue
                succs = [t_ for t_, _ in cfg.succ[bi]]
                r = set()
                for s_ in succs:
                    if s_ not in makers:
                        r |= cfg.reach(s_, cut_blocks=makers - {bi})
                    if s_ in exits:
                        r.add(s_)
                if (r & exits) or bi in exits:
                    out.append(bi)
    return out


def ret_defs(body):
    """All definitions of the return place: [(bb, kind, data)]."""
    fl = flow_of(body)
    return [(bb, kind, data) for (bb, idx, kind, data, dproj) in fl.defs.get(0, [])]


def error_blocks(body):
    """Blocks that produce an error result: `from_residual` calls (the `?` error arm) and
    `_0 = Err{..}` assignments."""
    out = set()
    for bi, blk in enumerate(body.blocks):
        t = blk['term']
        if t['k'] == 'call' and callee(t) == 'std::ops::FromResidual::from_residual':
            out.add(bi)
        for st in blk['stmts']:
            if st['dst']['l'] == 0 and st['rv']['k'] == 'agg' and st['rv'].get('vname') == 'Err':
                out.add(bi)
    return out


def eq_edges(fl, bb):
    """For a comparison call/statement result in `bb` return (equal_edges, unequal_edges)."""
    t = fl.body.blocks[bb]['term']
    c = callee(t)
    oc = fl.outcomes(bb)
    if c == 'std::cmp::PartialEq::eq':
        return oc.get('true', set()), oc.get('false', set())
    if c == 'std::cmp::PartialEq::ne':
        return oc.get('false', set()), oc.get('true', set())
    return set(), set()


def switch_blocks_on(fl, pred):
    """[(bb, term)] of switch terminators whose operand's origins satisfy pred(origins)."""
    out = []
    for bi in fl.cfg.reachable():
        t = fl.body.blocks[bi]['term']
        if t['k'] == 'switch' and t['on']['k'] != 'const':
            if pred(fl.origins(t['on'])):
                out.append((bi, t))
    return out


def bool_edges(bb, t):
    """(true_edges, false_edges) of a switch on a bool."""
    tr, fa = set(), set()
    listed = {v for v, _ in t['targets']}
    for v, tgt in t['targets']:
        (fa if v == 0 else tr).add((bb, tgt, v))
    if 0 in listed:
        tr.add((bb, t['otherwise'], 'otherwise'))
    else:
        fa.add((bb, t['otherwise'], 'otherwise'))
    return tr, fa


def has_origin(origins, kind=None, key=None, path_prefix=None, key_suffix=None):
    for o in origins:
        if kind is not None and o.kind != kind:
            continue
        if key is not None and o.key != key:
            continue
        if key_suffix is not None and not (isinstance(o.key, str) and (o.key == key_suffix or o.key.endswith(key_suffix))):
            continue
        if path_prefix is not None and tuple(o.path[:len(path_prefix)]) != tuple(path_prefix):
            continue
        return True
    return False


def call_arg_origins(fl, bb, i, **kw):
    t = fl.body.blocks[bb]['term']
    if i >= len(t['args']):
        return set()
    return fl.origins(t['args'][i], **kw)


def param_index(body, name):
    for i in range(1, body.argc + 1):
        if body.local_name(i) == name:
            return i
    return None


def unconditional_pair(fl, first, second):
    """From block `first`, every path that reaches the head of a loop enclosing `first` or a return
    passes through `second` or an error exit (`?` error arm / Err construction)."""
    cfg = fl.cfg
    loops = cfg.loops()
    errs = error_blocks(fl.body)
    encl = {h for h in loops if first in loops[h]}
    rets = set(cfg.exits())
    r = set()
    for s, _ in cfg.succ[first]:
        r |= cfg.reach(s, cut_blocks=set([second]) | errs)
    return not (r & (encl | rets))


def buf_sig(fl, op):
    return frozenset((o.kind, o.key, o.path, o.bb) for o in fl.origins(op))


def sticky_flag(fl, set_edges, ok_blocks):
    """A local F that latches an event: F starts at an initial value (0 / false / None), every path from each edge in
    `set_edges` assigns it a non-initial value before the next loop head or function exit, nothing resets it, and every
    block in `ok_blocks` is reachable only through an edge of a test that F still has its initial value.
    Form-independent: counter (`n += 1` ... `n == 0`), bool flag, or Option (`= Some(..)` ... `None =>`).
    Returns (local, why) - local is None when no such latch exists."""
    import ranges
    b, cfg = fl.body, fl.cfg
    R = ranges.Ranges(fl)
    heads = set(cfg.loops().keys())
    exits = set(cfg.exits())
    why = 'no latch variable found'
    for F in sorted(fl.defs.keys()):
        if F == 0 or F <= b.argc:
            continue
        ty = b.local_ty(F)
        if not (ranges.ty_range(ty) or ty.startswith('std::option::Option<')):
            continue
        inits, sets, other = [], [], []
        for (dbb, idx, kind, data, dproj) in fl.defs.get(F, []):
            if dproj or kind != 'assign':
                other.append(dbb)
                continue
            k = data['k']
            if k == 'use' and data['ops'][0]['k'] == 'const':
                v = R.const_val(data['ops'][0])
                (inits if v == 0 else sets).append(dbb)
            elif k == 'agg' and data.get('vname') == 'None':
                inits.append(dbb)
            elif k == 'agg' and data.get('vname') == 'Some':
                sets.append(dbb)
            elif k == 'use' and data['ops'][0].get('p') and not data['ops'][0]['p']['proj'] and \
                    len(fl.defs.get(data['ops'][0]['p']['l'], [])) == 1 and fl.defs[data['ops'][0]['p']['l']][0][2] == 'assign' and \
                    fl.defs[data['ops'][0]['p']['l']][0][3]['k'] == 'agg' and fl.defs[data['ops'][0]['p']['l']][0][3].get('vname') in ('None', 'Some'):
                # F = move _tmp with _tmp = Some(..) / None (drop-and-replace of a non-Copy Option)
                (inits if fl.defs[data['ops'][0]['p']['l']][0][3].get('vname') == 'None' else sets).append(dbb)
            elif k == 'use' and data['ops'][0].get('p') and data['ops'][0]['p']['proj']:
                # F = move (_t.0) with _t = AddWithOverflow(copy F, const c != 0)
                tl = data['ops'][0]['p']['l']
                tdefs = fl.defs.get(tl, [])
                pj = data['ops'][0]['p']['proj']
                # `let (mut a, mut n) = (x, 0)`: F = copy (_t.k) with _t a tuple aggregate
                if len(pj) == 1 and isinstance(pj[0], dict) and 'f' in pj[0] and tdefs and \
                   all(kk == 'assign' and dd['k'] == 'agg' and dd.get('ak') == 'tuple' and not dp for (_, _, kk, dd, dp) in tdefs):
                    vals = [R.const_val(dd['ops'][pj[0]['f']]) if dd['ops'][pj[0]['f']]['k'] == 'const' else None for (_, _, kk, dd, dp) in tdefs]
                    if all(v == 0 for v in vals):
                        inits.append(dbb)
                    else:
                        other.append(dbb)
                    continue
                inc = bool(tdefs) and all(kk == 'assign' and dd['k'] == 'bin' and dd['op'] in ('AddWithOverflow', 'Add') and
                                          R.root(dd['ops'][0]) in (('m', F), ('l', F)) and (R.const_val(dd['ops'][1]) or 0) > 0
                                          for (_, _, kk, dd, _) in tdefs)
                (sets if inc else other).append(dbb)
            else:
                other.append(dbb)
        if other or not inits or not sets or F in R.escaped:
            continue
        # the event always sets the latch
        latched = True
        for (s_, t_, lab) in set_edges:
            r = cfg.reach(t_, cut_blocks=sets)
            if t_ not in sets and (r & (heads | exits)):
                latched = False
        if not latched:
            why = '%s is not assigned on every path after the event' % (b.local_name(F) or '_%d' % F)
            continue
        # tests "F still initial"
        init_edges = set()
        for bi in cfg.reachable():
            blk = b.blocks[bi]
            for st in blk['stmts']:
                rv = st['rv']
                if rv['k'] == 'bin' and rv['op'] in ('Eq', 'Ne') and not st['dst']['proj']:
                    ra, rb_ = R.root(rv['ops'][0]), R.root(rv['ops'][1])
                    isF = lambda r_: r_ in (('m', F), ('l', F))
                    zero = lambda r_: r_ == ('c', 0)
                    if (isF(ra) and zero(rb_)) or (isF(rb_) and zero(ra)):
                        oc = fl.outcomes(None, st['dst']['l'])
                        init_edges |= oc.get('true' if rv['op'] == 'Eq' else 'false', set())
                if rv['k'] == 'discr' and rv['p']['l'] == F and not rv['p']['proj']:
                    t = blk['term']
                    if t['k'] == 'switch' and t['on']['k'] != 'const' and t['on']['p']['l'] == st['dst']['l']:
                        listed = {v for v, _ in t['targets']}
                        for v, tgt in t['targets']:
                            if v == 0:
                                init_edges.add((bi, tgt, v))
                        if 0 not in listed:
                            init_edges.add((bi, t['otherwise'], 'otherwise'))
            t = blk['term']
            if t['k'] == 'switch' and t['on']['k'] != 'const' and not t['on']['p']['proj'] and b.local_ty(t['on']['p']['l']) == 'bool' \
               and R.root(t['on']) in (('m', F), ('l', F)):
                tr, fa = bool_edges(bi, t)
                init_edges |= fa
        if ranges.ty_range(ty):
            # ordering tests of the latch itself (`n > 0`, `n < 1`, ...): the zero side counts as "still initial"
            for bi in cfg.reachable():
                for st in b.blocks[bi]['stmts']:
                    rv = st['rv']
                    if rv['k'] == 'bin' and rv['op'] in ('Lt', 'Le', 'Gt', 'Ge') and not st['dst']['proj']:
                        ra, rb_ = R.root(rv['ops'][0]), R.root(rv['ops'][1])
                        if ra in (('m', F), ('l', F)) or rb_ in (('m', F), ('l', F)):
                            ze, _ = zero_test_edges(fl, lambda os_: True)
                            oc = fl.outcomes(None, st['dst']['l'])
                            init_edges |= {e for e in ze if e in (oc.get('true', set()) | oc.get('false', set()))}
        if init_edges and ok_blocks and all(cfg.edges_guard(init_edges, ob) for ob in ok_blocks):
            return F, 'latch %s' % (b.local_name(F) or '_%d' % F)
        why = 'the success return is not guarded by a test that %s is still at its initial value' % (b.local_name(F) or '_%d' % F)
    return None, why


PATH_IDENTITY = ('std::ffi::OsStr::to_owned', 'std::path::Path::as_os_str', 'std::path::PathBuf::from', 'std::convert::From::from',
                 'std::convert::Into::into', 'std::ops::Deref::deref', 'std::convert::AsRef::as_ref', 'std::borrow::ToOwned::to_owned',
                 'std::clone::Clone::clone', 'std::path::Path::to_path_buf', 'std::path::PathBuf::as_path', 'std::ffi::OsString::from',
                 'std::path::PathBuf::into_os_string', 'std::borrow::Borrow::borrow', 'std::ffi::OsString::as_os_str')
PATH_PUSHERS = ('std::ffi::OsString::push',)


def path_shape(F, fl, op, depth=0):
    """(bases, pushes) describing how a path-like operand is built: bases = {('param', i) | ('other', what)} it starts
    from, pushes = {str const | ('param', i) | ('other', what)} appended to its name with OsString::push.  Crate-local
    helpers (e.g. a `sibling(path, suffix)` extracted by a refactor) are evaluated from their own body with the call's
    arguments substituted, so helper extraction does not change the shape."""
    bases, pushes = set(), set()
    for o in fl.origins(op, mut_calls=True):
        if o.kind == 'param':
            bases.add(('param', o.key) if not o.path else ('other', 'field of param %s' % o.key))
        elif o.kind == 'const':
            bases.add(('const', o.key))
        elif o.kind == 'comb':
            continue
        elif o.kind == 'mutcall' and o.key in PATH_PUSHERS:
            t = fl.body.blocks[o.bb]['term']
            for a in fl.origins(t['args'][1]):
                if a.kind == 'const' and isinstance(a.key, str):
                    pushes.add(a.key)
                elif a.kind == 'param' and not a.path:
                    pushes.add(('param', a.key))
                elif a.kind == 'comb':
                    continue
                else:
                    pushes.add(('other', '%s %s' % (a.kind, a.key)))
        elif o.kind == 'mutcall':
            pushes.add(('other', 'mutated by %s' % o.key))
        elif o.kind == 'call' and o.key in PATH_IDENTITY:
            t = fl.body.blocks[o.bb]['term']
            b2, p2 = path_shape(F, fl, t['args'][0], depth)
            bases |= b2
            pushes |= p2
        elif o.kind == 'call' and F.body(o.key) is not None and depth < 3:
            cb = F.body(o.key)
            cfl = flow_of(cb)
            t = fl.body.blocks[o.bb]['term']
            b2, p2 = path_shape(F, cfl, 0, depth + 1)
            for x in b2:
                if x[0] == 'param' and x[1] - 1 < len(t['args']):
                    b3, p3 = path_shape(F, fl, t['args'][x[1] - 1], depth + 1)
                    bases |= b3
                    pushes |= p3
                else:
                    bases.add(x)
            for x in p2:
                if isinstance(x, tuple) and x[0] == 'param' and x[1] - 1 < len(t['args']):
                    for a in fl.origins(t['args'][x[1] - 1]):
                        if a.kind == 'const' and isinstance(a.key, str):
                            pushes.add(a.key)
                        elif a.kind != 'comb':
                            pushes.add(('other', '%s %s' % (a.kind, a.key)))
                else:
                    pushes.add(x)
        else:
            bases.add(('other', '%s %s' % (o.kind, o.key)))
    # with mut_calls the pushed operand also shows up among the origins of the mutated value: it is a suffix, not a base
    bases -= {('const', x) for x in pushes if isinstance(x, str)}
    pushed_params = {x for x in pushes if isinstance(x, tuple) and x[0] == 'param'}
    if pushed_params and len(bases) > 1:
        bases -= pushed_params
    return bases, pushes


def is_param_plus_suffix(F, fl, op, param, suffix):
    b, p = path_shape(F, fl, op)
    return b == {('param', param)} and p == {suffix}


def is_plain_param(F, fl, op, param):
    b, p = path_shape(F, fl, op)
    return b == {('param', param)} and not p


def fn_param_slot(F, body, o):
    """1-based parameter index of the enclosing top-level fn for a 'param' origin of that fn, or for an 'upvar' origin of
    an async block / closure nested in it (joined through the captured variable; the name is only the join key)."""
    top = body.path.split('::{')[0]
    tb = F.body(top)
    if o.kind == 'param' and body.path == top:
        return o.key
    if o.kind == 'upvar' and o.key is not None and tb is not None:
        # structurally: what the creating body captured for this upvar - a parameter of the enclosing fn, possibly through a
        # conversion (`src.to_path_buf()`, `.clone()`) and through several nesting levels
        slots = _capture_slots(F, body, int(o.key), 0)
        if slots is not None and len(slots) == 1:
            return list(slots)[0]
        name = body.upvars.get(int(o.key))
        if name:
            for i in range(1, tb.argc + 1):
                if tb.local_name(i) == name:
                    return i
    return None


_CAPTURE_CONV = ('to_path_buf', 'to_owned', 'clone', 'to_string', 'as_ref', 'deref', 'borrow', 'into', 'from', 'as_path', 'as_str', 'to_os_string', 'into_os_string')


def _capture_slots(F, body, k, depth):
    if depth > 5 or not body.parent:
        return None
    pb = F.body(body.parent)
    if pb is None:
        return None
    pfl = flow_of(pb)
    top = body.path.split('::{')[0]
    for blk in pb.blocks:
        for st in blk['stmts']:
            rv = st['rv']
            if rv['k'] == 'agg' and rv.get('ak') in ('closure', 'coroutine') and norm(rv.get('def')) == body.path and k < len(rv['ops']):
                out = set()
                work = [rv['ops'][k]]
                steps = 0
                while work and steps < 30:
                    steps += 1
                    op = work.pop()
                    for x in pfl.origins(op):
                        if x.kind == 'comb':
                            continue
                        if x.kind == 'param' and pb.path == top:
                            out.add(x.key)
                        elif x.kind == 'upvar' and x.key is not None:
                            sub = _capture_slots(F, pb, int(x.key), depth + 1)
                            if sub is None:
                                return None
                            out |= sub
                        elif x.kind == 'call' and x.bb is not None and str(x.key).split('::')[-1] in _CAPTURE_CONV and pb.blocks[x.bb]['term']['args']:
                            work.append(pb.blocks[x.bb]['term']['args'][0])
                        else:
                            return None
                return out or None
    return None


def param_slots(F, body, os_):
    """{slots} when every (non-combinator) origin is a parameter of the enclosing fn, else None."""
    out = set()
    os_ = [o for o in os_ if o.kind != 'comb']
    if not os_:
        return None
    for o in os_:
        s_ = fn_param_slot(F, body, o)
        if s_ is None:
            return None
        out.add(s_)
    return out


def params_of_type(F, body, pred):
    """slots of the enclosing top-level fn whose declared type satisfies pred(type string)"""
    tb = F.body(body.path.split('::{')[0])
    return [i for i in range(1, (tb.argc if tb else 0) + 1) if pred(tb.local_ty(i))]


def _strip_ty(ty):
    ty = (ty or '').strip()
    while ty.startswith('&'):
        ty = ty[1:].strip()
        if ty.startswith("'"):
            ty = ty.split(' ', 1)[1] if ' ' in ty else ty
        if ty.startswith('mut '):
            ty = ty[4:].strip()
    return ty


def origin_value_type(F, body, o):
    """type of the value an origin denotes when it is a parameter or a field (of a field ...) of a struct parameter"""
    if o.kind != 'param':
        return None
    ty = _strip_ty(body.local_ty(o.key))
    for f in o.path:
        base = ty.split('<')[0]
        if base == 'std::option::Option' and f == '0':
            ty = _strip_ty(ty[ty.index('<') + 1:ty.rindex('>')])
            continue
        adt = F.adts.get(base)
        if not adt or not adt.get('variants'):
            return None
        fld = next((x for x in adt['variants'][0]['fields'] if x['name'] == f), None)
        if fld is None:
            return None
        ty = _strip_ty(fld['ty'])
    return ty


def request_value(F, body, os_, ty):
    """every origin is a parameter - or a field of a struct parameter (grouped request header) - of type `ty`"""
    os_ = [o for o in os_ if o.kind != 'comb']
    want = ty.replace(' ', '')
    return bool(os_) and all(o.kind == 'param' and (origin_value_type(F, body, o) or '').replace(' ', '') == want for o in os_)


def zero_test_edges(fl, is_value):
    """(zero_edges, nonzero_edges): the CFG edges on which an unsigned value v (operands whose origins satisfy is_value) is
    known to be == 0 / != 0, whatever comparison and operand order the code uses (v == 0, 0 != v, v > 0, 0 < v, v < 1, ...)"""
    zero, nonzero = set(), set()
    b = fl.body

    def cst(op):
        os_ = [o for o in fl.origins(op) if o.kind != 'comb']
        if os_ and all(o.kind == 'const' and isinstance(o.key, int) for o in os_) and len({o.key for o in os_}) == 1:
            return os_[0].key
        return None
    for bi in fl.cfg.reachable():
        for st in b.blocks[bi]['stmts']:
            rv = st['rv']
            if rv['k'] != 'bin' or rv['op'] not in ('Eq', 'Ne', 'Lt', 'Le', 'Gt', 'Ge') or st['dst']['proj']:
                continue
            a, c = rv['ops']
            op = rv['op']
            if is_value(fl.origins(a)) and cst(c) is not None:
                k = cst(c)
            elif is_value(fl.origins(c)) and cst(a) is not None:
                k = cst(a)
                op = {'Lt': 'Gt', 'Gt': 'Lt', 'Le': 'Ge', 'Ge': 'Le'}.get(op, op)      # k ? v  ->  v ?' k
            else:
                continue
            # truth of (v op k) when v == 0, and whether (v op k) is constant for all v != 0
            on_zero = {'Eq': 0 == k, 'Ne': 0 != k, 'Lt': 0 < k, 'Le': 0 <= k, 'Gt': 0 > k, 'Ge': 0 >= k}[op]
            if k == 0 and op in ('Eq', 'Ne', 'Gt', 'Le'):
                pass
            elif k == 1 and op in ('Lt', 'Ge'):
                pass
            else:
                continue
            oc = fl.outcomes(None, st['dst']['l'])
            t_e, f_e = oc.get('true', set()), oc.get('false', set())
            if on_zero:
                zero |= t_e
                nonzero |= f_e
            else:
                zero |= f_e
                nonzero |= t_e
        # `match v { 0 => .., n => .. }`: a switch on the value itself
        t = b.blocks[bi]['term']
        if t['k'] == 'switch' and t['on']['k'] != 'const' and not t['on']['p']['proj'] and \
                b.local_ty(t['on']['p']['l']) in ('usize', 'u64', 'u32', 'u16', 'u8', 'i64', 'i32', 'isize') and is_value(fl.origins(t['on'])):
            listed = {v for v, _ in t['targets']}
            for v, tgt in t['targets']:
                (zero if v == 0 else nonzero).add((bi, tgt, v))
            if 0 in listed:
                nonzero.add((bi, t['otherwise'], 'otherwise'))
    return zero, nonzero


def counted_event(fl, event_edges, ok_blocks):
    """Origin-based form of the latch rule (works through struct fields, destructuring and renames): every path after an
    edge in `event_edges` performs a checked/plain `+ c` (c > 0) whose result is what some later `== 0`-style test examines,
    and every block in `ok_blocks` is reachable only on the zero side of such a test.  Returns (ok, why)."""
    b, cfg = fl.body, fl.cfg
    heads = set(cfg.loops().keys())
    exits = set(cfg.exits())
    # increments located behind the event
    marks = set()
    for bi in cfg.reachable():
        if not cfg.edges_guard(event_edges, bi):
            continue
        for st in b.blocks[bi]['stmts']:
            rv = st['rv']
            if rv['k'] == 'bin' and rv['op'] in ('AddWithOverflow', 'Add') and rv['ops'][1]['k'] == 'const' and (rv['ops'][1].get('v') or 0) > 0:
                marks.add(bi)
    if not marks:
        return False, 'nothing is counted on the path after the event'
    for (s_, t_, lab) in event_edges:
        r = cfg.reach(t_, cut_blocks=marks)
        if t_ not in marks and (r & (heads | exits)):
            return False, 'the event can pass without being counted'

    def is_value(os_):
        os_ = [o for o in os_ if o.kind != 'comb']
        if not any(o.kind == 'op' and o.bb in marks for o in os_):
            return False
        # everything else that can flow into the tested value is an initial zero / default or another count of the same kind
        return all((o.kind == 'op' and 'Add' in str(o.key)) or (o.kind == 'const' and isinstance(o.key, (int, bool))) or
                   (o.kind == 'call' and str(o.key).endswith('Default::default')) or (o.kind == 'agg') for o in os_)
    z_e, nz_e = zero_test_edges(fl, is_value)
    if not z_e:
        return False, 'no test of the count against zero'
    if not all(cfg.edges_guard(z_e, ob) for ob in ok_blocks):
        return False, 'a success return is reachable without the count having been found zero'
    return True, 'count behind the event, tested against zero before every success return'


WHOLE_ITER = ('iter', 'into_iter', 'by_ref', 'enumerate', 'keys', 'into_keys', 'iter_mut', 'deref', 'as_slice', 'as_ref', 'borrow')


def iterated_collection(fl, next_bb):
    """origins of the collection an `Iterator::next` call walks, through adaptors that keep every element
    (`for x in v`, `v.iter()`, `(&v).into_iter()`, `.enumerate()`, `.keys()`); other adaptors are returned as they are"""
    b = fl.body
    out, work, seen = set(), [b.blocks[next_bb]['term']['args'][0]], set()
    for _ in range(10):
        nxt = []
        for op in work:
            for o in fl.origins(op):
                k = (o.kind, o.key, o.bb, tuple(o.path))
                if k in seen:
                    continue
                seen.add(k)
                if o.kind == 'call' and str(o.key).split('::')[-1] in WHOLE_ITER and o.bb is not None:
                    nxt.append(b.blocks[o.bb]['term']['args'][0])
                else:
                    out.add(o)
        work = nxt
        if not work:
            break
    return out


def prepared_list(fl, next_bb):
    """The loop whose `Iterator::next` is in block next_bb walks a local collection that this body filled beforehand by
    `push` (a plan / work list): returns the push sites [(bb, term)], else []"""
    coll = [o for o in iterated_collection(fl, next_bb) if o.kind != 'comb']
    if not coll or any(o.kind in ('param', 'upvar') for o in coll):
        return []
    keys = {(o.kind, str(o.key), o.bb) for o in coll if o.kind in ('call', 'agg')}
    if not any(k[0] == 'call' and k[1].split('::')[-1] in ('new', 'with_capacity', 'default') for k in keys):
        return []
    out = []
    for pb, pt in fl.calls(lambda c: c.split('::')[-1] in ('push', 'push_back', 'insert') and ('Vec' in c or 'VecDeque' in c)):
        if {(o.kind, str(o.key), o.bb) for o in fl.origins(pt['args'][0]) if o.kind in ('call', 'agg')} & keys:
            out.append((pb, pt))
    return out


def batched_renames(fl):
    """[(rename bb, next bb, type of the collection walked)]: a `rename` inside a loop that walks a collection this body
    filled beforehand (deliveries are staged into a container and published together).  The ORDER of publication is then the
    order the container iterates in."""
    b = fl.body
    loops = fl.cfg.loops()
    out = []
    for rb, rt in fl.calls(lambda c: c.endswith('fs::rename')):
        for nb, nt in fl.calls_to('std::iter::Iterator::next'):
            if not any(rb in bl and nb in bl for bl in loops.values()):
                continue
            # walk back through the adaptors to the collection local
            cur, ty, hops = nt['args'][0], None, 0
            seen_ = set()
            work = [cur]
            while work and hops < 12:
                hops += 1
                op = work.pop()
                if op['k'] == 'const':
                    continue
                for o in fl.origins(op):
                    k_ = (o.kind, str(o.key), o.bb)
                    if k_ in seen_:
                        continue
                    seen_.add(k_)
                    last = str(o.key).split('::')[-1]
                    if o.kind == 'call' and o.bb is not None and (last in WHOLE_ITER or last in ('values', 'into_values', 'values_mut', 'drain')):
                        a0 = b.blocks[o.bb]['term']['args'][0]
                        if a0['k'] != 'const':
                            t0 = b.local_ty(a0['p']['l']).replace('&', '').replace('mut ', '').strip()
                            if re.match(r'^(std|alloc)::(collections|vec)::', t0):
                                ty = t0
                            work.append(a0)
                    elif o.kind in ('call', 'agg') and o.bb is not None and last in ('new', 'with_capacity', 'default'):
                        pass
            if ty is None:
                for o in iterated_collection(fl, nb):
                    if o.kind in ('param', 'upvar'):
                        ty = None
                        break
                if prepared_list(fl, nb):
                    ty = 'std::vec::Vec'
            if ty is not None:
                # filled in this body?
                filled = fl.calls(lambda c: c.split('::')[-1] in ('push', 'push_back', 'insert', 'extend') and any(x in c for x in ('Vec', 'BTreeMap', 'BTreeSet', 'HashMap', 'HashSet', 'VecDeque')))
                if filled:
                    out.append((rb, nb, ty))
    return out


def order_edges(fl, is_a, is_b, strict=False):
    """CFG edges on which a <= b (strict: a < b) is known, for operands recognised by the predicates is_a / is_b on
    *operands* (op dicts), whatever comparison operator and operand order the code uses:
        a <= b true | b >= a true | a > b false | b < a false        (non-strict)
        a <  b true | b >  a true | a >= b false | b <= a false      (strict; these also imply a <= b)"""
    out = set()
    b = fl.body
    for bi in fl.cfg.reachable():
        for st in b.blocks[bi]['stmts']:
            rv = st['rv']
            if rv['k'] != 'bin' or rv['op'] not in ('Lt', 'Le', 'Gt', 'Ge') or st['dst']['proj']:
                continue
            x, y = rv['ops']
            op = rv['op']
            if is_a(x) and is_b(y):
                pass
            elif is_a(y) and is_b(x):
                op = {'Lt': 'Gt', 'Gt': 'Lt', 'Le': 'Ge', 'Ge': 'Le'}[op]      # (b op a)  ==  (a op' b)
            else:
                continue
            # now the statement reads  a op b
            oc = fl.outcomes(None, st['dst']['l'])
            if op == 'Lt':
                out |= oc.get('true', set())
            elif op == 'Ge':
                out |= oc.get('false', set())
            elif op == 'Le' and not strict:
                out |= oc.get('true', set())
            elif op == 'Gt' and not strict:
                out |= oc.get('false', set())
    return out



# ---------------------------------------------------------------- symbolic strings
STR_CONV = ('to_owned', 'to_os_string', 'to_path_buf', 'into_os_string', 'as_os_str', 'from', 'into', 'clone', 'as_ref', 'as_path', 'deref', 'borrow',
            'to_string', 'as_str', 'display', 'to_string_lossy', 'into_owned', 'into_string', 'as_mut_os_string')


def str_pieces(F, fl, op, leaf, depth=0):
    """The text an operand holds, as a list of pieces: literal `str`s and the results of `leaf(fl, operand)` for the values
    spliced in.  `format!` (template from the fact file, arguments from MIR), `to_string()` / `display()` / `to_owned()` style
    conversions and string constants are looked through; `leaf` classifies what remains (None -> ('?', description))."""
    A = fl.body
    v = const_val(op)
    if isinstance(v, str):
        return [v]
    if op['k'] == 'const':
        return [('?', 'constant')]
    got = leaf(fl, op)
    if got is not None:
        return [got]
    os_ = [o for o in fl.origins(op) if o.kind != 'comb']
    if len(os_) == 1 and os_[0].kind == 'const' and isinstance(os_[0].key, str):
        return [os_[0].key]
    if len(os_) == 1 and os_[0].kind == 'call' and os_[0].bb is not None and depth < 8:
        o = os_[0]
        t = A.blocks[o.bb]['term']
        last = o.key.split('::')[-1]
        if o.key in ('std::fmt::format', 'alloc::fmt::format'):
            from shtemplate import Templates
            site = Templates(F).site_of_call(A, o.bb)
            if site is None:
                return [('?', 'format site')]
            argops = format_arg_operands(fl, t)
            out = []
            for p_ in site['pieces']:
                if isinstance(p_, str):
                    out.append(p_)
                elif argops is None or not (0 <= p_['arg'] < len(argops)) or argops[p_['arg']] is None:
                    out.append(('?', 'format argument'))
                elif p_.get('trait') not in (None, 'Display') or p_.get('width', -1) not in (-1, None):
                    out.append(('?', 'formatted with %s' % p_.get('trait')))
                else:
                    out.extend(str_pieces(F, fl, argops[p_['arg']], leaf, depth + 1))
            return out
        if last in STR_CONV and t['args'] and t['args'][0]['k'] != 'const':
            return str_pieces(F, fl, t['args'][0], leaf, depth + 1)
    return [('?', root_name(fl, op))]


def merge_pieces(pieces):
    out = []
    for x in pieces:
        if isinstance(x, str) and out and isinstance(out[-1], str):
            out[-1] += x
        elif x != '':
            out.append(x)
    return out


def format_arg_operands(fl, fmt_term):
    """operands x of `Argument::new_display(&x)` in argument order for a `format(Arguments::new(template, &[..]))` call; None if the shape is unknown"""
    A = fl.body
    for o in fl.origins(fmt_term['args'][0]):
        if o.kind != 'call' or 'Arguments' not in o.key or o.bb is None:
            continue
        at = A.blocks[o.bb]['term']
        for arg in at['args'][1:]:
            for ao in fl.origins(arg):
                if ao.kind == 'agg' and ao.key == 'array' and ao.bb is not None:
                    for st in A.blocks[ao.bb]['stmts']:
                        if st['rv']['k'] == 'agg' and st['rv'].get('ak') == 'array':
                            res = {}
                            for el in st['rv']['ops']:
                                eo = [x for x in fl.origins(el) if x.kind == 'call' and 'Argument' in x.key and x.bb is not None]
                                if len(eo) != 1:
                                    return None
                                # `Argument::new_display(&*(args.i))`: i is the index of the argument in the macro call
                                ref = A.blocks[eo[0].bb]['term']['args'][0]
                                ds = fl.defs.get(ref['p']['l'], []) if ref['k'] != 'const' else []
                                f = None
                                if len(ds) == 1 and ds[0][2] == 'assign' and ds[0][3]['k'] == 'ref':
                                    f = next((pr['f'] for pr in ds[0][3]['p']['proj'] if isinstance(pr, dict) and 'f' in pr), None)
                                if f is None:
                                    return None
                                res[f] = deref_operand(fl, ref)
                            return [res.get(i) for i in range(max(res) + 1)] if res else []
        if len(at['args']) == 1:
            return []
    return None


def deref_operand(fl, op):
    """`&x` / `&*(&x)` / `&(*tuple.i)` -> the operand for x (single definitions only)"""
    A = fl.body
    cur = op
    for _ in range(8):
        if cur['k'] == 'const':
            return cur
        l, proj = cur['p']['l'], cur['p']['proj']
        if proj and proj != ['deref']:
            # (tuple.i) possibly dereferenced: the element the tuple was built with
            f = next((pr['f'] for pr in proj if isinstance(pr, dict) and 'f' in pr), None)
            ds = [d for d in fl.defs.get(l, []) if d[2] == 'assign' and d[3]['k'] == 'agg']
            if f is None or len(ds) != 1 or f >= len(ds[0][3]['ops']):
                return cur
            cur = ds[0][3]['ops'][f]
            continue
        ds = fl.defs.get(l, [])
        if len(ds) != 1 or ds[0][2] != 'assign':
            return {'k': 'copy', 'p': {'l': l, 'proj': []}}
        data = ds[0][3]
        if data['k'] == 'ref' and not [pr for pr in data['p']['proj'] if pr != 'deref']:
            nxt = {'k': 'copy', 'p': {'l': data['p']['l'], 'proj': []}}
            if A.local_name(data['p']['l']) or not fl.defs.get(data['p']['l']) or fl.defs[data['p']['l']][0][2] != 'assign':
                return nxt
            cur = nxt
        elif data['k'] == 'ref':
            cur = {'k': 'copy', 'p': data['p']}
        elif data['k'] == 'use' and data['ops'][0]['k'] != 'const' and not A.local_name(l):
            cur = data['ops'][0]
        else:
            return {'k': 'copy', 'p': {'l': l, 'proj': []}}
    return cur





# ---------------------------------------------------------------- what a closure parameter receives
def closure_actuals(F, cbody, k):
    """[(body, operand)] the k-th argument (1-based, not counting the environment) of closure `cbody` can receive, when the
    closure literal is handed to a crate-local function that calls it: the literal's creation site is found in the parent,
    the parameter of the callee it is passed for, and the `Fn::call*` sites on that parameter inside the callee.
    None when the closure escapes in a way this does not follow."""
    parent = F.body(cbody.parent) if cbody.parent else None
    if parent is None:
        return None
    pfl = flow_of(parent)
    out = []
    found = False
    for bb, t in pfl.calls(lambda c: True):
        c = callee(t)
        for ai, a in enumerate(t['args']):
            if a['k'] == 'const':
                continue
            if not any(o.kind == 'agg' and o.key == cbody.path for o in pfl.origins(a)):
                continue
            found = True
            g = F.body(callee_resolved(t) or c) or F.body(c)
            if g is None:
                return None         # handed to code we do not see (std adaptors are handled by the normalisation passes)
            for gb in F.nested(g.path):
                gfl = flow_of(gb)
                for cb, ct in gfl.calls(lambda c2: c2 in ('std::ops::Fn::call', 'std::ops::FnMut::call_mut', 'std::ops::FnOnce::call_once')):
                    ro = [o for o in gfl.origins(ct['args'][0]) if o.kind != 'comb']
                    if gb.path == g.path and ro and all(o.kind == 'param' and o.key == ai + 1 for o in ro):
                        tup = ct['args'][1]
                        if tup['k'] == 'const' or tup['p']['proj']:
                            return None
                        out.append((gb, {'k': 'copy', 'p': {'l': tup['p']['l'], 'proj': [{'f': k - 1, 'name': '', 'ty': ''}]}}))
    return out if found and out else None



# ---------------------------------------------------------------- staging names, buffered writers
STAGING_SUFFIXES = ('.copia-tmp', '.tmp')


def is_staging_name(F, fl, op):
    """a path that is `<something> + ".copia-tmp"` (the reserved staging suffix appended to another path's name)"""
    b_, p_ = path_shape(F, fl, op)
    return bool(b_) and bool(p_) and all(isinstance(x, str) and x in STAGING_SUFFIXES for x in p_) and not any(x[0] == 'const' for x in b_)


def body_types(b):
    """every type that occurs in the body: locals and the field types named in projections"""
    out = {b.local_ty(i) for i in range(len(b.locals))}
    for blk in b.blocks:
        ops = []
        for st in blk['stmts']:
            ops.append(st['dst'])
            if 'p' in st['rv']:
                ops.append(st['rv']['p'])
            ops.extend(o['p'] for o in st['rv'].get('ops', []) if 'p' in o)
        t = blk['term']
        ops.extend(a['p'] for a in t.get('args', []) if 'p' in a)
        for pl in ops:
            for e in pl['proj']:
                if isinstance(e, dict) and e.get('ty'):
                    out.add(e['ty'])
    return out


def buffered_writer_flushed_before(fl, target_bb):
    """None when the body holds no `BufWriter<..File..>`; else True iff a `flush()` / `into_inner()` of a buffered writer returned
    Ok on every way to `target_bb`.  (Bytes still in a BufWriter reach the file when it is dropped - after whatever the function
    did in between, e.g. the rename that publishes the file.)"""
    b = fl.body
    if not any('BufWriter<' in ty and 'File' in ty for ty in body_types(b)):
        return None
    fl_calls = []
    for fb, ft in fl.calls(lambda c: c.endswith('Write::flush') or c.endswith('BufWriter::<W>::into_inner') or c.endswith('::into_inner') or c.endswith('into_parts')
                           or c.endswith('AsyncWriteExt::flush') or c.endswith('AsyncWriteExt::shutdown')):
        a0 = ft['args'][0] if ft['args'] else None
        ty = ''
        if a0 is not None and a0['k'] != 'const':
            ty = b.local_ty(a0['p']['l']) if not [e for e in a0['p']['proj'] if e != 'deref'] else ' '.join(e.get('ty', '') for e in a0['p']['proj'] if isinstance(e, dict))
            cr = chase_root(fl, a0)
            if cr is not None:
                ty += ' ' + b.local_ty(cr[0]) + ' ' + ' '.join(e.get('ty', '') for e in cr[1] if isinstance(e, dict))
        if 'BufWriter' in ty or 'BufWriter' in (callee(ft) or ''):
            fl_calls.append(fb)
    for fb in fl_calls:
        oc = fl.outcomes(fb)
        if oc.get('Ok') and fl.cfg.edges_guard(oc['Ok'], target_bb):
            return True
    return False


def write_adaptors_forward_flush(ctx, F, rid, files=None):
    """A crate-local `impl Write for X` whose write() hands the bytes to an inner writer (a field of self) is a pipe: its flush()
    must reach that same inner writer, or a buffered sink below it keeps its tail after the caller has "flushed" - and writes
    it when the value is dropped, i.e. after whatever the caller did next (fsync, rename)."""
    n = 0
    for p, wb in sorted(F.bodies.items()):
        if not (p.startswith('<') and p.endswith(' as std::io::Write>::write')):
            continue
        if files and not any(wb.file.endswith(f_) for f_ in files):
            continue
        wfl = flow_of(wb)
        inner = set()
        for cb, ct in wfl.calls(lambda c: c in ('std::io::Write::write', 'std::io::Write::write_all', 'std::io::Write::write_vectored')):
            for o in wfl.origins(ct['args'][0]):
                if o.kind == 'param' and o.key == 1 and o.path:
                    inner.add(tuple(e for e in o.path if not e.startswith('@'))[:1])
        if not inner:
            continue
        fb = F.body(p[:-len('write')] + 'flush')
        n += 1
        key = '%s:flush-reaches-the-inner-writer' % p.split(' as ')[0].lstrip('<').split('::')[-1]
        if fb is None:
            ctx.undecided(rid, '%s: the flush of this Write adaptor was not found' % key)
            continue
        ffl = flow_of(fb)
        reached = set()
        for cb, ct in ffl.calls(lambda c: c == 'std::io::Write::flush'):
            for o in ffl.origins(ct['args'][0]):
                if o.kind == 'param' and o.key == 1 and o.path:
                    reached.add(tuple(e for e in o.path if not e.startswith('@'))[:1])
        ctx.check(inner <= reached, rid, key, 'flush() calls flush() of the field write() writes to',
                  'this Write adaptor passes the bytes on to its inner writer but its flush() does not flush that writer: a BufWriter underneath keeps '
                  'its tail in memory after the caller flushed and synced, and writes it on drop - after the file was renamed into place', loc(fb, fb.lo))
    return n


def removes_own_staging(F, body, op):
    """`remove_file(self.path)` of a crate struct that was built around a file it created: some constructor of that struct fills
    the field from the very value a content creator / open-for-write in the same function was given.  (The clean-up half of a
    staging handle: what is removed is what this code created, never a file of the plan.)"""
    import tables
    fl = flow_of(body)
    hits = []
    for o in fl.origins(op):
        fields = [e for e in o.path if not e.startswith('@')]
        if o.kind not in ('param', 'upvar') or not fields:
            continue
        ty = None
        if o.kind == 'param':
            ty = body.local_ty(o.key)
        elif o.key is not None:
            # the captured value is moved into a local of the same name at the top of an async fn's body
            name = body.upvars.get(int(o.key))
            for i in range(len(body.locals)):
                if name and body.local_name(i) == name:
                    ty = body.local_ty(i)
                    break
        if not ty:
            return False
        T = re.sub(r"<.*$", '', ty.replace('&', '').replace('mut ', '').strip())
        if T not in F.adts:
            return False
        hits.append((T, fields[0]))
    if not hits:
        return False
    for T, f in hits:
        found = False
        for p, cb in F.bodies.items():
            cfl = None
            for blk in cb.blocks:
                for st in blk['stmts']:
                    rv = st['rv']
                    if rv['k'] == 'agg' and rv.get('ak') == 'adt' and norm(rv.get('adt') or '') == T and f in (rv.get('fields') or []):
                        cfl = cfl or flow_of(cb)
                        fop = rv['ops'][rv['fields'].index(f)]
                        slots = param_slots(F, cb, cfl.origins(fop))
                        if not slots:
                            continue
                        top = cb.path.split('::{')[0]
                        for q, qb in F.bodies.items():
                            if q.split('::{')[0] != top:
                                continue
                            qfl = flow_of(qb)
                            for kb, kt in qfl.calls(lambda c: c in tables.CONTENT_CREATORS):
                                pos = tables.CONTENT_CREATORS[callee(kt)]
                                if pos < len(kt['args']) and param_slots(F, qb, qfl.origins(kt['args'][pos])) == slots:
                                    found = True
        if not found:
            return False
    return True


def chosen_by_bounded_search(fl, op, depth=0, seen=None):
    """the value is (also) what a search over a bounded range hands back - `(0..N).map(name).find(free).unwrap_or_else(|| name(N))`,
    fused or not: its origins include an iterator search call, or a counter drawn from a `Range` iterator"""
    seen = seen if seen is not None else set()
    if depth > 8 or op['k'] == 'const':
        return False
    b = fl.body
    for o in fl.origins(op, mut_calls=True):
        k = (o.kind, str(o.key), o.bb)
        if k in seen or o.bb is None or o.kind not in ('call', 'mutcall'):
            continue
        seen.add(k)
        c = str(o.key)
        t = b.blocks[o.bb]['term']
        if c in ('std::iter::Iterator::find', 'std::iter::Iterator::find_map', 'std::iter::Iterator::position'):
            return True
        if c == 'std::iter::Iterator::next' and t.get('args'):
            if any(x.kind == 'agg' and str(x.key).startswith('std::ops::Range') for x in fl.origins(t['args'][0])):
                return True
        for a in t.get('args', []):
            if chosen_by_bounded_search(fl, a, depth + 1, seen):
                return True
    return False


class RidProxy:
    """runs another property's rule function under this property's rule id: every rule-id argument is translated"""

    def __init__(self, ctx, mapping):
        self._ctx, self._map = ctx, mapping

    def __getattr__(self, name):
        target = getattr(self._ctx, name)
        if not callable(target):
            return target
        mp = self._map

        def call(*a, **k):
            a = tuple(mp.get(x, x) if isinstance(x, str) else x for x in a)
            return target(*a, **k)
        return call
