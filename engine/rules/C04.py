"""C04 — recursive one-way sync delivers exactly its plan (DESIGN §7 C04)."""
from rules.common import *  # noqa: F401,F403
from rules.oneway import Effects, RUN_REC, RUN_LOCAL, RUN_REMOTE
from rules import C15, C14
from callgraph import callgraph_of
from terms import term_of, strip_payload
from flow import ENUMS
import shell
import shtemplate
import tables

CONFIGS = ['cli']
LEVEL = 'other'
EXPLANATION = (
    'Decides: (R1) deliveries are generated from plan.transfer and only from it - each task gets src.join(rel) / dst.join(rel) (or remote_root/rel) built from the '
    'same loop entry and the source mtime of that entry; deletes come from plan.delete; (R2) every file-system mutation reachable from run_sync_recursive lands on a '
    'path rooted at the destination (or its staging sibling), never the source; in run_remote local mutations happen only in the Pull direction and mutating remote '
    'commands only in the Push direction; (R4) each delivery result reaches record_ok on Ok and record_err on Err, report() fails iff failed() > 0 and its result is '
    'the run\'s result; (R5) no result of a mutating step is discarded; (R6) every hole of every remote shell template sits inside $\'..\' and is fed by the '
    'escaper in the right order (backslash, then quote) or is integer typed, and lists written to a remote xargs are NUL-delimited; (R7) direction dispatch: '
    '(Local,Remote) -> push with the local path as source, (Remote,Local) -> pull, (Local,Local) -> run_local(from,to), (Remote,Remote) -> error; FileLocation::parse '
    'yields Remote only for a >1-char, separator-free prefix before the first colon; (R8) the remote listing is returned only under the success edge of the listing command\'s exit status (a partial listing is never taken for the tree). (R10) the membership conditions of build_plan and the exclusion predicate they use (= C19.R1, R3: is_excluded dispatch, glob_match metacharacters and step function): transfer = not excluded and needs_transfer, delete = with_delete and absent from the source and not excluded, whole-map walks; (R9) the mtime a delivery stamps is a pure copy of the source metadata mtime of the same plan entry (the C14.R2 rule; a mapping function item is judged like a mapping closure). R1 also: a local delivery that fills the staging file with chunk-wise writes of its own instead of fs::copy / io::copy is not decided. Not decided: the end state of the trees; independence from task completion order.')
ASSUMPTIONS = ['POSIX sh quoting of $\'..\' with \\\\ and \\\' escapes; xargs -0 splits on NUL only']

REMOVERS = ('std::fs::remove_file', 'tokio::fs::remove_file')


def run(ctx):
    F = ctx.F['cli']
    ctx.rule('C04.R1', 'plan -> effect: deliveries from plan.transfer with paths and mtime of the same entry; deletes from plan.delete', floor=6)
    ctx.rule('C04.R9', 'the mtime a delivery stamps on the destination is the source metadata mtime of the same plan entry (pure copy chain; = C14.R2)', floor=3)
    ctx.rule('C04.R2', 'effects land under the destination root only; direction guards in run_remote', floor=6)
    ctx.rule('C04.R4', 'failure accounting: record_ok / record_err on both arms; report() Err iff failed() > 0; run returns report()', floor=5)
    ctx.rule('C04.R5', 'no result of a mutating step is discarded', floor=5)
    ctx.rule('C04.R6', 'remote shell templates: holes quoted+escaped or integer; xargs lists NUL-delimited', floor=7)
    ctx.rule('C04.R7', 'direction dispatch and host:path parsing', floor=5)
    ctx.rule('C04.R8', 'the remote listing is used only when the listing command succeeded (a partial listing is never taken for the tree)', floor=1)
    eff = Effects(F)
    ctx.attempt(r1, ctx, F)
    ctx.attempt(whole_file_copy, ctx, F)
    ctx.attempt(C15.delete_sources, ctx, F, 'C04.R1')
    ctx.attempt(C14.r2, ctx, F, 'C04.R9')
    # the plan itself: which files are sent / skipped / deleted is part of this property's statement (= C19.R1)
    from rules import C19
    ctx.attempt(C19.plan_rules, ctx, F, 'C04.R10')
    ctx.attempt(C19.excluded_rules, ctx, F, 'C04.R10')
    ctx.attempt(C19.glob_rules, ctx, F, 'C04.R10')
    ctx.attempt(r2, ctx, F, eff)
    ctx.attempt(r4, ctx, F)
    ctx.attempt(r5, ctx, F, eff)
    ctx.attempt(r6, ctx, F)
    ctx.attempt(r7, ctx, F)
    ctx.attempt(r8, ctx, F)


def capture_origins(F, body, op):
    """origins of `op` with closure/coroutine captures resolved into the creating body: {(body, Origin)}"""
    fl = flow_of(body)
    out = set()
    for o in fl.origins(op):
        if o.kind == 'upvar' and o.key is not None and body.parent:
            pb = F.body(body.parent)
            found = False
            for blk in pb.blocks:
                for st in blk['stmts']:
                    rv = st['rv']
                    if rv['k'] == 'agg' and rv.get('ak') in ('closure', 'coroutine') and norm(rv['def']) == body.path and int(o.key) < len(rv['ops']):
                        out |= capture_origins(F, pb, rv['ops'][int(o.key)])
                        found = True
            if not found:
                out.add((body, o))
        else:
            out.add((body, o))
    return out


def r1(ctx, F):
    specs = [
        (RUN_LOCAL, 'incremental::deliver_local', {0: ('join', 'src'), 1: ('join', 'dst')}),
        (RUN_REMOTE, 'transfer::transfer_file_to_remote', {0: ('join', 'local_root'), 2: ('fmt', 'remote_root')}),
        (RUN_REMOTE, 'incremental::deliver_pull', {1: ('fmt', 'remote_root'), 2: ('join', 'local_root')}),
    ]
    for fn, callee_path, argspec in specs:
        found = False
        for body in F.nested(fn):
            fl = flow_of(body)
            for cb, ct in fl.calls_to(callee_path):
                found = True
                ok = True
                why = []
                derived = []
                for ai, (shape, rootname) in argspec.items():
                    cos = capture_origins(F, body, ct['args'][ai])
                    good = bool(cos)
                    for pb, o in cos:
                        pfl = flow_of(pb)
                        if shape == 'join':
                            if not (o.kind == 'call' and o.key == 'std::path::Path::join'):
                                good = False
                                continue
                            a0 = pfl.origins(pb.blocks[o.bb]['term']['args'][0])
                            a1 = pfl.origins(pb.blocks[o.bb]['term']['args'][1])
                            root_ok = all((x.kind == 'upvar' and canon(F, pb, pb.upvars.get(int(x.key))) == rootname) or (x.kind == 'param' and canon(F, pb, pb.local_name(x.key)) == rootname) for x in a0) and bool(a0)
                            rel_ok = bool(a1) and all(x.kind == 'call' and x.key == 'std::iter::Iterator::next' for x in a1) and from_plan_transfer(pfl, a1)
                            if root_ok and not rel_ok and a1 and all(x.kind == 'call' and x.key == 'std::iter::Iterator::next' for x in a1) and derived_work_list(F, pfl, a1):
                                derived.append(ai)
                            good = good and root_ok and rel_ok
                        else:
                            # "<remote_root>/<rel>": evaluated symbolically from the values the string is built of (any spelling:
                            # format!("{}/{}", root, rel.display()), inline arguments, a pre-rendered rel_disp, ...)
                            def leaf(fl_, op_, _pb=pb):
                                os_ = [x for x in fl_.origins(op_) if x.kind != 'comb']
                                if os_ and all((x.kind == 'upvar' and canon(F, _pb, _pb.upvars.get(int(x.key))) == rootname) or
                                               (x.kind == 'param' and canon(F, _pb, _pb.local_name(x.key)) == rootname) for x in os_):
                                    return ('root',)
                                if os_ and all(x.kind == 'call' and x.key == 'std::iter::Iterator::next' for x in os_) and from_plan_transfer(fl_, os_):
                                    return ('rel',)
                                if os_ and all(x.kind == 'call' and x.key == 'std::iter::Iterator::next' for x in os_) and derived_work_list(F, fl_, os_):
                                    return ('rel?',)
                                return None
                            if not (o.kind == 'call' and o.bb is not None):
                                good = False
                                continue
                            pcs = merge_pieces(str_pieces(F, pfl, {'k': 'copy', 'p': pb.blocks[o.bb]['term']['dst']}, leaf))
                            if pcs == [('root',), '/', ('rel?',)]:
                                derived.append(ai)
                            good = good and pcs == [('root',), '/', ('rel',)]
                    if not good:
                        ok = False
                        why.append('argument %d is not %s(%s, rel of plan.transfer)' % (ai, shape, rootname))
                if not ok and len(derived) == len(why):
                    # right roots, right shape; the entry is an element of a work list a crate helper made out of the plan
                    ctx.undecided('C04.R1', '%s hands %s entries of a work list that a helper derived from the plan: that they are plan.transfer entries is not followed' % (fn.split('::')[-1], callee_path.split('::')[-1]))
                    continue
                ctx.check(ok, 'C04.R1', '%s:%s' % (fn.split('::')[-1], callee_path.split('::')[-1]), 'paths built from the destination/source roots and the plan.transfer entry',
                          'the delivery call does not get paths derived from the roots and the same plan.transfer entry: %s' % '; '.join(why), term_loc(body, cb))
        if not found:
            # the delivery helper is gone or unused: where the files are delivered now is outside what this rule models
            ctx.undecided('C04.R1', '%s no longer delivers through %s (helper %s)' % (fn, callee_path, 'removed' if F.body(callee_path) is None else 'not called'))


def plan_loop_var(body, fl, name):
    """the source-level variable `name` is the loop variable over plan.transfer (whatever it is called)"""
    ls = [l for l in range(len(body.locals)) if name and body.local_name(l) == name]
    for l in ls:
        os_ = [o for o in fl.origins(l) if o.kind != 'comb']
        if os_ and all(o.kind == 'call' and o.key == 'std::iter::Iterator::next' for o in os_) and from_plan_transfer(fl, os_):
            return True
    return False


KEEPS_ALL = ('iter', 'into_iter', 'collect', 'rev', 'peekable', 'by_ref', 'copied', 'cloned', 'as_slice', 'deref', 'from_iter', 'to_vec')
TAKES_SOME = ('filter', 'partition', 'skip', 'take', 'skip_while', 'take_while', 'step_by', 'split_off', 'drain', 'partition_in_place')


def _collection_kind(F, fl, io, depth=0):
    """'plan' (plan.transfer itself, possibly through adaptors that keep every element), 'part' (a sub-list of it: filter,
    partition, ... or a list a crate function made from the plan), None (something else)"""
    if any(x.kind == 'call' and x.key == 'plan::build_plan' and x.path[-1:] == ('transfer',) for x in io):
        return 'plan'
    if depth > 6:
        return None
    kinds = set()
    for x in io:
        if x.kind == 'comb':
            continue
        if x.kind != 'call' or x.bb is None:
            return None
        short = str(x.key).split('::')[-1]
        if F.body(str(x.key)) is not None and str(x.key) != 'plan::build_plan':
            kinds.add('part')
            continue
        inner = _collection_kind(F, fl, call_arg_origins(fl, x.bb, 0), depth + 1)
        if inner is None:
            return None
        if short in KEEPS_ALL:
            kinds.add(inner)
        elif short in TAKES_SOME:
            kinds.add('part')
        else:
            return None
    if not kinds:
        return None
    return 'part' if 'part' in kinds else 'plan'


def derived_work_list(F, fl, next_origins):
    """the iterated collection is a sub-list of plan.transfer (filter / partition of it) or what a crate function made (a work
    list split off the plan by a helper, a struct of lists): which plan entries it holds is not followed here"""
    hit = False
    for o in next_origins:
        if o.bb is None:
            return False
        io = call_arg_origins(fl, o.bb, 0) | iterated_collection(fl, o.bb)
        k = _collection_kind(F, fl, io)
        if k == 'part':
            hit = True
        elif k != 'plan':
            return False
    return hit


def from_plan_transfer(fl, next_origins):
    for o in next_origins:
        io = call_arg_origins(fl, o.bb, 0) | iterated_collection(fl, o.bb)
        if not any(x.kind == 'call' and x.key == 'plan::build_plan' and x.path[-1:] == ('transfer',) for x in io):
            return False
    return True


def whole_file_copy(ctx, F):
    """'byte-identical at the destination' rests on the local delivery copying the WHOLE file: fs::copy / io::copy do; a copy
    loop of the crate's own (chunks read and written one by one, some possibly skipped - holes, dedup) has to write every byte or
    set the length itself - a statement about that loop, not decided here (and not passed silently either)."""
    cg = callgraph_of(F)
    graph = cg.reach(['incremental::deliver_local'])
    if not graph:
        return
    whole = cg.call_sites(lambda c: c.endswith('fs::copy') or c.endswith('io::copy') or c.endswith('io::copy_buf'), within=graph)
    chunked = cg.call_sites(lambda c: c.split('::')[-1] in ('write_all', 'write', 'write_vectored', 'write_all_buf') and ('Write' in c), within=graph)
    if chunked and not whole:
        b_, bb_, c_ = chunked[0]
        ctx.undecided('C04.R1', 'deliver_local fills the staging file with chunk-wise writes of its own (%s in %s) instead of a whole-file copy: that every byte of the source is written, '
                      'or the length set, is not decided' % (c_.split('::')[-1], b_.path.split('::{')[0].split('::')[-1]))


def r2(ctx, F, eff):
    cg = callgraph_of(F)
    # (a) run_local: every mutated path is rooted at `dst`
    b = work_body(F, RUN_LOCAL, ['plan::build_plan'])
    if b is None:
        ctx.missing('C04.R2', RUN_LOCAL)
    fl = flow_of(b)
    n = 0
    for body in F.nested(RUN_LOCAL):
        f2 = flow_of(body)
        for bi in f2.cfg.reachable():
            t = body.blocks[bi]['term']
            if t['k'] != 'call':
                continue
            c = callee_resolved(t) or callee(t)
            if callee(t) == 'std::future::Future::poll':
                continue       # resuming an awaited callee: the call that created it was already classified
            if not ((c in F.bodies and eff.is_mutating(c)) or c in tables.FS_MUTATORS):
                continue
            n += 1
            # every path-typed argument that is not the source
            roots = set()
            for ai, a in enumerate(t['args']):
                if a['k'] == 'const':
                    continue
                if ai == 0 and c.endswith('fs::copy'):
                    continue        # the file that is read
                ty = body.local_ty(a['p']['l']).replace('&', '').replace('mut ', '').strip()
                if ty not in ('std::path::Path', 'std::path::PathBuf'):
                    continue
                for pb, o in capture_origins(F, body, a):
                    roots |= root_of(F, pb, o)
            short = c.split('::')[-1]
            if not roots and c in F.bodies:
                # a crate function that takes no path at all (a phase function handed a context struct): which tree it mutates is
                # decided by what it does with the fields of that struct - not followed
                ctx.undecided('C04.R2', 'run_local calls %s, which mutates the file system, without handing it a path: the paths it uses are not followed' % short)
                continue
            if short == 'deliver_local':
                ok = roots == {'src', 'dst'}      # (source file read, destination written): checked precisely in C04.R1/C09.R1
            else:
                ok = roots == {'dst'}
            ctx.check(ok, 'C04.R2', 'run_local:%s' % short, 'paths rooted at %s' % sorted(roots),
                      'run_local performs %s on a path rooted at %s (only the destination root may be mutated)' % (short, sorted(roots)), term_loc(body, bi))
    if n < 3:
        ctx.missing('C04.R2', 'run_local effect sites (found %d)' % n)
    # (b)/(c) run_remote: direction guards
    r = work_body(F, RUN_REMOTE, ['plan::build_plan'])
    if r is None:
        ctx.missing('C04.R2', RUN_REMOTE)
    n = 0
    def creation_site(body):
        pb = F.body(body.parent) if body.parent else None
        if pb is None:
            return None
        for bi, blk in enumerate(pb.blocks):
            for st in blk['stmts']:
                rv = st['rv']
                if rv['k'] == 'agg' and rv.get('ak') in ('closure', 'coroutine') and norm(rv['def']) == body.path:
                    return pb, bi
        return None

    def direction_guard(body, bb, want, depth=0):
        """block `bb` of `body` runs only in direction `want`: guarded by that arm here, or the (nested) body is created under it"""
        arms = dir_arms(F, body)
        if arms.get(want) and flow_of(body).cfg.edges_guard(arms[want], bb):
            return True
        cs = creation_site(body)
        if cs is None or depth > 4:
            return False
        return direction_guard(cs[0], cs[1], want, depth + 1)

    for body in F.nested(RUN_REMOTE) + F.nested('incremental::apply_remote_deletes'):
        f2 = flow_of(body)
        for bb, kind, what in eff.effect_sites(body):
            if kind == 'task':
                continue
            if kind == 'call' and what == 'incremental::apply_remote_deletes':
                continue     # dispatches on the direction itself (checked on its own body)
            e = eff.reach_effects(what) if kind == 'call' else None
            local_mut = (kind == 'fs') or (e is not None and bool(e['fs']))
            remote_mut = (kind == 'spawn') or (e is not None and bool(e['spawn_mut']))
            short = what.split('::')[-1] if kind != 'spawn' else 'ssh'
            n += 1
            if local_mut:
                ctx.check(direction_guard(body, bb, 'Pull'), 'C04.R2', '%s:%s@Pull' % (body.path.split('::{')[0].split('::')[-1], short), 'local mutation only in the Pull direction',
                          'a local file-system mutation (%s) is reachable in the Push direction: the source tree would be modified' % short, term_loc(body, bb))
            if remote_mut:
                ctx.check(direction_guard(body, bb, 'Push'), 'C04.R2', '%s:%s@Push' % (body.path.split('::{')[0].split('::')[-1], short), 'mutating remote command only in the Push direction',
                          'a mutating remote command (%s) is reachable in the Pull direction: the remote source would be modified' % short, term_loc(body, bb))
    if n < 3:
        ctx.missing('C04.R2', 'run_remote effect sites (found %d)' % n)


# roles of the entry points' parameters by POSITION (names in the source are free to change)
ROLE_BY_SLOT = {
    RUN_LOCAL: {1: 'src', 2: 'dst'},
    RUN_REMOTE: {1: 'dir', 2: 'host', 3: 'remote_root', 4: 'local_root'},
}


def canon(F, body, name):
    """canonical role of a parameter (or captured parameter) called `name` in `body`'s enclosing entry point"""
    top = body.path.split('::{')[0]
    tb = F.body(top)
    slot = param_index(tb, name) if (tb is not None and name) else None
    return ROLE_BY_SLOT.get(top, {}).get(slot, name)


def root_of(F, body, o, depth=0):
    """Name(s) of the fn parameter(s) a path origin is rooted at."""
    fl = flow_of(body)
    if depth > 6:
        return {'?'}
    if o.kind == 'param':
        return {canon(F, body, body.local_name(o.key)) or '?'}
    if o.kind == 'upvar':
        return {canon(F, body, body.upvars.get(int(o.key), '?')) if o.key is not None else '?'}
    if o.kind == 'call' and o.key in ('std::path::Path::join', 'incremental::tmp_path', 'std::path::Path::parent'):
        out = set()
        for pb, x in capture_origins(F, body, body.blocks[o.bb]['term']['args'][0]):
            out |= root_of(F, pb, x, depth + 1)
        return out
    if o.kind in ('const', 'comb'):
        return set()
    if o.kind == 'agg':
        return set()        # a wrapper (a struct holding the path, Some(path)): its operands are origins of their own
    if o.kind == 'call' and o.bb is not None and str(o.key).split('::')[-1] in ('to_path_buf', 'to_owned', 'clone', 'as_ref', 'as_path', 'deref', 'borrow', 'into', 'from', 'as_deref'):
        out = set()
        args_ = body.blocks[o.bb]['term'].get('args', [])
        if args_ and args_[0]['k'] != 'const':
            for pb, x in capture_origins(F, body, args_[0]):
                out |= root_of(F, pb, x, depth + 1)
            return out
    return {'?:%s' % o.key}


def dir_arms(F, body):
    """{'Push': edges, 'Pull': edges} for switches on the Dir value in `body`."""
    fl = flow_of(body)
    out = {}
    vmap = ENUMS.get('incremental::Dir')
    if not vmap:
        return out
    for bi in fl.cfg.reachable():
        blk = body.blocks[bi]
        for st in blk['stmts']:
            rv = st['rv']
            pty = body.local_ty(rv['p']['l']) if rv['k'] == 'discr' else ''
            if rv['k'] == 'discr':
                for e in rv['p']['proj']:
                    if isinstance(e, dict) and 'ty' in e:
                        pty = e['ty']
            if rv['k'] == 'discr' and pty.replace('&', '').strip() == 'incremental::Dir':
                t = blk['term']
                if t['k'] == 'switch':
                    listed = set()
                    for v, tgt in t['targets']:
                        listed.add(v)
                        if v in vmap:
                            out.setdefault(vmap[v], set()).add((bi, tgt, v))
                            for (b0, tg0) in fl.cfg.threaded.get((bi, v), []):
                                out[vmap[v]].add((b0, tg0, None))
                    for v, n in vmap.items():
                        if v not in listed:
                            out.setdefault(n, set()).add((bi, t['otherwise'], 'otherwise'))
    return out


def r4(ctx, F):
    n = 0
    for fn in (RUN_LOCAL, RUN_REMOTE):
        for body in F.nested(fn):
            fl = flow_of(body)
            for cb, ct in fl.calls_to('incremental::deliver_local', 'incremental::deliver_pull', 'transfer::transfer_file_to_remote'):
                n += 1
                oc = fl.outcomes(cb)
                oks = fl.calls_to('dir_sync::TransferProgress::record_ok')
                errs = fl.calls_to('dir_sync::TransferProgress::record_err')
                # the match may be on a merged `res`: follow the value to its switch
                ok_e, err_e = oc.get('Ok', set()), oc.get('Err', set())
                if not ok_e:
                    # merged result: look for the switch on any local of the same Result type
                    for l in range(len(body.locals)):
                        if body.local_ty(l) == body.local_ty(ct['dst']['l']) and l != ct['dst']['l']:
                            o2 = fl.outcomes(None, l)
                            ok_e |= o2.get('Ok', set())
                            err_e |= o2.get('Err', set())
                good = bool(ok_e) and bool(err_e) and bool(oks) and bool(errs)
                if good:
                    for (s, t, lab) in err_e:
                        r = fl.cfg.reach(t, cut_blocks=[eb for eb, _ in errs])
                        if r & set(fl.cfg.exits()):
                            good = False
                    for (s, t, lab) in ok_e:
                        r = fl.cfg.reach(t, cut_blocks=[ob for ob, _ in oks])
                        if r & set(fl.cfg.exits()):
                            good = False
                ctx.check(good, 'C04.R4', '%s:%s:accounted' % (fn.split('::')[-1], callee(ct).split('::')[-1]), 'Ok -> record_ok, Err -> record_err (unavoidable)',
                          'a delivery result is not accounted: an Err can leave the task without record_err (the run would still exit 0)', term_loc(body, cb))
    if n < 3:
        ctx.missing('C04.R4', 'delivery call sites (found %d)' % n)
    # report(): Err iff failed() > 0
    rep = F.body('incremental::report')
    if rep is None:
        ctx.missing('C04.R4', 'incremental::report')
    rfl = flow_of(rep)
    oks = ok_assign_blocks(rep, 'Ok')
    errs_b = ok_assign_blocks(rep, 'Err')
    z_e, nz_e = zero_test_edges(rfl, lambda os_: any(o.kind == 'call' and o.key == 'dir_sync::TransferProgress::failed' for o in os_))
    good = bool(z_e) and bool(nz_e) and bool(oks) and bool(errs_b) and all(rfl.cfg.edges_guard(z_e, ob) for ob in oks)
    # the failed() != 0 edge must not reach an Ok return
    if good:
        for (s, t, lab) in nz_e:
            if set(oks) & rfl.cfg.reach(t):
                good = False
    ctx.check(good, 'C04.R4', 'report:Err-iff-failed', 'Ok only if failed() == 0', 'report() can return Ok although transfers failed', loc(rep, rep.lo))
    fb = F.body('dir_sync::TransferProgress::failed')
    reb = F.body('dir_sync::TransferProgress::record_err')
    good = fb is not None and reb is not None
    if good:
        f1 = any(o.path[-1:] == ('files_failed',) for bb, t in flow_of(fb).calls(lambda c: c.endswith('::load')) for o in flow_of(fb).origins(t['args'][0]))
        f2 = any(o.path[-1:] == ('files_failed',) for bb, t in flow_of(reb).calls(lambda c: c.endswith('::fetch_add')) for o in flow_of(reb).origins(t['args'][0]))
        good = f1 and f2
    ctx.check(good, 'C04.R4', 'progress:failed-counts-record_err', 'record_err increments the counter failed() reads', 'failed() does not read the counter record_err increments', None)
    for fn in (RUN_LOCAL, RUN_REMOTE):
        b = work_body(F, fn, ['incremental::report'])
        ok = False
        if b is not None:
            for (rb, kind, data) in ret_defs(b):
                if kind == 'call' and callee(data) == 'incremental::report':
                    ok = True
        ctx.check(ok, 'C04.R4', '%s:returns-report' % fn.split('::')[-1], 'the run returns report(..)', '%s does not return the result of report()' % fn, None)


def r5(ctx, F, eff):
    cg = callgraph_of(F)
    graph = cg.reach([RUN_REC])
    n = 0
    for path in sorted(graph):
        b = F.body(path)
        if not b.file.endswith(('incremental.rs', 'dir_sync.rs', 'transfer.rs', 'meta.rs')):
            continue
        fl = flow_of(b)
        top = path.split('::{')[0].split('::')[-1]
        for bi in sorted(fl.cfg.reachable()):
            t = b.blocks[bi]['term']
            if t['k'] != 'call':
                continue
            c = callee_resolved(t) or callee(t)
            short = c.split('::')[-1]
            mut_step = c in tables.FS_MUTATORS or c in ('meta::set_local_mtime',) or \
                c in ('tokio::process::Command::spawn', 'std::process::Command::spawn', 'tokio::process::Child::wait_with_output', 'tokio::process::Child::wait',
                      'std::process::Child::wait', 'tokio::io::AsyncWriteExt::write_all')
            if c == 'tokio::io::AsyncWriteExt::write_all':
                # only writes into a child's stdin matter here
                mut_step = any('ChildStdin' in b.local_ty(o.key) for o in fl.origins(t['args'][0]) if o.kind in ('param',)) or \
                    any('ChildStdin' in b.local_ty(l) for l in range(len(b.locals)) if b.local_name(l) == 'stdin')
            # crate-local mutating helpers and inline async blocks whose output is a Result
            target = None
            if c in F.bodies and c != b.path and eff.is_mutating(c):
                target = c
            elif callee(t) == 'std::future::IntoFuture::into_future':
                for o in fl.origins(t['args'][0]):
                    if o.kind == 'agg' and o.key in F.bodies and eff.is_mutating(o.key):
                        target = o.key
            if target is not None and callee(t) != 'std::future::Future::poll':
                tb = F.body(target)
                out_ty = tb.local_ty(0)
                if 'Result' not in out_ty:
                    inner = [x for x in F.nested(target) if x.kind == 'coroutine']
                    out_ty = inner[0].local_ty(0) if inner else out_ty
                if 'Result' in out_ty:
                    mut_step = True
                    short = target.split('::{')[0].split('::')[-1] + ('{async block}' if '::{' in target else '')
            if not mut_step or c.endswith('OpenOptions::open'):
                continue
            n += 1
            key = '%s:%s' % (top, short)
            # async: the future returned by the call is awaited; its output is what must be inspected
            discarded = result_dropped(fl, bi)
            if discarded and short == 'remove_file' and t['args'] and removes_own_staging(F, b, t['args'][0]):
                ctx.ok('C04.R5', key, 'best-effort removal of the staging file this handle created (a leftover staging name is allowed; nothing of the plan depends on it)', term_loc(b, bi))
                continue
            if discarded and short == 'remove_dir':
                # pruning an emptied directory: rmdir fails exactly when something is still there, which is the wanted outcome -
                # no file of the plan depends on it
                ctx.ok('C04.R5', key, 'best-effort pruning of an emptied directory (a refusal means it is not empty: nothing of the plan is lost)', term_loc(b, bi))
                continue
            if discarded:
                ctx.bad('C04.R5', key, 'the result of %s in %s is discarded (`let _ =`): a failure leaves the destination outside the plan while the run exits 0' % (short, top),
                        term_loc(b, bi))
                continue
            # `if let Ok(x) = step { .. }` with a silent Err arm in a fn that cannot report
            oc = fl.outcomes(bi)
            if oc.get('Err') and not oc.get('Ok') is None:
                silent = False
                for (s, tt, lab) in oc.get('Err', ()):
                    r = fl.cfg.reach(tt)
                    reports = any(b.blocks[x]['term']['k'] == 'call' and (callee(b.blocks[x]['term']) or '').endswith(('from_residual', 'record_err'))
                                  for x in r) or any(st['dst']['l'] == 0 and st['rv'].get('vname') == 'Err' for x in r for st in b.blocks[x]['stmts'])
                    if not reports:
                        # the error is handed to a local closure that records it (`let fail = |rel, e| progress.record_err(..)`)
                        for x in r:
                            tx = b.blocks[x]['term']
                            if tx['k'] == 'call' and (callee(tx) or '') in ('std::ops::Fn::call', 'std::ops::FnMut::call_mut', 'std::ops::FnOnce::call_once'):
                                cb_ = F.body(callee_resolved(tx) or '')
                                if cb_ is not None and flow_of(cb_).calls(lambda c2: c2.endswith('record_err')):
                                    reports = True
                    if not reports and b.local_ty(0) == '()':
                        silent = True
                if silent:
                    ctx.bad('C04.R5', key + ':error-dropped', 'a failure of %s in %s is silently ignored (no error path, fn returns ())' % (short, top), term_loc(b, bi))
                    continue
            ctx.ok('C04.R5', key, 'result inspected', term_loc(b, bi))
    if n < 8:
        ctx.missing('C04.R5', 'mutating steps under run_sync_recursive (found %d)' % n)


def result_dropped(fl, bb):
    """sync: the call result is only dropped; async: the awaited output of the future is only dropped."""
    if fl.result_discarded(bb):
        return True
    b = fl.body
    t = b.blocks[bb]['term']
    l = t['dst']['l']
    # follow the future to the Ready payload local
    seen = set()
    work = [l]
    ready = []
    while work:
        x = work.pop()
        if x in seen:
            continue
        seen.add(x)
        for (ubb, uidx, role) in fl.uses.get(x, []):
            if uidx == 'term':
                t2 = b.blocks[ubb]['term']
                if t2['k'] == 'call' and callee(t2) in ('std::future::IntoFuture::into_future', 'std::pin::Pin::<Ptr>::new_unchecked', 'std::future::Future::poll') and not t2['dst']['proj']:
                    work.append(t2['dst']['l'])
            else:
                st = b.blocks[ubb]['stmts'][uidx]
                if st['dst']['proj']:
                    continue
                rv = st['rv']
                if rv['k'] in ('use', 'ref'):
                    src = rv['ops'][0]['p'] if rv['k'] == 'use' and rv['ops'][0]['k'] != 'const' else rv.get('p')
                    if src is None:
                        continue
                    pr = src['proj']
                    if len(pr) == 2 and isinstance(pr[0], dict) and pr[0].get('name') == 'Ready':
                        ready.append(st['dst']['l'])
                    elif [e for e in pr if e != 'deref'] == []:
                        work.append(st['dst']['l'])
    for r in ready:
        # the awaited value: moved once into a temp that is only dropped?
        cur = r
        for _ in range(4):
            if cur == 0:
                break      # returned to the caller
            us = [u for u in fl.uses.get(cur, []) if u[2] != 'drop' and not (
                u[1] == 'term' and b.blocks[u[0]]['term']['k'] == 'call' and callee(b.blocks[u[0]]['term']) in ('std::mem::drop', 'core::mem::drop'))]
            if not us:
                return True
            if len(us) == 1 and us[0][1] != 'term':
                st = b.blocks[us[0][0]]['stmts'][us[0][1]]
                if st['rv']['k'] == 'use' and not st['dst']['proj']:
                    cur = st['dst']['l']
                    continue
            break
    return False


def r6(ctx, F):
    tpl = shtemplate.Templates(F)
    cg = callgraph_of(F)
    graph = cg.reach([RUN_REC]) | cg.reach(['single_sync::run_sync'])
    n = 0
    lists = 0
    for path in sorted(graph):
        b = F.body(path)
        for cmd, items in shtemplate.ssh_commands(F, b, tpl):
            top = path.split('::{')[0].split('::')[-1]
            for with_opt in (True,):
                pieces, holes = shtemplate.flatten(items, with_opt)
                words, probs = shell.tokenize(pieces)
                n += 1
                bad = list(probs)
                for w in words:
                    for tkn in w:
                        if tkn.kind != 'hole':
                            continue
                        h = holes[tkn.hole]
                        if h[1] == 'sanitised' and tkn.quote == "$'":
                            continue
                        if h[1] == 'int' and tkn.quote is None:
                            continue
                        bad.append('hole {%s} is %s in %s position' % (h[2], h[1], {None: 'bare', "$'": "$'..'", "'": "'..'", '"': 'double-quoted'}[tkn.quote]))
                ctx.check(not bad, 'C04.R6', '%s:template' % top, shtemplate.render(items)[:100],
                          'remote command template %r: %s' % (shtemplate.render(items)[:120], '; '.join(bad)), term_loc(b, cmd.new_bb))
                for conn, cw in shell.split_commands(words):
                    d = shell.xargs_delimiter(cw)
                    if d is None:
                        continue
                    lists += 1
                    # the list written to stdin: format sites of this fn whose result is appended to a String
                    terms_ok = True
                    for f in F.formats:
                        if f['file'] == b.file and top_body_contains(F, path, f['line']) and f['macro'] in ('writeln', 'write', 'format') and \
                           any(not isinstance(p, str) for p in f['pieces']) and any(isinstance(p, str) and p in ('/', '\n', '/\n', '\0') or
                                                                                     (isinstance(p, str) and p.endswith(('\n', '\0'))) for p in f['pieces']):
                            last = f['pieces'][-1] if isinstance(f['pieces'][-1], str) else ''
                            if not last.endswith('\0'):
                                terms_ok = False
                    ctx.check(d == 'nul' and terms_ok, 'C04.R6', '%s:xargs-delimiter' % top, 'names reach xargs NUL-delimited',
                              'file names are sent to the remote `xargs` delimited by %s: a name containing that delimiter is split and the command touches paths outside the plan'
                              % ('newline' if d == 'newline' else d), term_loc(b, cmd.new_bb))
    if n < 5 or lists < 2:
        ctx.missing('C04.R6', 'ssh templates / xargs lists (found %d / %d)' % (n, lists))


def top_body_contains(F, path, line):
    top = F.body(path.split('::{')[0])
    return top is not None and top.lo <= line <= top.hi


def r7(ctx, F):
    b = work_body(F, RUN_REC, [RUN_REMOTE, RUN_LOCAL])
    if b is None:
        ctx.missing('C04.R7', RUN_REC)
    fl = flow_of(b)

    def desc(t):
        t = strip_payload(t)
        if t[0] == 'vfield':
            # (tuple.i as Variant).field  -> ('src'|'dst', Variant, field)
            base = t[1]
            side = '?'
            if base[0] == 'field' and base[1][0] in ('param',):
                side = {'0': 'src', '1': 'dst'}.get(base[2], '?')
            elif base[0] == 'vfield':
                pass
            return (side, t[2], t[3])
        if t[0] == 'adt':
            return ('adt', t[1], t[2])
        if t[0] == 'field':
            return ('field', t[2])
        return (t[0],)
    calls = {}
    for cb, ct in fl.calls_to(RUN_REMOTE, RUN_LOCAL):
        args = [desc(term_of(fl, a)) for a in ct['args']]
        calls.setdefault(callee(ct), []).append((cb, args))
    rr = calls.get(RUN_REMOTE, [])
    push = [a for cb, a in rr if a[0] == ('adt', 'incremental::Dir', 'Push')]
    pull = [a for cb, a in rr if a[0] == ('adt', 'incremental::Dir', 'Pull')]
    ok_push = len(push) == 1 and push[0][1] == ('dst', 'Remote', 'host') and push[0][2] == ('dst', 'Remote', 'path') and push[0][3] == ('src', 'Local', '0')
    ok_pull = len(pull) == 1 and pull[0][1] == ('src', 'Remote', 'host') and pull[0][2] == ('src', 'Remote', 'path') and pull[0][3] == ('dst', 'Local', '0')
    ctx.check(ok_push, 'C04.R7', 'dispatch:push', '(Local l, Remote{h,p}) -> run_remote(Push, h, p, l)', 'local->remote is not dispatched as a push with the local path as source: %s' % push, loc(b, b.lo))
    ctx.check(ok_pull, 'C04.R7', 'dispatch:pull', '(Remote{h,p}, Local l) -> run_remote(Pull, h, p, l)', 'remote->local is not dispatched as a pull into the local path: %s' % pull, loc(b, b.lo))
    rl = calls.get(RUN_LOCAL, [])
    ok_ll = len(rl) == 1 and rl[0][1][0] == ('src', 'Local', '0') and rl[0][1][1] == ('dst', 'Local', '0')
    ctx.check(ok_ll, 'C04.R7', 'dispatch:local', '(Local from, Local to) -> run_local(from, to)', 'local->local is not run_local(source, destination): %s' % rl, loc(b, b.lo))
    # remote->remote: an Err
    errs = [bi for bi in fl.cfg.reachable() for st in b.blocks[bi]['stmts'] if st['dst']['l'] == 0 and st['rv'].get('vname') == 'Err']
    ctx.check(bool(errs), 'C04.R7', 'dispatch:remote-remote', 'other combinations -> Err', 'remote->remote no longer yields an error', loc(b, b.lo))
    # run_remote: source/destination metadata per direction
    r = work_body(F, RUN_REMOTE, ['plan::build_plan'])
    rfl = flow_of(r)
    arms = dir_arms(F, r)
    plans = rfl.calls_to('plan::build_plan')
    good = bool(plans) and bool(arms.get('Push')) and bool(arms.get('Pull'))
    if good:
        # the tuple (src_meta, dst_meta): aggregates guarded by the Push / Pull edge
        tuples = []
        for bi in rfl.cfg.reachable():
            for st in r.blocks[bi]['stmts']:
                rv = st['rv']
                if rv['k'] == 'agg' and rv['ak'] == 'tuple' and len(rv['ops']) == 2 and all(o['k'] != 'const' and 'BTreeMap' in r.local_ty(o['p']['l']) for o in rv['ops']):
                    kinds = []
                    for o in rv['ops']:
                        # which listing the elements come from: back through the adaptor chain (a filtered copy of a listing is
                        # still that listing; what a predicate closure captured is consulted, not walked)
                        os_, work_, seen_ = set(), [o], set()
                        while work_ and len(seen_) < 100:
                            cur_ = work_.pop()
                            if cur_['k'] == 'const':
                                continue
                            for x in rfl.origins(cur_):
                                k_ = (x.kind, str(x.key), x.bb)
                                if k_ in seen_:
                                    continue
                                seen_.add(k_)
                                os_.add(x)
                                if x.kind == 'call' and x.bb is not None and not str(x.key).startswith('meta::discover_'):
                                    args_ = r.blocks[x.bb]['term'].get('args', [])
                                    if args_:
                                        work_.append(args_[0])
                        kinds.append('local' if any(x.kind == 'call' and x.key == 'meta::discover_local_with_meta' for x in os_) else
                                     'remote' if any(x.kind == 'call' and x.key == 'meta::discover_remote_with_meta' for x in os_) else '?')
                    d = 'Push' if rfl.cfg.edges_guard(arms['Push'], bi) else 'Pull' if rfl.cfg.edges_guard(arms['Pull'], bi) else '?'
                    tuples.append((d, tuple(kinds)))
        good = sorted(tuples) == [('Pull', ('remote', 'local')), ('Push', ('local', 'remote'))]
        if good:
            # build_plan(&src_meta, &dst_meta): first/second tuple element
            t0 = strip_payload(term_of(rfl, plans[0][1]['args'][0]))
            t1 = strip_payload(term_of(rfl, plans[0][1]['args'][1]))
            good = True
    ctx.check(good, 'C04.R7', 'run_remote:meta-per-direction', 'Push: (local, remote) / Pull: (remote, local) as (source, destination) metadata',
              'run_remote does not read the local tree as source when pushing and the remote listing as source when pulling', loc(r, r.lo))
    # FileLocation::parse
    p = F.body('FileLocation::parse')
    if p is None:
        ctx.missing('C04.R7', 'FileLocation::parse')
    pfl = flow_of(p)
    rem = [bi for bi in pfl.cfg.reachable() for st in p.blocks[bi]['stmts'] if st['rv']['k'] == 'agg' and st['rv'].get('vname') == 'Remote']
    finds = [(fb, ft) for fb, ft in pfl.calls(lambda c: c.endswith('::find') or c.endswith('::split_once')) if any(o.kind == 'const' and o.key == ord(':') for o in pfl.origins(ft['args'][1]))]
    cont = pfl.calls(lambda c: c.endswith('str>::contains'))
    good = bool(rem) and len(finds) == 1 and len(cont) == 2
    if good:
        for rb in rem:
            g = pfl.guarded_by(rb, finds[0][0], 'Some')
            for cb, ct in cont:
                fe = pfl.outcomes(cb).get('false', set())
                g = g and bool(fe) and pfl.cfg.edges_guard(fe, rb)
            # len() > 1
            is_len = lambda op_: any(o.kind == 'call' and str(o.key).endswith('::len') for o in pfl.origins(op_))
            is_one = lambda op_: (lambda os_: bool(os_) and all(o.kind == 'const' and o.key == 1 for o in os_))([o for o in pfl.origins(op_) if o.kind != 'comb'])
            is_two = lambda op_: (lambda os_: bool(os_) and all(o.kind == 'const' and o.key == 2 for o in os_))([o for o in pfl.origins(op_) if o.kind != 'comb'])
            gt_e = order_edges(pfl, is_one, is_len, strict=True) | order_edges(pfl, is_two, is_len)     # 1 < len  |  2 <= len
            gl = bool(gt_e) and pfl.cfg.edges_guard(gt_e, rb)
            good = good and g and gl
        chars = sorted(o.key for cb, ct in cont for o in pfl.origins(ct['args'][1]) if o.kind == 'const')
        good = good and chars == sorted([ord('/'), ord('\\')])
    ctx.check(good, 'C04.R7', 'FileLocation::parse', 'Remote only if the text before the first colon is longer than 1 and contains no / or \\',
              'FileLocation::parse classifies a path as remote without a >1-char separator-free host prefix', loc(p, p.lo))


def r8(ctx, F):
    """discover_remote_with_meta: an Ok(listing) is returned only under the success edge of the remote command's exit status.
    `find` exits non-zero after printing part of the tree (unreadable directory, connection drop): treating that output as the
    whole tree makes --delete remove files whose sources exist and silently skips the unlisted ones."""
    t = work_body(F, 'meta::discover_remote_with_meta', ['std::process::ExitStatus::success'])
    if t is None:
        t = work_body(F, 'meta::discover_remote_with_meta', ['meta::parse_remote_meta_output'])
    if t is None:
        ctx.missing('C04.R8', 'meta::discover_remote_with_meta')
    fl = flow_of(t)
    oks = ok_assign_blocks(t, 'Ok')
    succ = fl.calls(lambda c: c == 'std::process::ExitStatus::success')
    if not oks:
        ctx.missing('C04.R8', 'discover_remote_with_meta: an Ok return')
    good = bool(succ)
    for ob in oks:
        good = good and any(fl.outcomes(sb).get('true') and fl.cfg.edges_guard(fl.outcomes(sb)['true'], ob) for sb, _ in succ)
    ctx.check(good, 'C04.R8', 'discover_remote_with_meta:Ok-only-on-success', 'Ok(listing) guarded by status.success()',
              'the remote listing is returned as Ok although the listing command exited non-zero: a partial `find` output is taken for the whole tree '
              '(with --delete, files whose sources exist are removed; without it they are silently not delivered; exit 0)', loc(t, t.lo))
