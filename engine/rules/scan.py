"""The matching loop of the two delta engines, located semantically (shared by C01 and C16)."""
from rules.common import *  # noqa: F401,F403
from terms import term_of, place_term, strip_payload

ENGINES = [
    ('<sync::CopiaSync as sync::Sync>::delta', 'sync'),
    ('async_sync::AsyncCopiaSync::delta', 'async'),
]


def sig(os_):
    return frozenset((o.kind, o.key, o.bb, o.path) for o in os_)


def confirming_lookups(F):
    """{method path: (bool confirming, reason)}: a lookup is confirming iff every Some it can return is guarded by
    sig.strong_hash == StrongHash::compute(<its own data parameter>)."""
    out = {}
    methods = lookup_methods(F)
    # delegating lookups need the verdict of their delegate: judge until stable (pessimistic start)
    for _ in range(len(methods) + 1):
        before = dict(out)
        for m in methods:
            _judge_lookup(F, m, out)
        if out == before:
            break
    return out


def lookup_methods(F):
    """Every SignatureTable method returning an Option: the set is computed from the facts, not named."""
    return sorted(p for p, b in F.bodies.items()
                  if p.startswith('signature::SignatureTable::') and b.kind == 'fn' and b.local_ty(0).startswith('std::option::Option<'))


def returns_block_index(F, m, depth=0):
    """For a lookup returning Option<u32>: every Some it returns carries the `index` field of a signature entry."""
    b = F.body(m)
    if b is None or depth > 3 or not b.local_ty(0).startswith('std::option::Option<u32>'):
        return False
    fl = flow_of(b)
    n = 0
    for (rb, kind, data) in ret_defs(b):
        if kind == 'assign':
            rv = data
            if rv['k'] == 'agg' and rv.get('vname') == 'None':
                continue
            if rv['k'] == 'agg' and rv.get('vname') == 'Some':
                os_ = [o for o in fl.origins(rv['ops'][0]) if o.kind != 'comb']
                for o in os_:
                    if o.path[-1:] == ('index',):
                        continue
                    if o.kind == 'call' and o.key in lookup_methods(F) and returns_block_index(F, o.key, depth + 1):
                        continue
                    return False
                n += 1
                continue
            return False
        c = callee(data)
        if c == 'std::ops::FromResidual::from_residual':
            continue
        if c in lookup_methods(F):
            if not returns_block_index(F, c, depth + 1):
                return False
            n += 1
            continue
        if c.startswith('std::option::Option::<') and c.endswith('::map'):
            good = False
            for o in fl.origins(data['args'][1]):
                cb_ = F.body(o.key) if o.kind == 'agg' else None
                if cb_ is not None:
                    ro = [x for x in flow_of(cb_).origins(0) if x.kind != 'comb']
                    good = bool(ro) and all(x.kind == 'param' and x.path[-1:] == ('index',) for x in ro)
            src = [o for o in fl.origins(data['args'][0]) if o.kind != 'comb']
            if not (good and src and all(o.kind == 'call' and o.key in lookup_methods(F) for o in src)):
                return False
            n += 1
            continue
        return False
    return n > 0


def lookup_data_arg(F, lt):
    """the operand a lookup call passes for the callee's window parameter (&[u8]), by the callee's signature"""
    b = F.body(callee(lt))
    di = data_param(b) if b is not None else None
    return lt['args'][di - 1] if di is not None else None


def lookup_weak_arg(F, lt):
    """the operand passed for the callee's first u32 parameter (the weak key)"""
    b = F.body(callee(lt))
    if b is None:
        return None
    wi = next((i for i in range(1, b.argc + 1) if b.local_ty(i) == 'u32'), None)
    return lt['args'][wi - 1] if wi is not None else None


def data_param(b):
    return next((i for i in range(1, b.argc + 1) if b.local_ty(i) == '&[u8]'), None)


def _judge_lookup(F, m, out):
    if True:
        b = F.body(m)
        if b is None:
            return
        fl = flow_of(b)
        cfg = fl.cfg
        data_i = data_param(b)
        if data_i is None:
            out[m] = (False, 'no data parameter')
            return

        def delegates(op):
            """the operand is the result of other lookups that were given this lookup's own data: [(callee, ok)]"""
            res = []
            os_ = [o for o in fl.origins(op) if o.kind != 'comb']
            if not os_:
                return None
            for o in os_:
                mb = F.body(o.key) if o.kind == 'call' else None
                if mb is None or o.key not in lookup_methods(F):
                    return None
                di = data_param(mb)
                fwd = di is not None and (lambda a: bool(a) and all(x.kind == 'param' and x.key == data_i and not x.path for x in a))(
                    call_arg_origins(fl, o.bb, di - 1))
                res.append((o.key, fwd and out.get(o.key, (False, ''))[0]))
            return res

        def is_strong_of_data(os_, flow=fl, di=data_i):
            ok = bool(os_)
            for o in os_:
                if not (o.kind == 'call' and o.key == 'hash::StrongHash::compute'):
                    ok = False
                    continue
                a = call_arg_origins(flow, o.bb, 0)
                if not (a and all(x.kind == 'param' and x.key == di and not x.path for x in a)):
                    ok = False
            return ok
        good = True
        why = []
        unknown = []
        n_some = 0
        rets_ = []
        for (rb, kind, data) in ret_defs(b):
            # `_0 = move _t` with _t the result of one call (a spliced helper's return value): judge that call
            hops = 0
            while kind == 'assign' and data['k'] == 'use' and data['ops'][0]['k'] != 'const' and not data['ops'][0]['p']['proj'] and hops < 4:
                ds_ = fl.defs.get(data['ops'][0]['p']['l'], [])
                if len(ds_) != 1 or ds_[0][4]:
                    break
                rb, kind, data = ds_[0][0], ds_[0][2], ds_[0][3]
                hops += 1
            rets_.append((rb, kind, data))
        for (rb, kind, data) in rets_:
            if kind == 'assign':
                rv = data
                if rv['k'] == 'agg' and rv.get('vname') == 'None':
                    continue
                if rv['k'] == 'agg' and rv.get('vname') == 'Some':
                    n_some += 1
                    # guarded by the equal edge of strong_hash == compute(data)
                    g = False
                    for cb, ct in fl.calls_to('std::cmp::PartialEq::eq', 'std::cmp::PartialEq::ne'):
                        o0, o1 = fl.origins(ct['args'][0]), fl.origins(ct['args'][1])
                        sh = lambda os_: bool(os_) and all(o.path[-1:] == ('strong_hash',) for o in os_)
                        if (sh(o0) and is_strong_of_data(o1)) or (sh(o1) and is_strong_of_data(o0)):
                            eq, ne = eq_edges(fl, cb)
                            # the returned sig is the compared one
                            ret_o = {x.bb for x in fl.origins(rv['ops'][0]) if x.kind == 'call'}
                            cmp_o = {x.bb for x in (o0 if sh(o0) else o1) if x.kind == 'call'}
                            if eq and cfg.edges_guard(eq, rb) and (ret_o & cmp_o or not ret_o):
                                g = True
                    if not g:
                        good = False
                        why.append('a Some return is not guarded by the strong-hash comparison')
                    continue
                unknown.append('the returned value is computed in a way these rules do not follow')
            else:
                c = callee(data)
                if c == 'std::ops::FromResidual::from_residual':
                    continue
                if c == 'std::iter::Iterator::find':
                    n_some += 1
                    # predicate closure: sig.strong_hash == captured strong, strong = compute(data)
                    g = False
                    for o in fl.origins(data['args'][1]):
                        if o.kind == 'agg' and F.body(o.key) is not None:
                            cb_ = F.body(o.key)
                            cfl = flow_of(cb_)
                            ro = cfl.origins(0)
                            eqs = [x for x in ro if x.kind == 'call' and x.key == 'std::cmp::PartialEq::eq']
                            if len(eqs) == 1 and len(ro) == 1:
                                a0 = call_arg_origins(cfl, eqs[0].bb, 0)
                                a1 = call_arg_origins(cfl, eqs[0].bb, 1)
                                shp = lambda os_: bool(os_) and all(x.kind == 'param' and x.path[-1:] == ('strong_hash',) for x in os_)
                                upv = lambda os_: bool(os_) and all(x.kind == 'upvar' for x in os_)
                                cap = a1 if shp(a0) and upv(a1) else a0 if shp(a1) and upv(a0) else None
                                if cap is not None:
                                    # the captured value in the parent is compute(data)
                                    for blk in b.blocks:
                                        for st in blk['stmts']:
                                            rv2 = st['rv']
                                            if rv2['k'] == 'agg' and rv2.get('ak') == 'closure' and norm(rv2['def']) == cb_.path:
                                                k = int(list(cap)[0].key)
                                                if is_strong_of_data(fl.origins(rv2['ops'][k])):
                                                    g = True
                    if not g:
                        good = False
                        why.append('Iterator::find predicate is not the strong-hash comparison with compute(data)')
                    continue
                dl = None
                if c in lookup_methods(F):
                    mb = F.body(c)
                    di = data_param(mb)
                    a = call_arg_origins(fl, rb, di - 1) if di is not None else None
                    fwd = bool(a) and all(x.kind == 'param' and x.key == data_i and not x.path for x in a)
                    dl = [(c, fwd and out.get(c, (False, ''))[0])]
                elif c.startswith('std::option::Option::<') and c.split('::')[-1] in ('map', 'copied', 'cloned', 'filter', 'as_ref'):
                    dl = delegates(data['args'][0])
                if dl is not None:
                    n_some += 1
                    for (k, okk) in dl:
                        if okk is None:
                            unknown.append('delegates to %s, whose confirmation could not be read' % k.split('::')[-1])
                        elif not okk:
                            good = False
                            why.append('delegates to %s, which is not confirming for this window' % k.split('::')[-1])
                    continue
                if F.body(c) is not None:
                    unknown.append('returns the result of %s, which is not read' % c.split('::')[-1])
                    continue
                good = False
                why.append('returns the result of %s' % c)
        if good and unknown:
            # nothing positively wrong was seen, but part of what the lookup returns was not understood: no verdict on it
            out[m] = (None, '; '.join(sorted(set(unknown))))
            return
        if n_some == 0:
            good = False
            why.append('no Some return recognised')
        out[m] = (good, '; '.join(sorted(set(why + unknown))))


class Scan:
    """Anchors of one engine's loop."""

    def __init__(self, ctx, F, fn, tag, rid):
        self.F, self.fn, self.tag = F, fn, tag
        b = work_body(F, fn, ['delta::Delta::push_copy'])
        if b is None:
            ctx.missing(rid, '%s (no push_copy call found)' % fn)
        self.b = b
        self.fl = fl = flow_of(b)
        self.cfg = fl.cfg
        self.copies = fl.calls_to('delta::Delta::push_copy')
        self.lit_bytes = fl.calls_to('delta::Delta::push_literal_byte')
        self.lits = fl.calls_to('delta::Delta::push_literal')
        lm = set(lookup_methods(F))
        self.lookups = fl.calls(lambda c: c in lm)
        self.headers = fl.calls_to('delta::Delta::with_checksum', 'delta::Delta::new')
        self.rolls = fl.calls_to('checksum::FastRollingChecksum::roll', 'checksum::RollingChecksum::roll')
        self.news = fl.calls_to('checksum::FastRollingChecksum::new', 'checksum::RollingChecksum::new')
        self.digests = fl.calls_to('checksum::FastRollingChecksum::digest', 'checksum::RollingChecksum::digest')
        self.gates = fl.calls_to('signature::SignatureTable::has_weak_match')
        reads = fl.calls(lambda c: c.endswith('::read_to_end'))
        if not (self.copies and self.lit_bytes and self.lookups and self.headers and reads):
            ctx.missing(rid, '%s: push_copy / push_literal_byte / lookup / header / read_to_end' % fn)
        # source_data: the Vec filled by read_to_end
        self.src_sig = set()
        for rb, rt in reads:
            for o in fl.origins(rt['args'][1]):
                self.src_sig.add((o.kind, o.key, o.bb))
        # block_size: signature.block_size
        self.loops = self.cfg.loops()
        pb = self.copies[0][0]
        heads = [h for h, blocks in self.loops.items() if pb in blocks]
        # outermost loop containing the copy that is not an await loop
        self.head = min(heads, key=lambda h: len(self.loops[h])) if heads else None
        if self.head is None:
            ctx.missing(rid, '%s: the scan loop' % fn)
        self.body_blocks = self.loops[self.head]
        # `loop { state = match state { Probe => .., Matched(i) => .., Miss => .. } }`: which step follows which is in a variable.
        # The rules below read one iteration as one path from the loop head back to it; a dispatch on a state assigned inside the
        # loop makes every step a successor of every other as far as paths go - not a shape these rules decide.
        self.state_machine = None
        import flow as _flow
        for bi in sorted(self.body_blocks):
            t = b.blocks[bi]['term']
            if t['k'] != 'switch' or t['on']['k'] == 'const' or t['on']['p']['proj'] or len(t['targets']) < 2:
                continue
            for st in b.blocks[bi]['stmts']:
                rv = st['rv']
                if st['dst']['l'] == t['on']['p']['l'] and rv['k'] == 'discr' and not rv['p']['proj']:
                    L = rv['p']['l']
                    ty = b.local_ty(L)
                    if ty.startswith(('std::', 'core::', '&')) or _flow.ENUMS.get(ty) is None:
                        continue
                    inside = [d for d in fl.defs.get(L, []) if d[0] in self.body_blocks]
                    if inside and self.cfg.dominates(bi, pb):
                        self.state_machine = '%s (%s)' % (b.local_name(L) or '_%d' % L, ty.split('::')[-1])

    def is_src(self, os_):
        return bool(os_) and {(o.kind, o.key, o.bb) for o in os_ if o.kind != 'comb'} <= self.src_sig and bool({(o.kind, o.key, o.bb) for o in os_} & self.src_sig)

    def is_block_size(self, os_):
        return bool(os_) and all(o.path[-1:] == ('block_size',) and o.kind in ('param', 'upvar') for o in os_)

    def pos_local(self):
        """the cursor: a user variable of type usize assigned in the loop and used as the start of the lookup range"""
        cands = set()
        for bi in self.body_blocks:
            for st in self.b.blocks[bi]['stmts']:
                l = st['dst']['l']
                if not st['dst']['proj'] and self.b.local_ty(l) == 'usize' and self.b.local_name(l):
                    cands.add(l)
        return cands

    def term(self, op):
        return term_of(self.fl, op)

    def range_desc(self, op):
        """describe `&source_data[a..b]` / `[a..]` / `[..b]` / `[i]` operands: (base_is_src, kind, start, end)"""
        fl = self.fl
        for o in fl.origins(op):
            if o.kind == 'call' and o.key == 'std::ops::Index::index':
                t = self.b.blocks[o.bb]['term']
                base = fl.origins(t['args'][0])
                idx = strip_payload(term_of(fl, t['args'][1]))
                if idx[0] == 'adt' and idx[1].startswith('std::ops::Range'):
                    return (self.is_src(base), idx[1].split('::')[-1], dict(zip(idx[3], idx[4])), o.bb)
                return (self.is_src(base), 'elem', {'i': idx}, o.bb)
        return None
