"""C14 — an unchanged tree is never re-sent (DESIGN §7 C14)."""
from rules.common import *  # noqa: F401,F403
from rules.oneway import RUN_LOCAL, RUN_REMOTE
from rules import C19
from callgraph import callgraph_of
import shell
import shtemplate

CONFIGS = ['cli']
LEVEL = 'other'
EXPLANATION = (
    'Decides: (R1) the send decision needs_transfer is exactly absent OR size differs OR mtime differs (decision DAG, exhaustive); (R2) the mtime written to the '
    'destination - the argument of set_local_mtime for local/pull deliveries and the @{t} hole of the remote touch for push - is the source FileMeta.mtime of the same '
    'path through a pure copy chain (no arithmetic); (R3) all three writer/reader pairs use whole epoch seconds: mtime_secs = duration_since(UNIX_EPOCH).as_secs(), '
    'set_local_mtime = UNIX_EPOCH + Duration::from_secs(secs), remote writer `touch -d @secs`, remote reader keeps the part of %T@ before the dot; (R4) a failure to '
    'set the mtime is not silent; (R5) transfer only on needs_transfer (the C19 plan rule), and is_excluded is only ever given paths relative to the synchronised root (a listing emptied by a pattern that matches the location of the tree itself would make every file look new); (R6) every FileMeta built from a local stat takes size and mtime from one Metadata obtained by a link-following stat (the walk and the delivery follow links too). (R7) between the scan of the destination and build_plan an entry is dropped only by a predicate that answers false only where the source listing lacks the path (a source file whose destination entry is dropped would be re-sent for ever). R2: a combinator that can drop or replace the value (filter, or, zip) breaks the copy chain. Not decided: behaviour of touch/find on the remote; far-future values. (R8) every function reachable from the one-way sync entry points that renames a file onto a non-staging path hands that very path (captures resolved) to set_local_mtime, reachable from the rename: a fast path that publishes files of its own without the source mtime is re-sent for ever.')
ASSUMPTIONS = ['touch -d @N sets the mtime to N seconds after the epoch; find -printf %T@ prints seconds[.fraction]']


def run(ctx):
    F = ctx.F['cli']
    ctx.attempt(C19.needs_transfer_rule, ctx, F, 'C14.R1')
    ctx.rule('C14.R2', 'mtime written to the destination == source FileMeta.mtime of the same path (pure copy chain)', floor=3)
    ctx.rule('C14.R3', 'units: whole epoch seconds at every writer/reader pair', floor=4)
    ctx.rule('C14.R4', 'the result of setting the mtime is not discarded', floor=2)
    ctx.rule('C14.R6', 'every local FileMeta takes size and mtime from one link-following stat of the path that is delivered', floor=1)
    ctx.attempt(C19.plan_rules, ctx, F, 'C14.R5')
    ctx.attempt(C19.excluded_callers, ctx, F, 'C14.R5')  # the listings the plan compares are matched against excludes by relative path only
    ctx.attempt(r2, ctx, F)
    ctx.attempt(r3, ctx, F)
    ctx.attempt(r4, ctx, F)
    ctx.attempt(r6, ctx, F)
    ctx.rule('C14.R7', 'the destination listing the plan looks source paths up in is the scan itself, or the scan minus entries the source does not have', floor=2)
    ctx.attempt(dst_listing_complete, ctx, F, 'C14.R7')
    ctx.rule('C14.R8', 'every function under the one-way sync that renames a file into place also stamps that very path with set_local_mtime after the rename', floor=2)
    ctx.attempt(every_publication_stamped, ctx, F, 'C14.R8')


def every_publication_stamped(ctx, F, rid):
    """The quick check of the next run compares (size, whole-second mtime): a file that is put in place WITHOUT the source mtime
    is planned and sent again on every later run.  Whatever delivers a file to a local destination - the two delivery functions,
    or a fast path added next to them (empty files, links, small files) - publishes with a rename; the necessary condition decided
    here: in every crate function reachable from the one-way sync entry points that renames onto a non-staging path, the same path
    (same origins, captures resolved) is handed to set_local_mtime, and when both sit in one body the stamp is reachable from the
    rename.  A rename whose destination the function was handed by its caller and does not stamp itself is not followed."""
    from rules import C04
    cg = callgraph_of(F)
    graph = cg.reach([RUN_LOCAL, RUN_REMOTE])
    tops = sorted({b.path.split('::{')[0] for b, bb, c in cg.call_sites(lambda c: c.endswith('fs::rename'), within=graph)})
    for top in tops:
        bodies = [x for x in F.nested(top)]
        if F.body(top) is not None and F.body(top) not in bodies:
            bodies.append(F.body(top))
        key = lambda body, op: frozenset((pb.path, o.kind, str(o.key), o.bb, tuple(o.path)) for pb, o in C04.capture_origins(F, body, op) if o.kind != 'comb')
        stamps = []
        for body in bodies:
            fl = flow_of(body)
            for sb, st in fl.calls_to('meta::set_local_mtime'):
                stamps.append((body, sb, key(body, st['args'][0])))
        for body in bodies:
            fl = flow_of(body)
            for rb, rt in fl.calls(lambda c: c.endswith('fs::rename')):
                if rb not in fl.cfg.reachable():
                    continue
                if is_staging_name(F, fl, rt['args'][1]) or all(o.kind == 'call' and str(o.key).endswith('tmp_path') for pb, o in C04.capture_origins(F, body, rt['args'][1])):
                    continue            # moving something TO a staging name publishes nothing
                k = key(body, rt['args'][1])
                short = top.split('::')[-1]
                if not k:
                    ctx.undecided(rid, '%s renames onto a path whose origin is not read' % short)
                    continue
                same = [(sbody, sb) for sbody, sb, sk in stamps if sk == k]
                ordered = [1 for sbody, sb in same if sbody is not body or fl.cfg.can_reach(rb, sb)]
                if ordered:
                    ctx.ok(rid, '%s:rename-then-stamp' % short, 'the renamed-onto path is handed to set_local_mtime after the rename', term_loc(body, rb))
                elif same:
                    ctx.bad(rid, '%s:stamp-before-rename' % short, '%s stamps the path only before the rename that replaces the file: the published file keeps the time of the run' % short, term_loc(body, rb))
                elif all(kind in ('param', 'upvar') for (_, kind, _, _, _) in k):
                    ctx.undecided(rid, '%s renames onto a path it was handed and does not stamp it itself: whether its callers do is not followed' % short)
                elif top not in __import__('rules.panics', fromlist=['x']).baseline_functions() and stamps:
                    ctx.undecided(rid, '%s (new code) renames a file into place and stamps some other path: which is which is not decided' % short)
                else:
                    ctx.bad(rid, '%s:publishes-without-mtime' % short,
                            '%s renames a file into place under the synchronised destination and never sets its mtime to the source\'s: the next run sees a quick-check mismatch and sends the file again (the mirror never converges)' % short,
                            term_loc(body, rb))


RESTRICTING = ('filter', 'filter_map', 'take_while', 'skip_while', 'skip', 'take', 'step_by', 'retain', 'split_off', 'remove', 'extract_if')
PASSING = ('collect', 'into_iter', 'iter', 'cloned', 'copied', 'map', 'clone', 'unwrap_or_default', 'unwrap_or', 'unwrap_or_else', 'from_iter', 'to_owned', 'into', 'from', 'branch', 'deref', 'as_ref')


def dst_listing_complete(ctx, F, rid):
    """needs_transfer(src_meta, dst.get(path)) says "absent" for a path whose destination entry was dropped before the plan was
    built: the file is delivered, dropped from the listing again on the next run, and re-sent for ever.  So between the scan of
    the destination and build_plan an entry may only be dropped when the SOURCE listing does not have that path (such an entry is
    never looked up; dropping it only keeps it out of the delete set)."""
    n = 0
    for entry in (RUN_LOCAL, RUN_REMOTE):
        b = work_body(F, entry, ['plan::build_plan'])
        if b is None:
            continue
        fl = flow_of(b)
        for pb, pt in fl.calls_to('plan::build_plan'):
            src_sig = {(o.kind, str(o.key), o.bb) for o in fl.origins(pt['args'][0]) if o.kind == 'call'}
            # walk the destination operand back to the scan, noting the adaptors that can drop entries
            work, seen_, restrict, scans, unread = [pt['args'][1]], set(), [], set(), []
            while work and len(seen_) < 200:
                cur = work.pop()
                if cur['k'] == 'const':
                    continue
                for o in fl.origins(cur, mut_calls=True):
                    k_ = (o.kind, str(o.key), o.bb)
                    if k_ in seen_ or o.kind in ('comb', 'agg', 'const'):
                        continue
                    seen_.add(k_)
                    last = str(o.key).split('::')[-1]
                    if o.kind in ('call', 'mutcall') and str(o.key).startswith('meta::discover_'):
                        scans.add(k_)
                    elif o.kind in ('call', 'mutcall') and o.bb is not None and last in RESTRICTING:
                        restrict.append((o.bb, last))
                        work.append(b.blocks[o.bb]['term']['args'][0])
                    elif o.kind in ('call', 'mutcall') and o.bb is not None and last in PASSING:
                        work.append(b.blocks[o.bb]['term']['args'][0])
                    elif o.kind in ('call', 'mutcall'):
                        unread.append(str(o.key))
            key = '%s:dst-listing-complete' % entry.split('::')[-1]
            n += 1
            if not restrict:
                if unread and not scans:
                    ctx.undecided(rid, '%s: the destination listing handed to build_plan comes out of %s, which is not read' % (entry.split('::')[-1], unread[0].split('::')[-1]))
                else:
                    ctx.ok(rid, key, 'the scan of the destination reaches build_plan with every entry', term_loc(b, pb))
                continue
            verdicts = []
            for rbb, kind in restrict:
                rt = b.blocks[rbb]['term']
                pred = None
                for a in rt['args'][1:]:
                    if a['k'] == 'const':
                        continue
                    for o in fl.origins(a):
                        if o.kind == 'agg' and F.body(str(o.key)) is not None:
                            pred = F.body(str(o.key))
                if kind not in ('filter', 'retain') or pred is None:
                    verdicts.append((None, rbb, 'entries are dropped by `%s`' % kind))
                    continue
                pfl = flow_of(pred)
                # a lookup of the element's path in the captured SOURCE listing
                lookups = []
                for lb, lt in pfl.calls(lambda c: c.split('::')[-1] in ('contains_key', 'get') and 'BTreeMap' in c):
                    mo = [o for o in pfl.origins(lt['args'][0]) if o.kind != 'comb']
                    is_src = False
                    for o in mo:
                        if o.kind == 'upvar' and o.key is not None:
                            for blk in b.blocks:
                                for st in blk['stmts']:
                                    rv = st['rv']
                                    if rv['k'] == 'agg' and rv.get('ak') == 'closure' and norm(rv['def']) == pred.path and int(o.key) < len(rv['ops']):
                                        cap = {(x.kind, str(x.key), x.bb) for x in fl.origins(rv['ops'][int(o.key)]) if x.kind == 'call'}
                                        is_src = is_src or bool(cap & src_sig)
                    if is_src:
                        lookups.append(lb)
                if not lookups:
                    verdicts.append((False, rbb, 'the predicate does not consult the source listing'))
                    continue
                # "the predicate answers false" must imply "the source does not have the path": every value it can return is the
                # constant true, the lookup's own answer, or a false that sits behind the lookup's negative edge
                absent = set()
                for lb in lookups:
                    oc = pfl.outcomes(lb)
                    absent |= oc.get('false', set()) | oc.get('None', set())
                good, unread_ = True, None
                for (rb_, kind_, data_) in ret_defs(pred):
                    if kind_ == 'call':
                        if rb_ in lookups and callee(data_).endswith('contains_key'):
                            continue
                        good, unread_ = None, 'it returns the result of %s' % (callee(data_) or '?').split('::')[-1]
                        continue
                    rv_ = data_
                    if rv_['k'] == 'use' and rv_['ops'][0]['k'] == 'const':
                        v_ = rv_['ops'][0].get('v')
                        if v_ in (1, True):
                            continue
                        if absent and pfl.cfg.edges_guard(absent, rb_):
                            continue
                        good, unread_ = None, 'it can answer false on a path that is not behind "the source does not have it"'
                        continue
                    if rv_['k'] == 'use' and rv_['ops'][0]['k'] != 'const' and any(o.kind == 'call' and o.bb in lookups for o in pfl.origins(rv_['ops'][0])) and \
                            all(o.kind == 'call' and o.bb in lookups for o in pfl.origins(rv_['ops'][0]) if o.kind != 'comb'):
                        continue
                    good, unread_ = None, 'what it returns is not read'
                if good:
                    verdicts.append((True, rbb, 'an entry the source has is always kept'))
                else:
                    verdicts.append((None, rbb, 'the predicate consults the source listing, but %s' % unread_))
            bad = [v for v in verdicts if v[0] is False]
            und = [v for v in verdicts if v[0] is None]
            if bad:
                ctx.bad(rid, key, '%s drops entries from the destination listing before build_plan looks source paths up in it (%s): a source file whose destination entry is dropped '
                        'counts as absent, is delivered, dropped from the listing again on the next run and re-sent for ever' % (entry.split('::')[-1], bad[0][2]), term_loc(b, bad[0][1]))
            elif und:
                ctx.undecided(rid, '%s filters the destination listing before build_plan: %s' % (entry.split('::')[-1], und[0][2]))
            else:
                ctx.ok(rid, key, 'entries are dropped from the destination listing only where the source has no such path', term_loc(b, pb))
    if n == 0:
        ctx.missing(rid, 'build_plan call sites in run_local / run_remote')


def loop_mtime_ok(F, body, arg_op, max_hops=3):
    """`arg_op` (an Option<i64> handed to a delivery fn) == src_meta.get(rel).map(|m| m.mtime) for the loop's rel."""
    fl = flow_of(body)
    os_ = fl.origins(arg_op)
    # resolve captures of the spawned task
    cur_body = body
    hops = 0
    while any(o.kind == 'upvar' for o in os_) and hops < max_hops:
        nxt = set()
        for o in os_:
            if o.kind == 'upvar' and o.key is not None and cur_body.parent:
                pb = F.body(cur_body.parent)
                for blk in pb.blocks:
                    for st in blk['stmts']:
                        rv = st['rv']
                        if rv['k'] == 'agg' and rv.get('ak') in ('closure', 'coroutine') and norm(rv['def']) == cur_body.path:
                            nxt |= {(pb.path, x) for x in flow_of(pb).origins(rv['ops'][int(o.key)])}
            else:
                nxt.add((cur_body.path, o))
        bodies = {bp for bp, _ in nxt}
        if len(bodies) != 1:
            return False, 'ambiguous capture'
        cur_body = F.body(list(bodies)[0])
        os_ = {o for _, o in nxt}
        hops += 1
    fl = flow_of(cur_body)
    gets = [o for o in os_ if o.kind == 'call' and o.key.endswith('::get')]
    # a mapper given as a function item (`.and_then(mtime_of)`) is judged like a mapping closure
    fnmaps = [o for o in os_ if o.kind == 'const' and str(o.key).startswith('fn:') and F.body(str(o.key)[3:]) is not None]
    others = [o for o in os_ if o.kind not in ('comb', 'agg') and o not in gets and o not in fnmaps]
    if not gets or others:
        return False, 'not a map lookup (%s)' % sorted('%s:%s' % (o.kind, o.key) for o in others)
    # the chain may project (`map` / `and_then` with a mapper judged below); a combinator that can DROP or REPLACE the value
    # (`filter(|&t| t > 0)`, `or`, `xor`, `zip`, `take`) makes some source mtimes unreachable
    for o in os_:
        if o.kind == 'comb' and str(o.key).split('::')[-1] not in ('map', 'and_then', 'as_ref', 'copied', 'cloned', 'as_deref', 'map_or', 'map_or_else'):
            return False, 'the value passes through %s: it can be dropped or replaced on the way' % str(o.key).split('::')[-1]
    for g in gets:
        m = call_arg_origins(fl, g.bb, 0)
        k = call_arg_origins(fl, g.bb, 1)
        # the map is the *source* metadata (what build_plan got as first argument)
        plans = fl.calls_to('plan::build_plan')
        if not plans:
            return False, 'no build_plan in the same body'
        src_o = {(x.kind, x.key, x.bb) for x in fl.origins(plans[0][1]['args'][0])}
        if {(x.kind, x.key, x.bb) for x in m} != src_o:
            return False, 'looked up in a map other than the source metadata'
        if not all(x.kind == 'call' and x.key == 'std::iter::Iterator::next' for x in k):
            return False, 'key is not the loop path'
    # a mapping closure, if any, projects `.mtime` only; without one the whole FileMeta is handed on (the callee must project)
    projected = False
    for o in os_:
        if (o.kind == 'agg' and F.body(o.key) is not None) or o in fnmaps:
            cb = F.body(o.key) if o.kind == 'agg' else F.body(str(o.key)[3:])
            cfl = flow_of(cb)
            ro = {x for x in cfl.origins(0) if x.kind not in ('comb',) and not (x.kind == 'agg' and str(x.key).endswith('option::Option::Some'))}
            # |m| m.mtime, or (for and_then / a function item) Some(m.mtime) on every path: nothing else may be returned
            plain = bool(ro) and all(x.kind == 'param' and x.path[-1:] == ('mtime',) for x in ro)
            if plain and not cb.local_ty(0).startswith(('i64', 'u64')):
                # Option-returning mapper: every value it returns is built as Some(..)
                for rb_, kind_, data_ in ret_defs(cb):
                    if not (kind_ == 'assign' and data_['k'] == 'agg' and data_.get('vname') == 'Some'):
                        plain = False
            if not plain:
                return False, 'the mapper %s is not |m| m.mtime (it returns %s)' % (cb.path.split('::')[-1], sorted({'%s:%s' % (x.kind, x.key) for x in ro})[:3])
            projected = True
    return True, ('projected' if projected else 'whole')


def r2(ctx, F, rid='C14.R2'):
    cg = callgraph_of(F)
    # (a) inside the delivery fns: set_local_mtime(dst, t) with t a pure copy of ONE parameter (the Option<i64> itself, or the
    #     `.mtime` of an Option<FileMeta>), on the path that was renamed onto, after the rename
    deliv = {}      # fn -> (slot of the time-carrying parameter, projected inside the fn?)
    inlined_deliveries = []
    for fn in ('incremental::deliver_local', 'incremental::deliver_pull'):
        b = work_body(F, fn, ['meta::set_local_mtime'])
        if b is None and F.body(fn) is None:
            # the delivery helper was written out at its call site: the same obligations on the body that now holds the
            # rename and the set_local_mtime call (the time is judged directly against the loop's source metadata)
            entry = RUN_LOCAL if fn.endswith('deliver_local') else RUN_REMOTE
            hosts = [x for x in F.nested(entry) if flow_of(x).calls_to('meta::set_local_mtime') and flow_of(x).calls(lambda c: c.endswith('fs::rename'))]
            if not hosts:
                ctx.missing(rid, '%s (or its body written out under %s)' % (fn, entry))
            for hb in hosts:
                hfl = flow_of(hb)
                renames = hfl.calls(lambda c: c.endswith('fs::rename'))
                for sb, st in hfl.calls_to('meta::set_local_mtime'):
                    ok_t, why = loop_mtime_ok(F, hb, st['args'][1], max_hops=6)
                    pure = ok_t and why == 'projected'
                    dkey = lambda op_: {(o.kind, str(o.key), o.bb, tuple(o.path)) for o in hfl.origins(op_) if o.kind != 'comb'}
                    dst_ok = any(dkey(rt_['args'][1]) == dkey(st['args'][0]) for rb_, rt_ in renames)
                    after = all(hfl.guarded_by(sb, rb_, 'Ok') for rb_, _ in renames)
                    if not after:
                        # a rename that happens only on some paths (`if let Some(tmp) = &self.staged { rename(..) }`): what the
                        # clause needs is that the time is never stamped BEFORE a rename that follows, nor after one that failed
                        def _err_reaches(rb_):
                            return any(sb in hfl.cfg.reach(t_) for (s_, t_, lab) in hfl.outcomes(rb_).get('Err', set()))
                        after = all(not hfl.cfg.can_reach(sb, rb_) and not _err_reaches(rb_) for rb_, _ in renames)
                    ctx.check(pure and dst_ok and after, rid, '%s:set_local_mtime(dst, t)' % fn.split('::')[-1], 'time = the source metadata mtime of the loop path, on the delivered file, after the rename',
                              'the written-out %s sets a modified value / on another path / before the rename (time=%s (%s), dst=%s, after rename=%s)' % (fn.split('::')[-1], pure, why, dst_ok, after), term_loc(hb, sb))
                    inlined_deliveries.append(fn)
            continue
        if b is None:
            # the fn exists but does not call set_local_mtime itself: the stamp may sit in a helper it awaits (`staged.commit(mtime)`),
            # which is not followed here - or it may be gone; which of the two is not decided
            from callgraph import callgraph_of as _cgo
            elsewhere = _cgo(F).reaches_callee(fn, lambda c: c == 'meta::set_local_mtime')
            if not elsewhere:
                ctx.bad(rid, '%s:set_local_mtime-exists' % fn.split('::')[-1], '%s no longer sets the destination mtime (neither itself nor through anything it calls)' % fn, None)
                continue
            ctx.undecided(rid, '%s does not set the destination mtime itself (a function it calls does: %s)' % (fn.split('::')[-1], elsewhere[0][0].path.split('::{')[0]))
            continue
        fl = flow_of(b)
        for sb, st in fl.calls_to('meta::set_local_mtime'):
            to = fl.origins(st['args'][1])
            plain = [o for o in to if o.kind not in ('comb', 'agg')]
            clos = [o for o in to if o.kind == 'agg' and F.body(o.key) is not None]
            ts = param_slots(F, b, plain)
            paths = {tuple(o.path) for o in plain}
            clos_ok = all((lambda ro: bool(ro) and all(x.kind == 'param' and x.path == ('mtime',) for x in ro))(flow_of(F.body(c.key)).origins(0)) for c in clos)
            pure, inner = False, None
            if ts is not None and len(ts) == 1 and clos_ok:
                if paths == {('0',)} and not clos:
                    pure, inner = True, False
                elif paths and paths <= {('0', 'mtime')} and not clos:
                    pure, inner = True, True
                elif clos and paths <= {(), ('0',)}:
                    pure, inner = True, True
            if pure:
                deliv[fn] = (list(ts)[0], inner)
            renames = fl.calls(lambda c: c.endswith('fs::rename'))
            rdst = set()
            for rb_, rt_ in renames:
                rdst |= (param_slots(F, b, fl.origins(rt_['args'][1])) or set())
            ps = param_slots(F, b, fl.origins(st['args'][0]))
            dst_ok = ps is not None and len(ps) == 1 and ps == rdst
            after = all(fl.guarded_by(sb, rb, 'Ok') for rb, _ in renames) and bool(renames)
            if not renames:
                # the staging + rename runs in a task / closure created here (`spawn_blocking(move || stage_and_publish(..))`):
                # same obligations, the rename's destination resolved through the captures and "after" = behind the Ok edge of
                # the call the closure was handed to
                for nb in F.nested(b.path):
                    if nb.path == b.path:
                        continue
                    nfl = flow_of(nb)
                    for rb_, rt_ in nfl.calls(lambda c: c.endswith('fs::rename')):
                        rdst |= (param_slots(F, nb, nfl.origins(rt_['args'][1])) or set())
                        top_clo = nb
                        while top_clo.parent and top_clo.parent != b.path and F.body(top_clo.parent) is not None:
                            top_clo = F.body(top_clo.parent)
                        for cb_, ct_ in fl.calls(lambda c: True):
                            if any(o.kind == 'agg' and o.key == top_clo.path for a_ in ct_['args'] if a_['k'] != 'const' for o in fl.origins(a_)):
                                oc_ = fl.outcomes(cb_)
                                after = bool(oc_.get('Ok')) and fl.cfg.edges_guard(oc_['Ok'], sb)
                dst_ok = ps is not None and len(ps) == 1 and ps == rdst
            ctx.check(pure and dst_ok and after, rid, '%s:set_local_mtime(dst, t)' % fn.split('::')[-1], 'time = one parameter (or its .mtime) unchanged, on the delivered file, after the rename',
                      '%s sets a modified value / on another path / before the rename (pure=%s, dst=%s, after rename=%s)' % (fn, pure, dst_ok, after), term_loc(b, sb))
    # (b) at the call sites: that parameter is src_meta.get(rel) of the loop path, with the `.mtime` projection on exactly one side
    n = 0
    for fn, key in ((RUN_LOCAL, 'run_local'), (RUN_REMOTE, 'run_remote')):
        for body in F.nested(fn):
            fl = flow_of(body)
            for cb, ct in fl.calls_to('incremental::deliver_local', 'incremental::deliver_pull', 'transfer::transfer_file_to_remote'):
                c = callee(ct)
                slot, inner = deliv.get(c, ({'incremental::deliver_local': 3, 'incremental::deliver_pull': 4, 'transfer::transfer_file_to_remote': 4}[c], False))
                ok, why = loop_mtime_ok(F, body, ct['args'][slot - 1])
                if ok:
                    outer = why == 'projected'
                    if outer == inner:
                        ok, why = False, ('`.mtime` is projected twice' if outer else 'the whole FileMeta is handed over but never projected to `.mtime`')
                n += 1
                ctx.check(ok, rid, '%s:%s(mtime)' % (key, c.split('::')[-1]), 'mtime = src_meta.get(rel).map(|m| m.mtime)',
                          'the mtime handed to %s is not the source metadata\'s mtime of the same path: %s' % (c.split('::')[-1], why), term_loc(body, cb))
    if n + len(set(inlined_deliveries)) < 3:
        ctx.missing(rid, 'delivery call sites (found %d)' % n)
    # push: the @{t} hole is the mtime parameter
    b = work_body(F, 'transfer::transfer_file_to_remote', ['tokio::process::Command::new'])
    cmds = shtemplate.ssh_commands(F, b) if b is not None else []
    ok = False
    if len(cmds) == 1:
        cmd, items = cmds[0]
        pieces, holes = shtemplate.flatten(items, True)
        words, probs = shell.tokenize(pieces)
        for conn, cw in shell.split_commands(words):
            if shell.simple_verb(cw) == 'touch':
                ws = [w for w in cw]
                texts = [shell.word_text(w) for w in ws]
                if '-d' in texts:
                    i = texts.index('-d')
                    if i + 1 < len(ws):
                        w = ws[i + 1]
                        if len(w) == 2 and w[0].kind == 'lit' and w[0].text == '@' and w[1].kind == 'hole' and holes[w[1].hole][1] == 'int':
                            ok = conn == '&&'
    ctx.check(ok, rid, 'push:touch -d @{mtime}', 'remote mtime set by `&& touch -d @<integer seconds>` on the published file',
              'the push command does not set the destination mtime from the integer source mtime', loc(b, b.lo) if b is not None else None)


def derivation_calls(F, body, op, calls, consts, depth=0, seen=None):
    """collect the callees (and constant arguments) of every call that contributes to the value of `op`, through call arguments
    and through the bodies of closures handed to combinators"""
    seen = set() if seen is None else seen
    fl = flow_of(body)
    for o in fl.origins(op):
        k = (body.path, o.kind, str(o.key), o.bb)
        if k in seen or depth > 12:
            continue
        seen.add(k)
        if o.kind == 'call' and o.bb is not None:
            t = body.blocks[o.bb]['term']
            calls.add(o.key)
            for a in t['args']:
                if a['k'] == 'const':
                    consts.add(a.get('dbg', ''))
                else:
                    derivation_calls(F, body, a, calls, consts, depth + 1, seen)
        elif o.kind == 'agg' and F.body(o.key) is not None:
            cb = F.body(o.key)
            for nb in [cb] + [x for x in F.nested(o.key) if x.path != cb.path]:
                for bb, t in flow_of(nb).calls():
                    calls.add(callee(t))
                    for a in t['args']:
                        if a['k'] == 'const':
                            consts.add(a.get('dbg', ''))


def r3(ctx, F):
    # mtime_secs
    import semantic_anchors
    MT = semantic_anchors.mtime_helper(F) or 'meta::mtime_secs'      # located by use: (&Metadata) -> i64 feeding FileMeta.mtime
    b = F.body(MT)
    calls = set()
    consts = set()
    if b is None:
        # no helper: the conversion is written out where FileMeta is built from a local stat - judge the derivation of that
        # `mtime` value (every call that contributes to it, closures of combinators included)
        for body in F.bodies.values():
            if '::tests' in body.path or not body.file.endswith('bin/copia/meta.rs'):
                continue
            fl = flow_of(body)
            for bi in fl.cfg.reachable():
                for st in body.blocks[bi]['stmts']:
                    rv = st['rv']
                    if rv['k'] == 'agg' and rv.get('adt') == 'plan::FileMeta':
                        fields = dict(zip(rv.get('fields') or ['size', 'mtime'], rv['ops']))
                        if any(o.kind == 'call' and o.key == 'std::fs::Metadata::len' for o in fl.origins(fields['size'])):
                            b = body
                            derivation_calls(F, body, fields['mtime'], calls, consts)
        if b is None:
            ctx.missing('C14.R3', 'meta::mtime_secs (or the conversion written out where FileMeta is built)')
    else:
        for body in F.nested(MT):
            fl = flow_of(body)
            for bb, t in fl.calls():
                calls.add(callee(t))
                for a in t['args']:
                    if a['k'] == 'const':
                        consts.add(a.get('dbg', ''))
    ok = 'std::fs::Metadata::modified' in calls and 'std::time::SystemTime::duration_since' in calls and 'std::time::Duration::as_secs' in calls \
        and any('UNIX_EPOCH' in c for c in consts) and not any(x in calls for x in ('std::time::Duration::as_millis', 'std::time::Duration::as_nanos',
                                                                                  'std::time::Duration::subsec_nanos', 'std::time::Duration::as_secs_f64'))
    ctx.check(ok, 'C14.R3', 'mtime_secs', 'modified().duration_since(UNIX_EPOCH).as_secs()', 'mtime_secs is not whole seconds since the Unix epoch', loc(b, b.lo))
    # set_local_mtime
    s = F.body('meta::set_local_mtime')
    if s is None:
        ctx.missing('C14.R3', 'meta::set_local_mtime')
    sfl = flow_of(s)
    sm = sfl.calls_to('std::fs::File::set_modified')
    ok = False
    for bb, t in sm:
        to = sfl.origins(t['args'][1])
        for o in to:
            if o.kind == 'call' and o.key == 'std::ops::Add::add':
                a0 = sfl.body.blocks[o.bb]['term']['args'][0]
                a1 = call_arg_origins(sfl, o.bb, 1)
                epoch = a0['k'] == 'const' and 'UNIX_EPOCH' in a0.get('dbg', '')
                secs = any(x.kind == 'call' and x.key == 'std::time::Duration::from_secs' for x in a1)
                if secs:
                    for x in a1:
                        if x.kind == 'call' and x.key == 'std::time::Duration::from_secs':
                            so = call_arg_origins(sfl, x.bb, 0)
                            # derives from the `secs` parameter through max(0)/try_from/unwrap_or only
                            # derives from the `secs` parameter through clamps / conversions only (max(0), try_from, unsigned_abs,
                            # unwrap_or(0)): no arithmetic that would change the unit
                            CONV = ('unsigned_abs', 'max', 'try_from', 'try_into', 'from', 'into', 'unwrap_or', 'unwrap_or_default', 'abs')

                            def through(os_, depth=0):
                                ok_, seen_p = True, False
                                for y in os_:
                                    if y.kind == 'param' and y.key == 2:
                                        seen_p = True
                                    elif y.kind in ('comb', 'const'):
                                        continue
                                    elif y.kind == 'call' and str(y.key).split('::')[-1] in CONV and depth < 5:
                                        o2, p2 = through(call_arg_origins(sfl, y.bb, 0), depth + 1)
                                        ok_, seen_p = ok_ and o2, seen_p or p2
                                    else:
                                        ok_ = False
                                return ok_, seen_p
                            okc, seenp = through(so)
                            secs = okc and (seenp or any(y.kind == 'comb' for y in so))
                            secs = secs and not any(y.kind == 'op' for y in so)
                ok = epoch and secs
    ctx.check(ok, 'C14.R3', 'set_local_mtime', 'set_modified(UNIX_EPOCH + Duration::from_secs(secs))', 'set_local_mtime does not interpret its argument as whole epoch seconds', loc(s, s.lo))
    # remote reader: integer part before '.'
    # (the body that parses ONE record: parse_remote_meta_output itself or the function it maps over the records)
    p = C19.record_parser_body(F) or F.body('meta::parse_remote_meta_output')
    pfl = flow_of(p)
    dot = [(sb, st) for sb, st in pfl.calls(lambda c: c.endswith('::split')) if any(o.kind == 'const' and o.key == ord('.') for o in pfl.origins(st['args'][1]))]
    first = False
    for nb, nt in pfl.calls_to('std::iter::Iterator::next'):
        if dot and any(o.kind == 'call' and o.bb == dot[0][0] for o in pfl.origins(nt['args'][0])):
            first = True
    if not dot:
        # the same cut written with split_once('.'): the text before the dot is field .0 of its payload (whole text when there is no dot)
        so_ = [(sb, st) for sb, st in pfl.calls(lambda c: c.endswith('::split_once')) if any(o.kind == 'const' and o.key == ord('.') for o in pfl.origins(st['args'][1]))]
        for pb_, pt_ in pfl.calls(lambda c: c.endswith('::parse') and 'i64' in (pfl.body.blocks[0] and '' or '') or c.endswith('::parse')):
            if 'i64' not in (pt_['func'].get('fn_args') or ''):
                continue
            io = [o for o in pfl.origins(pt_['args'][0]) if o.kind != 'comb']
            direct0 = any(o.kind == 'call' and o.bb == so_[0][0] and tuple(o.path)[-1:] == ('0',) for o in io) if so_ else False
            direct1 = any(o.kind == 'call' and o.bb == so_[0][0] and tuple(o.path)[-1:] == ('1',) for o in io) if so_ else False
            # `.map_or(whole, |(secs, _)| secs)`: the closure hands back the first half of the pair
            via_closure = False
            for o in io:
                cb_ = F.body(o.key) if o.kind == 'agg' else None
                if cb_ is not None:
                    ro = [x for x in flow_of(cb_).origins(0) if x.kind != 'comb']
                    via_closure = bool(ro) and all(x.kind == 'param' and tuple(x.path)[-1:] == ('0',) for x in ro)
            uses_split = so_ and any(o.kind == 'call' and o.bb == so_[0][0] for o in io)
            if uses_split and (direct0 or via_closure) and not direct1:
                dot, first = so_, True
    ctx.check(bool(dot) and first, 'C14.R3', 'remote-reader', 'mtime = integer part of %T@ (text before the first dot)',
              'the remote listing parser does not truncate %T@ to whole seconds', loc(p, p.lo))
    # remote writer listing uses %T@ (seconds since epoch)
    w = [f for f in F.formats if f['file'].endswith('bin/copia/meta.rs') and any(isinstance(x, str) and '%T@' in x for x in f['pieces'])]
    ctx.check(len(w) == 1, 'C14.R3', 'remote-listing-%T@', 'listing prints %T@ (epoch seconds)', 'the remote listing does not print %T@', None)


def r4(ctx, F):
    n = 0
    seen_keys = {}
    for b in sorted(F.bodies.values(), key=lambda x: x.path):
        if '::tests' in b.path or 'generated' in b.file:
            continue
        fl = flow_of(b)
        for sb, st in fl.calls_to('meta::set_local_mtime'):
            n += 1
            top = b.path.split('::{')[0].split('::')[-1]
            seen_keys[top] = seen_keys.get(top, 0) + 1
            fn = top + ('' if seen_keys[top] == 1 else '#%d' % seen_keys[top])
            ctx.check(not fl.result_discarded(sb), 'C14.R4', '%s:set_local_mtime-result' % fn.split('::')[-1], 'result inspected / propagated',
                      '`let _ = set_local_mtime(..)`: when setting the mtime fails (e.g. a read-only file copied with mode 0444, opened for write) the run still '
                      'exits 0, the destination keeps the copy time and the file is re-sent on every following run', term_loc(b, sb))
    if n < 2:
        ctx.missing('C14.R4', 'set_local_mtime call sites (found %d)' % n)


STAT_FOLLOW = ('std::fs::metadata', 'std::fs::File::metadata', 'std::path::Path::metadata', 'tokio::fs::metadata')
STAT_NOFOLLOW = ('std::fs::symlink_metadata', 'std::fs::DirEntry::metadata', 'std::path::Path::symlink_metadata', 'tokio::fs::symlink_metadata')


def r6(ctx, F):
    import semantic_anchors
    """The quick check compares (size, mtime) of what was delivered.  Delivery opens the path (following links) and the tree
    walk admits entries by Path::is_file (following links), so the stat recorded for the entry must follow links too, and both
    fields must come from the same stat result."""
    n = 0
    # only what the recursive one-way sync can reach: a FileMeta built for another purpose (a statistics snapshot of bisync)
    # is not what the quick check compares
    scope = callgraph_of(F).reach(['incremental::run_sync_recursive'])
    for body in F.bodies.values():
        if body.path.startswith('meta::tests') or '::tests::' in body.path or body.path not in scope:
            continue
        fl = flow_of(body)
        for bi in fl.cfg.reachable():
            for st in body.blocks[bi]['stmts']:
                rv = st['rv']
                if not (rv['k'] == 'agg' and rv.get('adt') == 'plan::FileMeta'):
                    continue
                fields = dict(zip(rv.get('fields') or ['size', 'mtime'], rv['ops']))
                so = [o for o in fl.origins(fields['size']) if o.kind != 'comb']
                lens = [o for o in so if o.kind == 'call' and o.key == 'std::fs::Metadata::len']
                if not lens or len(lens) != len(so):
                    continue    # not built from a local stat (the remote listing parser builds it from text)
                n += 1
                key = '%s:FileMeta' % body.path.split('::{')[0]
                stats = set()
                for o in lens:
                    stats |= {(x.kind, x.key, x.bb) for x in call_arg_origins(fl, o.bb, 0) if x.kind != 'comb'}
                mstats = set()
                mo = [o for o in fl.origins(fields['mtime']) if o.kind != 'comb']
                MT_ = semantic_anchors.mtime_helper(F) or 'meta::mtime_secs'
                via = all(o.kind == 'call' and o.key == MT_ for o in mo) and bool(mo)
                for o in mo:
                    if o.kind == 'call' and o.key == MT_:
                        mstats |= {(x.kind, x.key, x.bb) for x in call_arg_origins(fl, o.bb, 0) if x.kind != 'comb'}
                if not via:
                    # the conversion written out: the Metadata whose `modified()` the value derives from
                    work, seen_ = list(mo), set()
                    while work:
                        o = work.pop()
                        if o.kind != 'call' or o.bb is None or (o.key, o.bb) in seen_:
                            continue
                        seen_.add((o.key, o.bb))
                        if o.key == 'std::fs::Metadata::modified':
                            via = True
                            mstats |= {(x.kind, x.key, x.bb) for x in call_arg_origins(fl, o.bb, 0) if x.kind != 'comb'}
                            continue
                        for a in body.blocks[o.bb]['term']['args']:
                            if a['k'] != 'const':
                                work.extend(x for x in fl.origins(a) if x.kind != 'comb')
                ctx.check(via and mstats == stats, 'C14.R6', key + ':one-stat', 'size = m.len() and mtime = mtime_secs(m) of the same Metadata',
                          'size and mtime of a FileMeta are not taken from the same stat result', loc(body, st.get('line') or body.lo))
                for (k, c, sbb) in sorted(stats, key=str):
                    if k == 'call' and c in STAT_FOLLOW:
                        ok, why = True, ''
                    elif k == 'call' and c in STAT_NOFOLLOW:
                        # acceptable only where symlinks were excluded on this path
                        guards = [gb for gb, gt in fl.calls_to('std::path::Path::is_symlink')
                                  if fl.outcomes(gb).get('false') and fl.cfg.edges_guard(fl.outcomes(gb)['false'], bi)]
                        ok = bool(guards)
                        why = '%s does not follow symbolic links, while the walk (Path::is_file) and the delivery (open/copy) do: a link to a file is compared by the size and mtime of the link itself and re-sent on every run' % c
                    else:
                        ok, why = False, 'the Metadata comes from %s, not from a recognised stat call' % (c,)
                    ctx.check(ok, 'C14.R6', key + ':stat-follows-links', 'Metadata from %s' % c, why, term_loc(body, sbb) if k == 'call' else loc(body, body.lo))
    if n == 0:
        ctx.missing('C14.R6', 'a FileMeta built from a local stat')
