"""C10 — hub paths only ever hold complete, hash-verified content (DESIGN §7 C10)."""
from rules.common import *  # noqa: F401,F403
from rules.hub import Hub, SERVE, LOCK, SAFE_JOIN, TMP_OF, ROOT, SAFE, TAINT, OTHER, FS_PATH_SINKS
import tables

CONFIGS = ['cli']
LEVEL = 'other'
EXPLANATION = (
    'Decides: a live hub name is only ever bound, by rename, to a staged file that was fully streamed, fsynced, hash-verified against the client\'s '
    'claim and exclusively owned. (R1) content is created only at tmp_of()-staging names (and the lock file in the control directory), live names '
    'change only by rename-from-staging or remove_file; (R2) the commit region is entered only on the equal edge of finalize(hasher) == request hash and '
    'the Ok edge of sync_all; on the unequal edge the staging file is removed and no rename is reachable; (R3) the streaming loop hashes exactly what '
    'it stores, reads through take(request len) and leaves only on n == 0; (R4) the number of streamed bytes is compared with `len` before commit; '
    'a Write adaptor in the hub that forwards write() to an inner writer forwards flush() to it too (a buffered tail must not outlive the fsync and the rename); (R5) staging ownership (= C03.R6); (R6) a Get announces len/hash of the bytes it sends (one handle or a held region). '
    'A put handler that keeps its staging file in an Option field is not decided by the per-call path rules (R1-R4), except that a truncating creator on a live name is reported. R6 also: every value that can reach the hash a Get announces is finalize() of a hasher fed from the opened file - never a digest remembered for the path. Not decided: the "at every instant" observation under real interleavings/kills (follows from R1, R2, R5 on paper).')
ASSUMPTIONS = ['rename(2) atomicity; sync_all flushes the staged file', 'blake3::Hasher implements BLAKE3']

MUT = tables.FS_MUTATORS


def run(ctx):
    F = ctx.F['cli']
    ctx.rule('C10.R1', 'content creators target staging names only; live names change only by rename-from-staging / remove_file', floor=3)
    ctx.rule('C10.R2', 'commit region guarded by hash-equal edge and sync_all Ok; mismatch removes staging, no rename reachable', floor=2)
    ctx.rule('C10.R3', 'streaming loop: update(buf[..n]) ~ write_all(buf[..n]); reader = r.take(len); exits only on n == 0', floor=3)
    ctx.rule('C10.R4', 'streamed byte count compared with the declared len before commit', floor=1)
    ctx.rule('C10.R5', 'staging file has a single owner', floor=1)
    ctx.rule('C10.R6', 'Get: announced len/hash and streamed bytes come from one handle (or a held region)', floor=1)
    hub = Hub(ctx, F, 'C10.R1')
    ctx.attempt(r1, ctx, F, hub)
    ctx.attempt(r2_r4, ctx, F, hub)
    from rules import C03
    ctx.attempt(C03.staging_ownership, ctx, F, hub, 'C10.R5')
    # (no instance on the pinned tree: the rule is vacuous until a Write adaptor appears in the hub; mutant N6-* is its positive control)
    ctx.attempt(write_adaptors_forward_flush, ctx, F, 'C10.R2', ['bin/copia/serve.rs', 'bin/copia/wire.rs'])
    ctx.attempt(r6, ctx, F, hub)
    ctx.rule('C10.R7', 'the hasher whose digest is compared with the declared hash holds the bytes of THIS Put only: made for it, or reset before its first update', floor=1)
    ctx.attempt(hasher_fresh_per_put, ctx, F)


def hasher_fresh_per_put(ctx, F):
    """`Hasher::finalize` does not reset: a hasher that outlives one Put (a thread-local scratch, a field of the session) and is not
    reset on EVERY way into the next one still holds the bytes of a Put that was refused - the digest that is compared with the
    declared hash is then blake3(earlier ++ these) and unverified bytes are committed.  Decided per body of the put handler that
    finalizes: the hasher is a `Hasher::new()` of that body, or a `reset()` of the same hasher dominates every `update` and the
    `finalize`; a hasher that arrives from outside and is never reset on the way is a violation."""
    n = 0
    for b in F.nested('serve::handle_put'):
        fl = flow_of(b)
        cfg = fl.cfg
        key = lambda op: frozenset((o.kind, str(o.key), o.bb, tuple(o.path)) for o in fl.origins(op) if o.kind != 'comb')
        fins = [(cb, ct) for cb, ct in fl.calls_to('blake3::Hasher::finalize') if cb in cfg.reachable()]
        for cb, ct in fins:
            n += 1
            hk = key(ct['args'][0])
            os_ = [o for o in fl.origins(ct['args'][0]) if o.kind != 'comb']
            where = b.path.split('::{')[0].split('::')[-1]
            if os_ and all(o.kind == 'call' and str(o.key) in ('blake3::Hasher::new', 'blake3::Hasher::new_keyed', 'blake3::Hasher::default') for o in os_):
                ctx.ok('C10.R7', '%s:hasher-made-for-this-put' % where, 'the hasher is created in the handler', term_loc(b, cb))
                continue
            # a capture of the handler's own fresh hasher (`with_commit_lock(.., || hasher.finalize() ..)`): resolved in the creating body
            from rules import C04 as _C04
            res_ = [(pb_, o_) for pb_, o_ in _C04.capture_origins(F, b, ct['args'][0]) if o_.kind != 'comb']
            if res_ and all(o_.kind == 'call' and str(o_.key) in ('blake3::Hasher::new', 'blake3::Hasher::new_keyed', 'blake3::Hasher::default') for _, o_ in res_):
                ctx.ok('C10.R7', '%s:hasher-made-for-this-put' % where, 'the hasher is created in the handler and captured', term_loc(b, cb))
                continue
            if not os_ or not all(o.kind in ('param', 'upvar') for o in os_):
                ctx.undecided('C10.R7', '%s finalizes a hasher whose origin is not read (%s)' % (where, sorted({o.kind for o in os_})))
                continue
            resets = [rb for rb, rt in fl.calls_to('blake3::Hasher::reset') if key(rt['args'][0]) == hk and rb in cfg.reachable()]
            users = [ub for ub, ut in fl.calls_to('blake3::Hasher::update') if key(ut['args'][0]) == hk and ub in cfg.reachable()] + [cb]
            fresh = bool(resets) and all(any(cfg.dominates(rb, ub) for rb in resets) for ub in users)
            ctx.check(fresh, 'C10.R7', '%s:hasher-outlives-the-put' % where, 'a reset() of the long-lived hasher dominates every update and the finalize of this Put',
                      '%s hashes the upload with a hasher that outlives the request (it arrives from outside: a thread-local / session scratch) and is not reset on every way to its first update: '
                      'after a refused Put it still holds the refused bytes, the next digest is blake3(refused ++ new) and unverified bytes are committed' % where, term_loc(b, cb))
    if not n:
        ctx.undecided('C10.R7', 'no blake3::Hasher::finalize found under serve::handle_put: how the upload is hashed is not read')


def r1(ctx, F, hub):
    if hub.optional_staging:
        ctx.undecided('C10.R1', 'the put handler keeps its staging file in an Option (%s): which paths are created, renamed and removed depends on its value' % hub.optional_staging)
    for b, bb, c in hub.cg.call_sites(lambda c: c in MUT and MUT[c], within=hub.graph):
        t = b.blocks[bb]['term']
        where = b.path.split('::{')[0].split('::')[-1] + ('{closure}' if '::{' in b.path else '')
        short = c.split('::')[-1]
        classes = [hub.path_class(b, t['args'][p]) for p in MUT[c] if p < len(t['args'])]
        key = '%s:%s(%s)' % (where, short, ','.join(classes))
        if hub.optional_staging:
            # what stays decided: a TRUNCATING creator on a live name (File::create / fs::write / fs::copy onto the path itself)
            # empties or rewrites the inode readers hold - whatever the Option says.  An exclusive create (create_new) makes a
            # fresh empty inode and is content-free.
            if c in tables.CONTENT_CREATORS and not c.endswith('OpenOptions::open') and hub.path_class(b, t['args'][tables.CONTENT_CREATORS[c]]) == 'live':
                ctx.bad('C10.R1', key, 'file content is created directly at a live path with %s (the existing inode is truncated in place: a reader that has announced its length and hash '
                        'delivers other bytes; a hard-linked sibling is emptied)' % short, term_loc(b, bb))
            continue
        if c in tables.CONTENT_CREATORS:
            pos = tables.CONTENT_CREATORS[c]
            cls = hub.path_class(b, t['args'][pos])
            if c.endswith('OpenOptions::open'):
                # the lock file: under the control directory (root/.copia), which List hides and the property exempts
                ok = cls == 'control'
                ctx.check(ok, 'C10.R1', key, 'opened path is in the control directory',
                          'a file is opened (possibly for writing) at a %s path outside the staging/control names' % cls, term_loc(b, bb))
            else:
                ctx.check(cls == 'staging', 'C10.R1', key, 'content is created at a tmp_of() staging name',
                          'file content is created directly at a %s path (a reader can observe partial or unverified bytes)' % cls, term_loc(b, bb))
        elif short == 'rename':
            ok = classes[0] == 'staging' and classes[1] in ('live',)
            if not ok and classes == ['staging', 'control']:
                # a file of the control directory (an index, a marker) replaced atomically from its own staging file: not a live name -
                # List hides the directory and no Get reaches it (that it is not the lock file is C03.R1's business)
                ctx.ok('C10.R1', key, 'rename(staging -> a control-directory file): no live name is bound', term_loc(b, bb))
                continue
            ctx.check(ok, 'C10.R1', key, 'rename(staging -> live)', 'rename with unexpected endpoints %s (live names must be bound from staging only)' % classes, term_loc(b, bb))
        elif short in ('remove_file',):
            ok = classes[0] in ('staging', 'live')
            if not ok and classes[0] == 'control' and hub.from_walk(b, t['args'][0]):
                ctx.undecided('C10.R1', '%s removes entries it found by listing the served tree (a clean-up): which files those are is not decided' % where)
                continue
            ctx.check(ok, 'C10.R1', key, 'remove of a staging or live name', 'remove_file on a %s path' % classes[0], term_loc(b, bb))
        elif short == 'remove_dir':
            ctx.ok('C10.R1', key, 'removal of an empty directory: no file content is created, changed or removed', term_loc(b, bb))
        elif short in ('create_dir_all', 'create_dir'):
            ok = classes[0] in ('control', 'parent')
            ctx.check(ok, 'C10.R1', key, 'directory creation (content-free)', 'directory created at a %s path' % classes[0], term_loc(b, bb))
        else:
            ctx.bad('C10.R1', key, 'unexpected file-system mutator %s in the serve call graph' % c, term_loc(b, bb))


def r2_r4(ctx, F, hub):
    if hub.optional_staging:
        ctx.undecided('C10.R2', 'the put handler keeps its staging file in an Option (%s): the fsync / verify / rename chain is judged per call, not per value of that Option' % hub.optional_staging)
        return
    b = F.body('serve::handle_put')
    if b is None:
        ctx.missing('C10.R2', 'serve::handle_put')
    fl = flow_of(b)
    cfg = fl.cfg
    locks = fl.calls(lambda c: c in hub.lock_runners)
    if len(locks) != 1:
        ctx.missing('C10.R2', 'handle_put -> with_commit_lock (exactly one)')
    lb, lt = locks[0]
    # the declared hash / length: handle_put's [u8; 32] and u64 parameters, or those fields of a request-header struct parameter
    is_claim = lambda os_: request_value(F, b, os_, '[u8; 32]')
    is_len_val = lambda os_: request_value(F, b, os_, 'u64')
    updates = fl.calls_to('blake3::Hasher::update')
    hashers = set()
    for ub, ut in updates:
        hashers |= {(o.kind, o.key, o.bb) for o in fl.origins(ut['args'][0])}
    equal, unequal = set(), set()
    for cb, ct in fl.calls_to('std::cmp::PartialEq::eq', 'std::cmp::PartialEq::ne'):
        o0, o1 = fl.origins(ct['args'][0]), fl.origins(ct['args'][1])

        def is_final(os_):
            for o in os_:
                if o.kind == 'call' and o.key == 'blake3::Hasher::finalize':
                    fo = {(x.kind, x.key, x.bb) for x in call_arg_origins(fl, o.bb, 0)}
                    if fo and fo <= hashers:
                        return True
            return False
        if (is_final(o0) and is_claim(o1)) or (is_final(o1) and is_claim(o0)):
            eq, ne = eq_edges(fl, cb)
            equal |= eq
            unequal |= ne
    # any comparison of the declared hash with something else (what that something is may be outside this model: a digest
    # produced by a hashing `Write` adaptor, a helper's return value)
    other_equal, other_unequal = set(), set()
    if not equal:
        for cb, ct in fl.calls_to('std::cmp::PartialEq::eq', 'std::cmp::PartialEq::ne'):
            o0, o1 = fl.origins(ct['args'][0]), fl.origins(ct['args'][1])
            if is_claim(o0) or is_claim(o1):
                eq, ne = eq_edges(fl, cb)
                other_equal |= eq
                other_unequal |= ne
        for bi in cfg.reachable():
            for st_ in b.blocks[bi]['stmts']:
                rv_ = st_['rv']
                if rv_['k'] == 'bin' and rv_['op'] in ('Eq', 'Ne') and (is_claim(fl.origins(rv_['ops'][0])) or is_claim(fl.origins(rv_['ops'][1]))):
                    oc_ = fl.outcomes(None, st_['dst']['l'])
                    other_equal |= oc_.get('true' if rv_['op'] == 'Eq' else 'false', set())
                    other_unequal |= oc_.get('false' if rv_['op'] == 'Eq' else 'true', set())
    if not equal and other_equal and cfg.edges_guard(other_equal, lb) and not updates:
        ctx.undecided('C10.R2', 'handle_put compares the declared hash with a digest computed outside this body (a hashing writer / helper): that it is the hash of exactly the stored bytes is not decided')
        return
    ctx.check(bool(equal) and cfg.edges_guard(equal, lb), 'C10.R2', 'handle_put:commit-needs-hash-equal',
              'commit region entered only on finalize(hasher) == request hash',
              'the commit region is reachable although the hash of the streamed bytes was not found equal to the client\'s declared hash', term_loc(b, lb))
    syncs = fl.calls(lambda c: c in ('std::fs::File::sync_all', 'std::fs::File::sync_data'))
    creates = [(cb, ct) for cb, ct in fl.calls(lambda c: c in tables.CONTENT_CREATORS) if hub.path_class(b, ct['args'][tables.CONTENT_CREATORS[callee(ct)]]) == 'staging']
    fsig = {('call', callee(ct), cb) for cb, ct in creates}
    s_ok = [sb for sb, st in syncs if {(o.kind, o.key, o.bb) for o in fl.origins(st['args'][0])} & fsig]
    ctx.check(any(fl.guarded_by(lb, sb, 'Ok') for sb in s_ok), 'C10.R2', 'handle_put:commit-needs-fsync', 'commit region entered only after sync_all(staging) Ok',
              'the staged file can be renamed into place without having been fsynced', term_loc(b, lb))
    # mismatch edge: staging removed, no rename / commit reachable
    reach_bad = set()
    for (s, t, lab) in unequal:
        reach_bad |= cfg.feasible_after_edge((s, t, lab))
    removes = [rb for rb, rt in fl.calls_to('std::fs::remove_file') if hub.path_class(b, rt['args'][0]) == 'staging' and rb in reach_bad]
    ctx.check(bool(unequal) and lb not in reach_bad and bool(removes), 'C10.R2', 'handle_put:mismatch-removes-staging',
              'on hash mismatch: staging removed, commit region unreachable',
              'on a hash mismatch the staging file is kept or the commit region is still reachable', term_loc(b, lb))
    # ---- R3
    writes = [(wb, wt) for wb, wt in fl.calls_to('std::io::Write::write_all')
              if {(o.kind, o.key, o.bb) for o in fl.origins(wt['args'][0])} & fsig]
    if not writes or not updates:
        ctx.missing('C10.R3', 'handle_put streaming loop (write_all on the staging file / hasher.update)')
    used = set()
    for wb, wt in writes:
        ws = range_sig(fl, wt['args'][1])
        m = None
        for ub, ut in updates:
            if ub in used or range_sig(fl, ut['args'][1]) != ws:
                continue
            if (cfg.dominates(wb, ub) and unconditional_pair(fl, wb, ub)) or (cfg.dominates(ub, wb) and unconditional_pair(fl, ub, wb)):
                m = ub
                break
        if m is not None:
            used.add(m)
        ctx.check(m is not None, 'C10.R3', 'handle_put:write_all~update', 'the bytes stored are the bytes hashed (same buffer, same range)',
                  'bytes written to the staging file are not exactly the bytes fed to the hasher', term_loc(b, wb))
    for ub, ut in updates:
        if ub not in used:
            ctx.bad('C10.R3', 'handle_put:update~write_all', 'hasher.update covers bytes that are not written to the staging file', term_loc(b, ub))
    # reader = r.take(len)
    reads = fl.calls_to('std::io::Read::read')
    take_ok = False
    read_local = None
    read_blocks = set()
    for rb, rt in reads:
        for o in fl.origins(rt['args'][0]):
            if o.kind == 'call' and o.key == 'std::io::Read::take':
                lo = call_arg_origins(fl, o.bb, 1)
                if is_len_val(lo):
                    take_ok = True
                    read_blocks.add(rb)
    # the read that sits in a loop (a primed `while n != 0` has one before the loop and one at the end of the body)
    for rb in sorted(read_blocks):
        if any(rb in blocks for blocks in cfg.loops().values()):
            read_local = rb
    ctx.check(take_ok, 'C10.R3', 'handle_put:reader=take(len)', 'content is read through r.take(len) with the request\'s len',
              'the staging loop does not read through take(<declared len>): it can swallow following frames or stop short', term_loc(b, lb))
    # loop exits only on n == 0 (or an error)
    if read_local is not None:
        loops = cfg.loops()
        heads = [h for h, blocks in loops.items() if read_local in blocks]
        ok_exit = True
        for h in heads:
            blocks = loops[h]
            errs = error_blocks(b)
            rets = set(cfg.exits())
            for s in blocks:
                for t, lab in cfg.succ[s]:
                    if t in blocks:
                        continue
                    r = cfg.reach(t, cut_blocks=errs)
                    if t in errs or not (r & (rets | {lb})):
                        continue      # leaves towards an error return only
                    if not n_zero_edge(fl, b, s, t, read_blocks):
                        ok_exit = False
        ctx.check(bool(heads) and ok_exit, 'C10.R3', 'handle_put:loop-exit-on-eof', 'the only normal exit of the staging loop is read() == 0',
                  'the staging loop can end before the reader is exhausted', term_loc(b, read_local))
    # ---- R4
    counted = False
    for bi in cfg.reachable():
        for st in b.blocks[bi]['stmts']:
            rv = st['rv']
            if rv['k'] == 'bin' and rv['op'] in ('Eq', 'Ne'):
                oa, ob = fl.origins(rv['ops'][0]), fl.origins(rv['ops'][1])
                is_len = lambda os_: is_len_val([o for o in os_ if o.kind != 'op'])
                is_cnt = lambda os_: any((o.kind == 'call' and o.key in ('std::io::Read::read', 'std::io::copy', 'std::fs::Metadata::len', 'std::io::Take::<T>::limit')) for o in os_)
                if (is_len(oa) and is_cnt(ob)) or (is_len(ob) and is_cnt(oa)):
                    oc = fl.outcomes(None, st['dst']['l'])
                    eq_e = oc.get('true' if rv['op'] == 'Eq' else 'false', set())
                    if eq_e and cfg.edges_guard(eq_e, lb):
                        counted = True
    ctx.check(counted, 'C10.R4', 'handle_put:length-check', 'streamed byte count == len guards the commit',
              'handle_put never compares the number of streamed bytes with the declared `len`: input closed early with a hash matching the short content commits it',
              term_loc(b, lb))


def is_error_path(b, cfg, t, errs):
    return t in errs


def n_zero_edge(fl, b, s, t, read_blocks):
    """edge s->t is taken exactly when n == 0 (`n == 0` true edge or `n != 0` false edge), n being the count returned by
    one of the reads of the bounded reader (all of n's definitions are such reads)."""
    for st in b.blocks[s]['stmts']:
        rv = st['rv']
        if rv['k'] == 'bin' and rv['op'] in ('Eq', 'Ne'):
            oa, ob = fl.origins(rv['ops'][0]), fl.origins(rv['ops'][1])
            rd = lambda os_: bool(os_) and all(o.kind == 'call' and o.key == 'std::io::Read::read' and o.bb in read_blocks for o in os_ if o.kind != 'comb')
            z = lambda os_: bool(os_) and all(o.kind == 'const' and o.key == 0 for o in os_)
            if (rd(oa) and z(ob)) or (rd(ob) and z(oa)):
                oc = fl.outcomes(None, st['dst']['l'])
                if any(e[0] == s and e[1] == t for e in oc.get('true' if rv['op'] == 'Eq' else 'false', ())):
                    return True
    # the exit may go through a trivial block
    for t2, lab in fl.cfg.succ[s]:
        pass
    return False


def range_sig(fl, op):
    """(buffer origin, range-bound origin) of `&buf[..n]`-style operands."""
    out = set()
    for o in fl.origins(op):
        if o.kind == 'call' and o.key == 'std::ops::Index::index':
            a0 = frozenset((x.kind, x.key, x.bb) for x in call_arg_origins(fl, o.bb, 0))
            a1 = frozenset((x.kind, x.key, x.bb, x.path) for x in call_arg_origins(fl, o.bb, 1) if x.kind != 'agg')
            out.add((a0, a1))
        else:
            out.add((o.kind, o.key, o.bb))
    return frozenset(out)


def get_announces_own_hash(ctx, F, b):
    """The hash a fetch announces is computed from the bytes of the handle it streams: every value that can reach the `hash`
    field of the Content reply is `Hasher::finalize()` of a hasher that was fed from the opened file - not a remembered digest
    (a cache keyed by path and stat data describes SOME version of the path; a concurrent commit of the same length within the
    same second makes it another one than the bytes sent)."""
    wb = work_body(F, 'serve::handle_get', ['blake3::Hasher::finalize']) or b
    fl = flow_of(wb)
    sites = []
    for bi in fl.cfg.reachable():
        for st in wb.blocks[bi]['stmts']:
            rv = st['rv']
            if rv['k'] == 'agg' and rv.get('adt') == 'wire::Response' and rv.get('vname') == 'Content' and 'hash' in rv.get('fields', []):
                sites.append((bi, rv['ops'][rv['fields'].index('hash')]))
    if not sites:
        ctx.undecided('C10.R6', 'handle_get: the Content reply is not built as a Response::Content aggregate in handle_get')
        return
    opens = {(o_b) for o_b, _ in fl.calls(lambda c: c.endswith('fs::File::open') or c.endswith('OpenOptions::open'))}
    for bi, op in sites:
        os_ = [o for o in fl.origins(op) if o.kind != 'comb']
        fin = [o for o in os_ if o.kind == 'call' and str(o.key) == 'blake3::Hasher::finalize']
        other = [o for o in os_ if o not in fin and not (o.kind == 'call' and str(o.key).split('::')[-1] in ('as_bytes', 'into', 'from', 'deref', 'clone'))
                 and not (o.kind == 'agg' and str(o.key).startswith('std::'))]
        # the hasher was fed from the opened handle
        fed = False
        for o in fin:
            ho = {(x.kind, str(x.key), x.bb) for x in call_arg_origins(fl, o.bb, 0)}
            for cb, ct in fl.calls(lambda c: c in ('std::io::copy', 'blake3::Hasher::update', 'blake3::Hasher::update_reader', 'std::io::Write::write_all')):
                args_ = ct['args']
                tgt = args_[1] if callee(ct) == 'std::io::copy' else args_[0]
                if {(x.kind, str(x.key), x.bb) for x in fl.origins(tgt, mut_calls=True)} & ho:
                    fed = True
        ctx.check(bool(fin) and not other and fed, 'C10.R6', 'handle_get:announced-hash-is-of-this-handle',
                  'Content.hash = finalize() of the hasher fed from the opened file',
                  'handle_get can announce a hash that was not computed from the bytes it is about to send (other sources: %s): a digest remembered for the path '
                  'describes whatever version was there when it was noted' % sorted({'%s:%s' % (o.kind, str(o.key)[:50]) for o in other})[:3], term_loc(wb, bi))


def r6(ctx, F, hub):
    b = F.body('serve::handle_get')
    if b is None:
        ctx.missing('C10.R6', 'serve::handle_get')
    fl = flow_of(b)
    accesses = []
    for body in F.nested('serve::handle_get'):
        f2 = flow_of(body)
        for bb, t in f2.calls(lambda c: c in FS_PATH_SINKS or c in (hub.current_hash, 'meta::fingerprint_path')):
            c = callee(t)
            pos = FS_PATH_SINKS.get(c, [0])
            for p in pos:
                if p < len(t['args']) and hub.path_class(body, t['args'][p]) == 'live' and not hub.in_held_region(body):
                    accesses.append((body, bb, c))
    ctx.attempt(get_announces_own_hash, ctx, F, b)
    ctx.check(len(accesses) <= 1, 'C10.R6', 'handle_get:single-handle', 'one path-based access of the live file',
              'handle_get reads the length, the hash and the content through %d separate path accesses outside the lock (%s): a concurrent commit between them '
              'makes the announced len/hash describe other bytes than those sent' % (len(accesses), [c.split('::')[-1] for _, _, c in accesses]),
              term_loc(accesses[0][0], accesses[0][1]) if accesses else loc(b, b.lo))
