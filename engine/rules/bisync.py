"""Shared anchors of the bisync rules (C02, C06, C07, C08, C15): parameter roles of `apply`
derived from its call site in run_bisync, variant-arm edges, classification of copy sites."""
from rules.common import *  # noqa: F401,F403
from callgraph import callgraph_of
from flow import ENUMS
import tables
import re
from verdict import NoVerdict

RUN = 'bidir::run_bisync'
FINGERPRINT = 'meta::fingerprint_path'
APPLY = 'bidir::apply'
COPY = 'bidir::copy_atomic'


def variant_edges(fl, local, enum_path, names=()):
    """{variant: edges} for switches on discriminant(<local>.<names...>) (names = downcast/field names)."""
    out = {}
    vmap = ENUMS.get(enum_path)
    if not vmap:
        return out
    for bi in fl.cfg.reachable():
        blk = fl.body.blocks[bi]
        for st in blk['stmts']:
            rv = st['rv']
            if rv['k'] != 'discr' or rv['p']['l'] != local:
                continue
            pn = tuple((e.get('name') or str(e.get('f', e.get('dc')))) for e in rv['p']['proj'] if isinstance(e, dict))
            # (x as Conflict).0 -> ('Conflict', '0')
            if pn != tuple(names):
                continue
            d = st['dst']['l']
            t = blk['term']
            if t['k'] == 'switch' and t['on']['k'] != 'const' and t['on']['p']['l'] == d:
                listed = set()
                for v, tgt in t['targets']:
                    listed.add(v)
                    if v in vmap:
                        out.setdefault(vmap[v], set()).add((bi, tgt, v))
                for v, n in vmap.items():
                    if v not in listed:
                        out.setdefault(n, set()).add((bi, t['otherwise'], 'otherwise'))
    return out


class Bisync:
    """Anchors located semantically from run_bisync's single call of apply."""

    def __init__(self, ctx, F, rid):
        self.F = F
        self.plan_partitioned = False
        self.run = F.body(RUN)
        self.apply = F.body(APPLY)
        if self.run is None:
            ctx.missing(rid, RUN)
        if self.apply is None:
            ctx.missing(rid, APPLY)
        self.rfl = flow_of(self.run)
        self.afl = flow_of(self.apply)
        self.batched = batched_renames(self.afl)      # deliveries staged into a container and renamed in a loop over it
        calls = self.rfl.calls_to(APPLY)
        if len(calls) != 1:
            ctx.missing(rid, 'run_bisync must call apply exactly once (found %d)' % len(calls))
        self.apply_call_bb, t = calls[0]
        # roles of apply's parameters, read off the arguments of its single call in run_bisync.  A role is a parameter, or a
        # field of a struct parameter when several arguments were grouped (`Replicas { root_a, root_b, a, b, host }`)
        self.roles = {}
        self.role_path = {}
        r = self.rfl

        def classify(op_, ty):
            os_ = r.origins(op_, mut_calls=False)
            kinds = {(o.kind, o.key) for o in os_ if o.kind != 'comb'}
            if kinds == {('param', 1)}:
                return 'root_a'
            if kinds == {('param', 2)}:
                return 'root_b'
            if 'BTreeMap' in ty and 'mut' not in ty and any(o.kind == 'call' and F.body(o.key) is not None for o in os_):
                # a scan of one root: the result of a crate-local call that was given exactly one of the two roots
                for o in os_:
                    if o.kind == 'call' and F.body(o.key) is not None:
                        t2 = self.run.blocks[o.bb]['term']
                        given = set()
                        for a2 in t2['args']:
                            ro = [x for x in r.origins(a2) if x.kind != 'comb']
                            if ro and all(x.kind == 'param' and x.key in (1, 2) and not x.path for x in ro):
                                given |= {x.key for x in ro}
                        if given == {1}:
                            return 'a'
                        if given == {2}:
                            return 'b'
            if any(o.kind == 'call' and o.key == 'std::iter::Iterator::next' for o in os_):
                return 'act' if 'Action' in ty else 'rel'
            if any(o.kind == 'call' and o.key == 'bidir::host_id' for o in os_):
                return 'host'
            if 'BTreeMap' in ty and 'mut' in ty:
                return 'common'
            if 'Vec' in ty:
                return 'conflicts'
            return None
        for i, a in enumerate(t['args']):
            ty = self.apply.local_ty(i + 1)
            # a struct built in run_bisync from several of the roles?
            grouped = False
            for o in r.origins(a):
                if o.kind == 'agg' and o.bb is not None:
                    for st_ in self.run.blocks[o.bb]['stmts']:
                        rv_ = st_['rv']
                        adt = F.adts.get(rv_.get('adt') or '') if rv_['k'] == 'agg' else None
                        if adt and adt.get('kind') == 'struct' and adt.get('crate') == 'bin' and (rv_.get('adt') or '').split('::')[0] == 'bidir':
                            grouped = True
                            for fname, fop, fdecl in zip(rv_.get('fields') or [], rv_['ops'], adt['variants'][0]['fields']):
                                frole = classify(fop, fdecl['ty'])
                                if frole and frole not in self.roles:
                                    self.roles[frole] = i + 1
                                    self.role_path[frole] = (fname,)
            if grouped:
                continue
            role = classify(a, ty)
            if role:
                self.roles.setdefault(role, i + 1)
                self.role_path.setdefault(role, ())
        for need in ('root_a', 'root_b', 'a', 'b', 'rel', 'act', 'common'):
            if need not in self.roles:
                ctx.missing(rid, 'apply parameter role %s (from the call in run_bisync)' % need)
        # one struct PER SIDE (`apply(a: &Replica, b: &Replica, ..)`, the same type twice): the arms are then written once, in terms
        # of "this side" and "the peer" (methods of that type, spliced in here) - which replica a path belongs to is decided by
        # which of the two values a method was called on, which the per-arm reading of apply does not follow
        if self.role_path.get('root_a') and self.role_path.get('root_b') and self.roles['root_a'] != self.roles['root_b']:
            ta = re.sub(r"^&(mut )?", '', self.apply.local_ty(self.roles['root_a'])).split('<')[0].strip()
            tb = re.sub(r"^&(mut )?", '', self.apply.local_ty(self.roles['root_b'])).split('<')[0].strip()
            if ta == tb:
                raise NoVerdict('undecided: %s apply receives the two replicas as two values of one type (`%s`): its arms are written per side in methods of that type, which the per-arm reading of apply does not cover' % (rid, ta.split('::')[-1]))
        self.arms = variant_edges(self.afl, self.roles['act'], 'reconcile::Action')
        self.kinds = variant_edges(self.afl, self.roles['act'], 'reconcile::ConflictKind', ('Conflict', '0'))
        if not self.arms or not self.kinds:
            ctx.missing(rid, 'apply: match on Action / ConflictKind')

    # ---- classification helpers (in apply)
    def is_param(self, os_, role):
        rp = self.role_path.get(role, ())
        return bool(os_) and all(o.kind == 'param' and o.key == self.roles[role] and tuple(o.path) == tuple(rp) for o in os_)

    def classify_path(self, op):
        """('live', 'a'|'b'|'?') for root.join(rel); ('derived', root_desc) for root.join(<derived name>);
        ('other', None)."""
        fl = self.afl
        os_ = fl.origins(op)
        joins = [o for o in os_ if o.kind == 'call' and o.key == 'std::path::Path::join']
        if not joins or len(joins) != len(os_):
            return ('other', None, os_)
        res = None
        for j in joins:
            base = call_arg_origins(fl, j.bb, 0)
            second = call_arg_origins(fl, j.bb, 1, mut_calls=True)
            side = None
            if self.is_param(base, 'root_a'):
                side = 'a'
            elif self.is_param(base, 'root_b'):
                side = 'b'
            else:
                bk = {o.key for o in base if o.kind == 'param'}
                if bk <= {self.roles['root_a'], self.roles['root_b']} and bk:
                    side = root_name(fl, fl.body.blocks[j.bb]['term']['args'][0])
            if self.is_param(second, 'rel'):
                cur = ('live', side)
            else:
                cur = ('derived', side)
            if res is not None and res != cur:
                return ('other', None, os_)
            res = cur
        return res + (os_,)

    # ---- the conflict winner: one ordered comparison of the two sides' digests; everything after it is read per edge
    def fp_side(self, os_):
        """replica side ('a'/'b') of fingerprint-valued origins: looked up with rel in that side's scan; '?' otherwise"""
        fl = self.afl
        sides = set()
        for o in os_:
            if o.kind == 'comb':
                continue
            if o.kind == 'call' and o.key.endswith('::get'):
                m = call_arg_origins(fl, o.bb, 0)
                k = call_arg_origins(fl, o.bb, 1)
                if self.is_param(k, 'rel') and self.is_param(m, 'a'):
                    sides.add('a')
                elif self.is_param(k, 'rel') and self.is_param(m, 'b'):
                    sides.add('b')
                else:
                    sides.add('?')
            else:
                sides.add('?')
        return sides

    def digest_order(self):
        """[(call block, side of first operand, side of second operand, method)] for `x.blake3 <op> y.blake3` over the two scans"""
        fl = self.afl
        out = []
        for gb, gt in fl.calls(lambda c: c.startswith('std::cmp::PartialOrd::')):
            o0, o1 = fl.origins(gt['args'][0]), fl.origins(gt['args'][1])
            if not all(tuple(o.path)[-1:] == ('blake3',) for o in o0 | o1 if o.kind != 'comb'):
                continue
            s0, s1 = self.fp_side(o0), self.fp_side(o1)
            if len(s0) == 1 and len(s1) == 1 and s0 != s1 and '?' not in s0 | s1:
                out.append((gb, list(s0)[0], list(s1)[0], callee(gt).split('::')[-1]))
        return out

    def winner_views(self):
        """[(label, side that wins by the comparison, blocks to ignore)] - one view per outcome of the digest comparison: the
        values after it (whatever they are kept in: a tuple, two structs, plain variables) are read with the definitions of
        the other outcome left out"""
        fl = self.afl
        d = self.digest_order()
        if len(d) != 1:
            return None
        gb, first, second, meth = d[0]
        oc = fl.outcomes(gb)
        t_e, f_e = oc.get('true', set()), oc.get('false', set())
        if not t_e or not f_e:
            return None
        win_true = first if meth in ('ge', 'gt') else second
        win_false = second if win_true == first else first
        return [('true', win_true, fl.only_through(f_e) - fl.only_through(t_e)), ('false', win_false, fl.only_through(t_e) - fl.only_through(f_e))]

    def copy_sites(self):
        """[(bb, term, src_class, dst_class)] of copy_atomic calls in apply."""
        out = []
        import semantic_anchors
        for cb, ct in self.afl.calls_to(*sorted({COPY} | semantic_anchors.atomic_publishers(self.F))):
            out.append((cb, ct, self.classify_path(ct['args'][0]), self.classify_path(ct['args'][1])))
        # a link places (src's) complete content at dst too - whether it may be used is C08's matter, here it is a site
        for cb, ct in self.afl.calls_to('std::fs::hard_link'):
            out.append((cb, ct, self.classify_path(ct['args'][0]), self.classify_path(ct['args'][1])))
        return out

    def arm_of(self, bb):
        """Names of the Action/ConflictKind arms that guard block bb."""
        cfg = self.afl.cfg
        out = []
        for n, e in self.arms.items():
            if cfg.edges_guard(e, bb):
                out.append(n)
        for n, e in self.kinds.items():
            if cfg.edges_guard(e, bb):
                out.append(n)
        return out

    def plan_is_reconcile_result(self, ctx, rid):
        """The actions handed to apply are exactly what reconcile() returned: the collection the apply loop iterates derives
        from the reconcile call only - nothing removes, filters or replaces entries in between (every non-Noop decision,
        including the record-only ConvergeIdentical, reaches apply and therefore the recorded state)."""
        r, R = self.rfl, self.run
        at = R.blocks[self.apply_call_bb]['term']
        act_op = at['args'][self.roles['act'] - 1]
        nexts = [o for o in r.origins(act_op) if o.kind == 'call' and o.key == 'std::iter::Iterator::next']
        if not nexts:
            ctx.missing(rid, 'run_bisync: the plan iterator feeding apply')
        ORDER_ONLY = ('sort', 'sort_by', 'sort_by_key', 'sort_unstable', 'sort_unstable_by', 'sort_unstable_by_key', 'reverse', 'shrink_to_fit', 'reserve')
        PASS = ('std::iter::IntoIterator::into_iter', 'std::iter::Iterator::next', 'core::slice::<impl [T]>::iter', 'std::ops::Deref::deref',
                'std::iter::Iterator::enumerate', 'std::iter::Iterator::by_ref')
        bad = []
        seen_reconcile = False
        work = []
        for n in nexts:
            work.append(R.blocks[n.bb]['term']['args'][0])
        visited = set()
        while work:
            op = work.pop()
            for o in r.origins(op, mut_calls=True):
                k = (o.kind, o.key, o.bb)
                if k in visited or o.kind == 'comb':
                    continue
                visited.add(k)
                if o.kind == 'call' and o.key == 'reconcile::reconcile':
                    seen_reconcile = True
                elif o.kind == 'call' and o.key in PASS:
                    work.append(R.blocks[o.bb]['term']['args'][0])
                elif o.kind == 'call' and str(o.key).endswith('::partition'):
                    bad.append((o.bb, '%s %s' % (o.kind, o.key)))
                    work.append(R.blocks[o.bb]['term']['args'][0])      # what is partitioned
                elif o.kind == 'mutcall' and o.key in PASS:
                    continue
                elif o.kind == 'mutcall' and str(o.key).split('::')[-1] in ORDER_ONLY:
                    continue
                elif o.kind == 'mutcall' and o.key in ('std::ops::DerefMut::deref_mut', 'std::vec::Vec::<T, A>::as_mut_slice', 'std::convert::AsMut::as_mut'):
                    # a &mut [T] view: judged by what is done with it
                    dl = R.blocks[o.bb]['term']['dst']['l']
                    for (ubb, uidx, role) in r._transitive_uses(dl):
                        if uidx == 'term' and R.blocks[ubb]['term']['k'] == 'call' and role == 'arg:0':
                            nm = (callee(R.blocks[ubb]['term']) or '?').split('::')[-1]
                            if nm not in ORDER_ONLY and callee(R.blocks[ubb]['term']) not in PASS:
                                bad.append((ubb, 'mutation through %s' % callee(R.blocks[ubb]['term'])))
                else:
                    bad.append((o.bb, '%s %s' % (o.kind, o.key)))
        # a `partition` keeps every entry (in one of two collections): whether the half that is not applied is handled
        # equivalently elsewhere (e.g. record-only actions folded into the recorded state) is outside this rule
        self.plan_partitioned = any('partition' in d for _, d in bad)
        if seen_reconcile and bad and all('partition' in d or d.startswith('agg ') for _, d in bad):
            ctx.undecided(rid, 'run_bisync partitions the plan before applying it: that the part which is not applied is recorded equivalently is not decided')
            return
        where = term_loc(R, bad[0][0]) if bad and bad[0][0] is not None else term_loc(R, self.apply_call_bb)
        ctx.check(seen_reconcile and not bad, rid, 'run_bisync:plan-is-reconcile-result', 'the apply loop iterates the value reconcile() returned, unmodified',
                  'the plan that is applied is not exactly what reconcile() decided: it passes through %s - decisions (e.g. the record-only '
                  'ConvergeIdentical) can be dropped before apply, so the recorded state falls behind the trees' % sorted({d for _, d in bad})[:3], where)

    def every_success_records(self, ctx, rid):
        """Every non-error return of run_bisync that is not behind the dry_run true edge passes Archive::save: a run that
        reports success has written the record of what it left (this is also where stale base entries are dropped)."""
        r, R = self.rfl, self.run
        cfg = r.cfg
        saves = {sb for sb, _ in r.calls_to('archive::Archive::save')}
        if not saves:
            ctx.missing(rid, 'run_bisync -> Archive::save')
        dry_true = set()
        for swb, swt in switch_blocks_on(r, lambda os_: bool(os_) and all(o.path[-1:] == ('dry_run',) for o in os_)):
            tr, fa = bool_edges(swb, swt)
            dry_true |= tr
        if not dry_true:
            ctx.missing(rid, 'run_bisync: the dry_run test')
        oks = []
        for (rb, kind, data) in ret_defs(R):
            if kind == 'assign' and data['k'] == 'agg' and data.get('vname') == 'Ok':
                oks.append(rb)
            elif kind == 'call' and callee(data) != 'std::ops::FromResidual::from_residual':
                oks.append(rb)
        if not oks:
            ctx.missing(rid, 'run_bisync: an Ok return')
        seen = cfg.reach(0, cut_edges={(e[0], e[1]) for e in dry_true}, cut_blocks=saves)
        bad = [x for x in oks if x in seen]
        ctx.check(not bad, rid, 'run_bisync:every-success-records', 'every non-dry-run Ok return passes Archive::save',
                  'run_bisync can report success without writing the archive: the recorded common state is not what the run left '
                  '(entries of paths deleted on both sides stay in the base, a later re-creation with the old content is deleted)',
                  term_loc(R, bad[0]) if bad else None)

    def bisync_graph(self):
        cg = callgraph_of(self.F)
        return cg, cg.reach([RUN])


# ------------------------------------------------------------------------------------------------ content scans / time taint
def _time_functions(F, cg):
    """crate functions from which a time reader is reachable"""
    out = set()
    for p in F.bodies:
        top = p.split('::{')[0]
        if top in out:
            continue
        if F.body(top) is not None and cg.reaches_callee(top, lambda c: c in tables.TIME_READERS):
            out.add(top)
    return out


_returns_time_memo = {}


def fn_returns_time(F, fn, tf, depth=0):
    """the value a crate function returns may depend on a file time or the clock: a returned value (or something stored into the
    returned collection) is computed from one, or which value is returned is decided by a test on one (control dependence)"""
    key = (id(F), fn)
    if key in _returns_time_memo:
        return _returns_time_memo[key]
    if fn.split('::{')[0] not in tf or depth > 5:
        return False
    _returns_time_memo[key] = False          # cycles: assume clean while computing
    b = F.body(fn)
    res = False
    if b is not None:
        work = b
        for nb in F.nested(fn):
            if nb.kind == 'coroutine' and nb.parent == b.path and len(b.blocks) <= 3:
                work = nb
        fl = flow_of(work)
        cfg = fl.cfg
        ret_blocks = set()
        for (bb, idx, kind, data, dproj) in fl.defs.get(0, []):
            ret_blocks.add(bb)
            ops = data.get('args', []) if kind == 'call' else data.get('ops', [])
            if kind == 'call' and (str(callee(data) or '') in tables.TIME_READERS):
                res = True
            for a in ops:
                if time_tainted(F, fl, a, tf, depth + 1):
                    res = True
        for o in fl.origins(0, mut_calls=True):
            if o.kind == 'mutcall' and o.bb is not None:
                ret_blocks.add(o.bb)
                for a in work.blocks[o.bb]['term'].get('args', [])[1:]:
                    if time_tainted(F, fl, a, tf, depth + 1):
                        res = True
        if not res:
            for sb in cfg.reachable():
                t = work.blocks[sb]['term']
                if t['k'] != 'switch' or t['on']['k'] == 'const' or not time_tainted(F, fl, t['on'], tf, depth + 1):
                    continue
                succ = [x for x, _ in cfg.succ[sb] if work.blocks[x]['term']['k'] != 'unreachable']
                some = set().union(*[cfg.reach(x) for x in succ]) if succ else set()
                every = _both_sides(cfg, sb)
                if (some - every) & ret_blocks:
                    res = True
    _returns_time_memo[key] = res
    return res


_ret_param_memo = {}


def _return_uses_param(F, fn, k):
    """the value crate function `fn` returns is computed from its k-th parameter: the parameter reaches a returned value, or a
    test on it decides which value is returned"""
    key = (id(F), fn, k)
    if key in _ret_param_memo:
        return _ret_param_memo[key]
    _ret_param_memo[key] = True
    b = F.body(fn)
    work = b
    for nb in F.nested(fn):
        if nb.kind == 'coroutine' and nb.parent == b.path and len(b.blocks) <= 3:
            work = nb
    fl = flow_of(work)
    cfg = fl.cfg

    def from_param(os_):
        for o in os_:
            if work is b and o.kind == 'param' and o.key == k:
                return True
            if work is not b and o.kind == 'upvar' and o.key is not None and int(o.key) == k - 1:
                return True
        return False
    res = from_param(fl.origins(0))
    if not res:
        ret_blocks = {bb for (bb, idx, kind, data, dproj) in fl.defs.get(0, [])}
        for sb in cfg.reachable():
            t = work.blocks[sb]['term']
            if t['k'] != 'switch' or t['on']['k'] == 'const' or not from_param(fl.origins(t['on'])):
                continue
            succ = [x for x, _ in cfg.succ[sb] if work.blocks[x]['term']['k'] != 'unreachable']
            some = set().union(*[cfg.reach(x) for x in succ]) if succ else set()
            if (some - _both_sides(cfg, sb)) & ret_blocks:
                res = True
    _ret_param_memo[key] = res
    return res


def time_tainted(F, fl, op, tf, depth=0, seen=None):
    """the operand may carry a value computed from a file time or the clock: a time reader's result, the result of a crate
    function whose return value depends on one, or the result of a crate function called with such a value"""
    seen = seen if seen is not None else set()
    if depth > 8 or op['k'] == 'const':
        return False
    b = fl.body
    for o in fl.origins(op):
        k = (o.kind, str(o.key), o.bb)
        if k in seen:
            continue
        seen.add(k)
        if o.kind in ('call', 'mutcall'):
            c = str(o.key)
            if c in tables.TIME_READERS:
                return True
            if F.body(c) is not None and fn_returns_time(F, c, tf, depth + 1):
                return True
            if o.bb is not None:
                # the result of a call computed from a time-dependent argument (`a.ok() > b.ok()`, `lookup(rel, stat)`): any
                # argument of a std function; for a crate function only an argument its return value is computed from
                for i_, a in enumerate(b.blocks[o.bb]['term'].get('args', [])):
                    if F.body(c) is not None and not _return_uses_param(F, c, i_ + 1):
                        continue
                    if time_tainted(F, fl, a, tf, depth + 1, seen):
                        return True
        elif o.kind == 'agg' and F.body(str(o.key)) is not None and o.bb is not None:
            # a closure: what it captured
            for st in b.blocks[o.bb]['stmts']:
                rv = st['rv']
                if rv['k'] == 'agg' and norm(rv.get('def') or '') == str(o.key):
                    for a in rv['ops']:
                        if time_tainted(F, fl, a, tf, depth + 1, seen):
                            return True
    return False


def scan_is_content(ctx, F, rid):
    """What reconcile compares are content fingerprints: in the function that builds the scan map handed to reconcile, every
    value inserted is the result of fingerprint_path(..) of the walked file - never a remembered fingerprint - and whether a
    walked file is inserted does not depend on a file time or the clock."""
    run = F.body(RUN)
    rfl = flow_of(run)
    cg = callgraph_of(F)
    tf = _time_functions(F, cg)
    n = 0
    for cb, ct in rfl.calls_to('reconcile::reconcile'):
        for ai in (0, 1):
            srcs = {str(o.key) for o in rfl.origins(ct['args'][ai]) if o.kind == 'call' and F.body(str(o.key)) is not None}
            work, seen = list(srcs), set()
            while work:
                fn = work.pop()
                if fn in seen:
                    continue
                seen.add(fn)
                sb = F.body(fn)
                if sb is None:
                    continue
                sfl = flow_of(sb)
                ret_keys = {(o.kind, str(o.key), o.bb) for o in sfl.origins(0) if o.kind != 'comb'}
                inserts = [(ib, it) for ib, it in sfl.calls(lambda c: c.endswith('BTreeMap::<K, V, A>::insert') or c.endswith('BTreeMap::<K, V>::insert'))
                           if {(o.kind, str(o.key), o.bb) for o in sfl.origins(it['args'][0]) if o.kind != 'comb'} & ret_keys]
                if not inserts:
                    # a wrapper: follow the crate calls its result comes from
                    work += [str(o.key) for o in sfl.origins(0) if o.kind == 'call' and F.body(str(o.key)) is not None]
                    continue
                for ib, it in inserts:
                    n += 1
                    vo = [o for o in sfl.origins(it['args'][2]) if o.kind not in ('comb',) and not (o.kind == 'agg' and str(o.key).endswith(('Option::Some', 'Result::Ok')))]
                    pure = bool(vo) and all(o.kind == 'call' and str(o.key) == FINGERPRINT for o in vo)
                    ctx.check(pure, rid, '%s:scan-value-is-the-content-fingerprint#%d' % (fn.split('::')[-1], ai + 1), 'every inserted value is fingerprint_path(<walked file>)',
                              '%s fills the scan that reconcile compares with a value that is not the fingerprint of the bytes on disk now (%s): a rewrite that the '
                              'shortcut does not notice makes a changed side look unchanged, and its version is overwritten or deleted' % (
                                  fn.split('::')[-1], sorted({'%s:%s' % (o.kind, str(o.key).split('::')[-1]) for o in vo if not (o.kind == 'call' and str(o.key) == FINGERPRINT)})[:3]),
                              term_loc(sb, ib))
                    # inserted or not: no time in the conditions that lead here
                    for swb, swt in [(x, sb.blocks[x]['term']) for x in sfl.cfg.reachable() if sb.blocks[x]['term']['k'] == 'switch' and sb.blocks[x]['term']['on']['k'] != 'const']:
                        if not sfl.cfg.dominates(swb, ib) or ib in _both_sides(sfl.cfg, swb):
                            continue
                        if time_tainted(F, sfl, swt['on'], tf):
                            ctx.bad(rid, '%s:scan-entry-depends-on-time' % fn.split('::')[-1],
                                    'whether %s records a walked file depends on a file time or the clock' % fn.split('::')[-1], term_loc(sb, swb))
    if n == 0:
        ctx.undecided(rid, 'the function that fills the scans handed to reconcile was not found (no map insert behind the arguments of reconcile)')


def _both_sides(cfg, swb):
    """blocks reachable from every successor of the switch (what lies behind the join)"""
    blocks = cfg.body.blocks if hasattr(cfg, 'body') else None
    succ = [t for t, _ in cfg.succ[swb]]
    if blocks is not None:
        live = [t for t in succ if blocks[t]['term']['k'] != 'unreachable']
        succ = live or succ
    if not succ:
        return set()
    r = None
    for s_ in succ:
        rs = cfg.reach(s_)
        r = rs if r is None else (r & rs)
    return r or set()
