"""C06 — bisync converges, records what it did, and is idempotent (DESIGN §7 C06)."""
from rules.common import *  # noqa: F401,F403
from rules.bisync import Bisync, RUN, APPLY, COPY
from callgraph import callgraph_of
import tables

CONFIGS = ['cli']
LEVEL = 'other'
EXPLANATION = (
    'Decides: (R1) no body reachable from run_bisync reads a modification/access/creation time or the clock (effect-set emptiness, with a '
    'positive control that the same query finds mtime readers under run_local); (R2) the conflict winner is the side with the greater BLAKE3 and '
    'the tuple of roots/fingerprints is consistent on both comparison edges; (R3) the conflict-copy name, evaluated symbolically from the values appended to it (format!, several pushes, a helper - any spelling), is rel + ".conflict-" + host + "-" + hex(loser digest) [+ "." + counter], the digest shown is that of the side whose bytes are copied there, '
    'and the digest helper prints the first 6 bytes as 2-digit lower hex; (R4) every arm records in `common` the fingerprint of what it left at rel '
    '(and the loser at the loser name), deletes remove the entry; (R5) the archive saved is exactly that map, with the epoch bumped, at the path '
    'that was loaded; the recorded map never lets a trusted-base entry override the fingerprint just scanned (fresh.chain(base) collected into a map is reported); (R6) = C02.R5 no stale base entries; (R7) mirror symmetry and Noop on a=b=base from the C18 table; (R8) fingerprint_path hashes '
    'only the bytes of the file (or the link target) and takes the type from symlink_metadata; (R9) a failed delete is not recorded as done; (R10) every non-dry-run Ok return of run_bisync passes Archive::save, so a run that reports success has recorded the state it left; (R11) = C02.R8 the applied plan is the value reconcile() returned. '
    '(R12) a hand-written merge pass over the two scans in the reconcile module compares their keys as paths (raw bytes / strings are another order than the maps are sorted in: reported). Not decided: convergence and idempotence as behaviours (paper argument from R4-R7 + C18).')
ASSUMPTIONS = ['BLAKE3 collision freeness', 'BTreeMap API semantics']


def run(ctx):
    F = ctx.F['cli']
    ctx.rule('C06.R1', 'bodies reachable from run_bisync never read file times or the clock', floor=12)
    ctx.rule('C06.R2', 'winner = side with the greater BLAKE3; tuple consistent on each comparison edge', floor=1)
    ctx.rule('C06.R3', 'loser name = rel + ".conflict-" + host + "-" + short_hex(loser.blake3); short_hex = first 6 bytes as {:02x}', floor=2)
    ctx.rule('C06.R4', 'each arm records the fingerprint of what it left at rel; deletes remove the entry', floor=9)
    ctx.rule('C06.R5', 'arc.entries = common; epoch += 1; save(&apath) with the loaded path', floor=3)
    ctx.rule('C06.R6', 'no base entries for paths absent from both trees (C02.R5)', floor=1)
    ctx.rule('C06.R7', 'decision table symmetric; a == b == base -> Noop (C18)', floor=15)
    ctx.rule('C06.R8', 'fingerprint_path: digest of the file bytes / link target only; type from symlink_metadata', floor=2)
    ctx.rule('C06.R9', 'bisync delete results are not discarded before the entry is dropped from the record', floor=2)
    ctx.rule('C06.R10', 'every successful non-dry-run exit of run_bisync passes Archive::save', floor=1)
    bs = Bisync(ctx, F, 'C06.R4')
    ctx.rule('C06.R11', 'the plan applied is exactly the value reconcile() returned (no filtering between decision and apply)', floor=1)
    ctx.attempt(bs.every_success_records, ctx, 'C06.R10')
    ctx.attempt(bs.plan_is_reconcile_result, ctx, 'C06.R11')
    ctx.attempt(r1, ctx, F, bs)
    from rules import C02
    # R2: reuse the winner tuple rule under this id
    if bs.batched:
        ctx.undecided('C06.R2', 'apply stages its deliveries into a container and publishes them in a loop over it: which versions end up where is not decided by the per-call rules')
    else:
        sub = _Alias(ctx, 'C02.R4', 'C06.R2', only='apply:BothChanged:winner-tuple')
        C02.side_rules(sub, bs, bs.copy_sites(), direction=True)
    ctx.attempt(r3, ctx, F, bs)
    if bs.batched:
        ctx.undecided('C06.R4', 'apply publishes a batch of staged deliveries: what the record says about them is not decided by the per-call rules')
    else:
        ctx.attempt(r4, ctx, F, bs)
    ctx.attempt(r5, ctx, F, bs)
    ctx.attempt(base_does_not_override, ctx, F, bs, 'C06.R5')
    sub = _Alias(ctx, 'C02.R5', 'C06.R6')
    C02.archive_taint(sub, bs)
    from rules import C18
    leaves = C18.table_of(ctx, F, 'C06.R7')
    if leaves is not None:
        table = {}
        vals = C18.valuations(leaves)
        for v in vals:
            hits = C18.lookup(leaves, v)
            table[C18.vdesc(v)] = hits[0] if len(hits) == 1 else 'ambiguous'
        for v in vals:
            r_ = table[C18.vdesc(v)]
            r2 = table[C18.vdesc(C18.swap(v))]
            ok = C18.MIRROR.get(r_, r_) == r2 and r_ == C18.oracle(v)
            ctx.check(ok, 'C06.R7', C18.vdesc(v), '%s / mirrored %s' % (r_, r2),
                      'decision at %s is %s (table: %s; mirrored: %s): outcome would depend on which directory is named first' % (C18.vdesc(v), r_, C18.oracle(v), r2),
                      'src/bin/copia/reconcile.rs (reconcile::reconcile_path)')
    ctx.attempt(r8, ctx, F)
    ctx.attempt(r9, ctx, F, bs)
    ctx.rule('C06.R12', 'every path of the union is decided exactly once: a merge pass over the two scans compares their keys in the order the maps are sorted in', floor=1)
    ctx.attempt(C18.merge_order_for, ctx, F, 'C06.R12')


class _Alias:
    """Re-issue another module's rule results under this property's rule id."""

    def __init__(self, ctx, src, dst, only=None):
        self._ctx, self._src, self._dst, self._only = ctx, src, dst, only
        self.F = ctx.F
        self.interproc = ctx.interproc

    def _map(self, rid, key):
        if rid != self._src:
            return None
        if self._only and key != self._only:
            return None
        return self._dst

    def ok(self, rid, key, detail='', loc=None):
        d = self._map(rid, key)
        if d:
            self._ctx.ok(d, key, detail, loc)

    def bad(self, rid, key, msg, loc=None, path=None):
        d = self._map(rid, key)
        if d:
            self._ctx.bad(d, key, msg, loc, path)

    def undecided(self, rid, what):
        self._ctx.undecided(rid, what)

    def note(self, s_):
        self._ctx.note(s_)

    def check(self, cond, rid, key, ok_detail, bad_msg, loc=None, path=None):
        d = self._map(rid, key)
        if d:
            return self._ctx.check(cond, d, key, ok_detail, bad_msg, loc, path)
        return bool(cond)

    def missing(self, rid, symbol):
        self._ctx.missing(self._dst, symbol)

    def rule(self, *a, **k):
        pass

    def note(self, s):
        self._ctx.note(s)


def r1(ctx, F, bs):
    """No outcome of a bisync run depends on a file time or the clock.  Bodies that read none are clean.  Where a time IS read
    (a scan hint, a statistics snapshot), it must not flow into what decides the outcome: the values of the two scans (own rule
    below), the arguments of reconcile / apply, the tests made in run_bisync, apply and the reconcile functions, the fingerprints
    recorded, the names of conflict copies."""
    from rules import bisync as _b
    cg, graph = bs.bisync_graph()
    sites = cg.call_sites(lambda c: c in tables.TIME_READERS, within=graph)
    readers = {bd.path for (bd, bb, c) in sites}
    for b in sorted(graph):
        if b not in readers:
            ctx.ok('C06.R1', b, 'no time reader')
    if sites:
        tf = _b._time_functions(F, cg)
        DECIDERS = ('bidir::run_bisync', 'bidir::apply', 'reconcile::reconcile', 'reconcile::reconcile_path')
        SINK_CALLS = ('reconcile::reconcile', 'reconcile::reconcile_path', 'bidir::apply', 'bidir::copy_atomic', 'std::fs::remove_file', 'std::fs::rename')
        found = []
        for path in sorted(graph):
            body = F.body(path)
            top = path.split('::{')[0]
            if top not in DECIDERS:
                continue
            fl = flow_of(body)
            for bi in sorted(fl.cfg.reachable()):
                t = body.blocks[bi]['term']
                if t['k'] == 'switch' and t['on']['k'] != 'const' and _b.time_tainted(F, fl, t['on'], tf):
                    found.append((body, bi, 'a test in %s' % top.split('::')[-1]))
                elif t['k'] == 'call':
                    c = callee(t) or ''
                    if c in SINK_CALLS or c.endswith('BTreeMap::<K, V, A>::insert') or c.endswith('::push') or c.endswith('::push_str'):
                        for a in t['args']:
                            if _b.time_tainted(F, fl, a, tf):
                                found.append((body, bi, 'an argument of %s in %s' % (c.split('::')[-1], top.split('::')[-1])))
                                break
        for body, bi, what in found:
            ctx.bad('C06.R1', '%s:time-reaches-a-decision' % body.path.split('::{')[0], 'a value computed from a file time or the clock reaches %s: the outcome depends on mtimes' % what,
                    term_loc(body, bi))
        if not found:
            for (bd, bb, c) in sites:
                ctx.ok('C06.R1', '%s:%s' % (bd.path.split('::{')[0], c), 'a time is read, but no value derived from it reaches the scans, reconcile, apply, the tests of run_bisync / apply / reconcile or the recorded state', term_loc(bd, bb))
    ctx.attempt(_b.scan_is_content, ctx, F, 'C06.R1')
    # positive control: the same query must see the mtime reader under the one-way sync
    ctl = cg.call_sites(lambda c: c in tables.TIME_READERS, within=cg.reach(['incremental::run_local']))
    if not ctl:
        from verdict import NoVerdict
        raise NoVerdict('control failed: C06.R1 time-reader query does not find Metadata::modified under incremental::run_local')
    ctx.note('C06.R1 control: time readers under run_local: %s' % sorted({c for _, _, c in ctl}))


NAME_CONV = ('to_owned', 'to_os_string', 'to_path_buf', 'into_os_string', 'as_os_str', 'from', 'into', 'clone', 'as_ref', 'as_path', 'deref', 'borrow', 'to_string', 'as_str')


def chase_tuple(fl, op):
    """(tuple local, field index) when the operand is (a reference to / a field of) one element of a tuple-typed local,
    followed through single-definition copies, references and field projections; else None."""
    b = fl.body
    cur = op
    for _ in range(16):
        if cur['k'] == 'const':
            return None
        l, proj = cur['p']['l'], cur['p']['proj']
        for pr in proj:
            if isinstance(pr, dict) and 'f' in pr and not pr.get('name') and b.local_ty(l).lstrip('&').startswith('('):
                return (l, pr['f'])
            break_named = isinstance(pr, dict)
            if break_named:
                break
        ds = fl.defs.get(l, [])
        if len(ds) != 1:
            return None
        bb, idx, kind, data, dproj = ds[0]
        if kind != 'assign':
            return None
        if data['k'] in ('use', 'cast') and data['ops'][0]['k'] != 'const':
            cur = data['ops'][0]
        elif data['k'] == 'ref':
            cur = {'k': 'copy', 'p': data['p']}
        else:
            return None
    return None


def tuple_sides(bs, fl, tl, idx):
    """per aggregate assigned to tuple local `tl`: the replica side ('a'/'b'/'?') its element `idx` belongs to"""
    A = fl.body
    out = []
    for (bb, i, kind, data, dproj) in fl.defs.get(tl, []):
        if kind != 'assign' or data['k'] != 'agg' or dproj or idx >= len(data['ops']):
            continue
        os_ = fl.origins(data['ops'][idx])
        side = '?'
        if bs.is_param(os_, 'root_a'):
            side = 'a'
        elif bs.is_param(os_, 'root_b'):
            side = 'b'
        else:
            ss = set()
            for o in os_:
                if o.kind == 'call' and o.key.endswith('::get'):
                    m = call_arg_origins(fl, o.bb, 0)
                    ss.add('a' if bs.is_param(m, 'a') else 'b' if bs.is_param(m, 'b') else '?')
                else:
                    ss.add('?')
            if len(ss) == 1:
                side = ss.pop()
        out.append((bb, side))
    return out


def name_pieces(ctx, F, bs, data_op, depth=0):
    """symbolic value of one string operand appended to the conflict-copy name:
    [str | ('host',) | ('int',) | ('digest', helper path, operand) | ('?', what)]"""
    A, fl = bs.apply, bs.afl

    def leaf(fl_, op):
        os_ = [o for o in fl_.origins(op) if o.kind != 'comb']
        if os_ and bs.is_param(set(os_), 'host'):
            return ('host',)
        ty = A.local_ty(op['p']['l']).replace('&', '').strip() if not op['p']['proj'] else ''
        if ty in ('u8', 'u16', 'u32', 'u64', 'usize', 'i8', 'i16', 'i32', 'i64', 'isize'):
            return ('int',)
        if len(os_) == 1 and os_[0].kind == 'call' and os_[0].bb is not None and F.body(os_[0].key) is not None and A.blocks[os_[0].bb]['term']['args']:
            return ('digest', os_[0].key, A.blocks[os_[0].bb]['term']['args'][0])
        return None
    return str_pieces(F, fl, data_op, leaf)


def r3(ctx, F, bs):
    """the conflict copy is named  rel + ".conflict-" + host + "-" + <12 hex digits of the LOSER's digest>  [+ "." + counter]:
    the name is evaluated symbolically from the values appended to it, whatever the spelling (format!, several pushes, a helper)"""
    A, fl = bs.apply, bs.afl
    cfg = fl.cfg
    copies = [c for c in bs.copy_sites() if c[3][0] == 'derived' and 'BothChanged' in bs.arm_of(c[0])]
    if not copies:
        ctx.missing('C06.R3', 'apply: conflict copies onto a derived name in the BothChanged arm')
    helper = None
    where = term_loc(A, copies[0][0])
    problems, unknown = [], []
    src_elem = None
    for cb, ct, src, dst in copies:
        # the name: second operand of the join(s) behind the destination
        name_ops = []
        for o in fl.origins(ct['args'][1]):
            if o.kind == 'call' and o.key == 'std::path::Path::join':
                name_ops.append(A.blocks[o.bb]['term']['args'][1])
        for nop in name_ops:
            os_ = fl.origins(nop, mut_calls=True)
            pushes = sorted({o.bb for o in os_ if o.kind == 'mutcall' and o.key.split('::')[-1] in ('push', 'push_str')})
            base = {o for o in fl.origins(nop) if o.kind != 'comb'}
            searched = sorted({str(o.key).split('::')[-1] for o in base if o.kind == 'call' and str(o.key).startswith('std::iter::Iterator::')})
            if not searched and chosen_by_bounded_search(fl, nop):
                searched = ['bounded search with a fallback name']
            if searched:
                # `(0..).map(name).find(free)`: the name is what an iterator search returned - the template is not read through it
                unknown.append('the name is the result of an iterator search (%s)' % ', '.join(searched))
                continue
            if not bs.is_param(base, 'rel'):
                problems.append('the name does not start from the conflicting path (%s)' % sorted({'%s:%s' % (o.kind, o.key) for o in base}))
            order = sorted(pushes, key=lambda x: sum(1 for y in pushes if y != x and cfg.dominates(y, x)))
            must, may = [], []
            for pb in order:
                pcs = name_pieces(ctx, F, bs, A.blocks[pb]['term']['args'][1])
                (must if cfg.dominates(pb, cb) else may).append(pcs)
            flat = []
            for pcs in must:
                for x in pcs:
                    if isinstance(x, str) and flat and isinstance(flat[-1], str):
                        flat[-1] += x
                    elif x != '':
                        flat.append(x)
            for x in flat + [y for pcs in may for y in pcs]:
                if not isinstance(x, str) and x[0] == '?':
                    unknown.append(x[1])
            shape = len(flat) == 4 and flat[0] == '.conflict-' and flat[1] == ('host',) and flat[2] == '-' and flat[3][0] == 'digest'
            if not shape:
                problems.append('name template is rel + %s' % ' + '.join(x if isinstance(x, str) and False else repr(x) if isinstance(x, str) else '<%s>' % x[0] for x in flat))
            for pcs in may:
                if any(not isinstance(x, str) and x[0] not in ('int', '?') for x in pcs):
                    problems.append('an optional suffix depends on more than a counter')
            if shape:
                helper = flat[3][1]
                views = bs.winner_views()
                if not views:
                    unknown.append('no single comparison of the two digests')
                for label, by_cmp, excl in views or []:
                    with fl.restricted(excl):
                        ds_ = bs.fp_side({o for o in fl.origins(flat[3][2]) if True})
                        src_c = bs.classify_path(ct['args'][0])
                    if len(ds_) != 1 or '?' in ds_ or src_c[0] != 'live' or src_c[1] not in ('a', 'b'):
                        unknown.append('side of the digest / of the copied content on the %s edge' % label)
                    elif list(ds_)[0] != src_c[1]:
                        problems.append('the digest in the name is not the digest of the content that is copied there (the copy holds side %s, the name shows side %s)' % (
                            src_c[1], sorted(ds_)))
    if not problems and unknown:
        ctx.undecided('C06.R3', 'apply: the conflict-copy name is built from a value outside the model (%s)' % '; '.join(sorted(set(unknown))))
    ctx.check(not problems, 'C06.R3', 'apply:loser-name', 'rel + ".conflict-" + host + "-" + hex12(loser digest) [+ "." + counter]',
              'the conflict-copy name is not <path>.conflict-<host>-<short hex of the loser\'s digest>: %s' % '; '.join(sorted(set(problems))), where)
    # the digest renderer (found by use, not by name)
    sh = F.body(helper) if helper else None
    if sh is None:
        if problems:
            return
        ctx.missing('C06.R3', 'the helper rendering the digest in the conflict-copy name')
    sfl = flow_of(sh)
    six = False
    for bi in sfl.cfg.reachable():
        for st in sh.blocks[bi]['stmts']:
            rv = st['rv']
            if rv['k'] == 'agg' and rv.get('adt') == 'std::ops::RangeTo' and rv['ops'][0]['k'] == 'const' and rv['ops'][0].get('v') == 6:
                six = True
    fs = [f2 for f2 in F.formats if f2['file'] == sh.file and sh.lo <= f2['line'] <= sh.hi]
    hex2 = len(fs) == 1 and len(fs[0]['pieces']) == 1 and not isinstance(fs[0]['pieces'][0], str) and \
        fs[0]['pieces'][0]['trait'] == 'LowerHex' and fs[0]['pieces'][0]['width'] == 2 and fs[0]['pieces'][0]['zero_pad']
    ctx.check(six and hex2, 'C06.R3', 'short_hex', 'h[..6] printed with {:02x} (12 hex digits)',
              'the digest helper no longer prints exactly the first 6 bytes as two lower-case hex digits each (6-byte range: %s, {:02x}: %s)' % (six, hex2), loc(sh, sh.lo))


def local_op(body, name):
    ls = body.locals_named(name)
    if not ls:
        return {'k': 'const', 'dbg': '?'}
    return {'k': 'copy', 'p': {'l': ls[0], 'proj': []}}


def r4(ctx, F, bs):
    A = bs.apply
    fl = bs.afl
    cfg = fl.cfg
    common = bs.roles['common']
    ins = [(b, t) for b, t in fl.calls_to('std::collections::BTreeMap::<K, V, A>::insert')
           if bs.is_param({o for o in fl.origins(t['args'][0])}, 'common')]
    rem = [(b, t) for b, t in fl.calls_to('std::collections::BTreeMap::<K, V, A>::remove')
           if bs.is_param({o for o in fl.origins(t['args'][0])}, 'common')]

    def fp_side(os_):
        sides = set()
        for o in os_:
            if o.kind == 'call' and o.key.endswith('::get'):
                m = call_arg_origins(fl, o.bb, 0)
                k = call_arg_origins(fl, o.bb, 1)
                if not bs.is_param(k, 'rel'):
                    sides.add('?')
                elif bs.is_param(m, 'a'):
                    sides.add('a')
                elif bs.is_param(m, 'b'):
                    sides.add('b')
                else:
                    sides.add('?')
            elif o.kind != 'comb':
                sides.add('?')
        return sides
    expect = {'ConvergeIdentical': {'a', 'b'}, 'PropagateAtoB': {'a'}, 'PropagateBtoA': {'b'}}
    seen = set()
    copies = bs.copy_sites()
    for ib, it in ins:
        arms = bs.arm_of(ib)
        key_o = fl.origins(it['args'][1], mut_calls=True)
        val_o = fl.origins(it['args'][2])
        at_rel = bs.is_param(key_o, 'rel')
        arm = next((a for a in arms if a in expect), None)
        if arm:
            sides = fp_side(val_o)
            ok = at_rel and len(sides) == 1 and sides <= expect[arm]
            seen.add(arm)
            ctx.check(ok, 'C06.R4', 'apply:%s:record' % arm, 'common[rel] = %s[rel]' % '/'.join(sorted(sides)),
                      '%s records %s at %s instead of the fingerprint of the content it left at rel' % (arm, sorted(sides), 'rel' if at_rel else 'another key'),
                      term_loc(A, ib))
        elif 'DeleteVsModify' in arms:
            # the recorded side must be the side copied from (guarded by the same contains_key edge)
            sides = fp_side(val_o)
            src_side = None
            # (a copy from a local donor file - C02.R4 judges those - says nothing about which SIDE is restored)
            cands = {src[1] for cb, ct, src, dst in copies if 'DeleteVsModify' in bs.arm_of(cb) and src[0] != 'other' and (cfg.dominates(cb, ib) or cfg.can_reach(cb, ib))}
            if len(cands) == 1:
                src_side = list(cands)[0]
            ok = at_rel and len(sides) == 1 and list(sides)[0] == src_side
            seen.add('DeleteVsModify:' + str(src_side))
            ctx.check(ok, 'C06.R4', 'apply:DeleteVsModify:record-%s' % src_side, 'common[rel] = %s[rel] (the restored side)' % src_side,
                      'DeleteVsModify records %s while restoring from side %s' % (sorted(sides), src_side), term_loc(A, ib))
        elif 'BothChanged' in arms:
            # winner's fingerprint at rel, loser's at the conflict-copy name - judged on each outcome of the digest comparison
            views = bs.winner_views()
            sides_ok, got = bool(views), []
            for label, by_cmp, excl in views or []:
                with fl.restricted(excl):
                    over = [c for c in bs.copy_sites() if 'BothChanged' in bs.arm_of(c[0]) and c[3][0] == 'live']
                    vs = bs.fp_side(fl.origins(it['args'][2]))
                one = len({(c[2][:2], c[3][:2]) for c in over}) == 1
                X = over[0][2][1] if one else None
                Y = over[0][3][1] if one else None
                got.append((label, sorted(vs), X, Y))
                if vs != ({X} if at_rel else {Y}):
                    sides_ok = False
            if at_rel:
                seen.add('BothChanged:winner')
                ctx.check(sides_ok, 'C06.R4', 'apply:BothChanged:record-winner', 'common[rel] = winner\'s fingerprint',
                          'BothChanged does not record the winner\'s fingerprint at rel (edge, recorded side, winner, loser: %s)' % got, term_loc(A, ib))
            else:
                derived = any(o.kind == 'mutcall' for o in key_o)
                seen.add('BothChanged:loser')
                ctx.check(sides_ok and derived, 'C06.R4', 'apply:BothChanged:record-loser', 'common[loser_name] = loser\'s fingerprint',
                          'BothChanged does not record the loser\'s fingerprint at the conflict-copy name (edge, recorded side, winner, loser: %s)' % got, term_loc(A, ib))
        else:
            ctx.bad('C06.R4', 'apply:%s:insert' % '+'.join(arms), 'unexpected write to the recorded state', term_loc(A, ib))
    for rb, rt in rem:
        arms = bs.arm_of(rb)
        arm = next((a for a in arms if a in ('DeleteA', 'DeleteB')), None)
        at_rel = bs.is_param(fl.origins(rt['args'][1]), 'rel')
        if arm:
            seen.add(arm)
        ctx.check(bool(arm) and at_rel, 'C06.R4', 'apply:%s:unrecord' % (arm or '+'.join(arms)), 'common.remove(rel)',
                  'an entry is removed from the recorded state outside the Delete arms / for another key', term_loc(A, rb))
    want = {'ConvergeIdentical', 'PropagateAtoB', 'PropagateBtoA', 'DeleteA', 'DeleteB', 'DeleteVsModify:a', 'DeleteVsModify:b',
            'BothChanged:winner', 'BothChanged:loser'}
    part_ = any((callee(t_) or '').endswith('::partition') for _, t_ in bs.rfl.calls(lambda c: True))
    for w in sorted(want - seen):
        if part_:
            ctx.undecided('C06.R4', 'the %s arm of apply records nothing, and run_bisync partitions the plan: the record may be made where the partition is consumed' % w)
            continue
        ctx.bad('C06.R4', 'apply:%s:record-exists' % w, 'the %s arm does not update the recorded common state' % w, loc(A, A.lo))
    # the record is unconditional within the arm once the file op succeeded: the insert is reached whenever the arm completes
    # (the `if let Some(fp) = a.get(rel)` wrapper is total for planned paths; not checked here)


def r5(ctx, F, bs):
    r = bs.rfl
    R = bs.run
    saves = r.calls_to('archive::Archive::save')
    if len(saves) != 1:
        ctx.missing('C06.R5', 'run_bisync -> Archive::save')
    sb, st = saves[0]
    # entries := common where common is the map handed to apply
    ent = None
    epoch = None
    for bi in r.cfg.reachable():
        for s in R.blocks[bi]['stmts']:
            pr = s['dst']['proj']
            if pr and isinstance(pr[-1], dict) and pr[-1].get('name') == 'entries':
                ent = (bi, s)
            if pr and isinstance(pr[-1], dict) and pr[-1].get('name') == 'epoch':
                epoch = (bi, s)
    if ent is None:
        ctx.missing('C06.R5', 'run_bisync: arc.entries assignment')
    at = R.blocks[bs.apply_call_bb]['term']
    common_arg = at['args'][bs.roles['common'] - 1]

    def root_local(op):
        cr = chase_root(r, op)
        return cr[0] if cr else None
    same_map = root_local(common_arg) == root_local(ent[1]['rv']['ops'][0])
    arc_l = ent[1]['dst']['l']
    saved = {o for o in r.origins(st['args'][0])}
    save_arc = root_local(st['args'][0]) == arc_l
    ctx.check(same_map and save_arc and r.cfg.dominates(ent[0], sb), 'C06.R5', 'run_bisync:entries=common',
              'arc.entries = the map apply maintained; that arc is saved',
              'the archive saved is not the map the apply loop maintained (same map: %s, saved object is arc: %s)' % (same_map, save_arc), term_loc(R, sb))
    ep_ok = False
    if epoch is not None:
        eo = r.origins(epoch[1]['rv']['ops'][0])
        ep_ok = any(o.kind == 'op' and o.key in ('AddWithOverflow', 'Add') for o in eo) and r.cfg.dominates(epoch[0], sb)
    ctx.check(ep_ok, 'C06.R5', 'run_bisync:epoch', 'epoch += 1 before save', 'the archive epoch is not bumped before save', term_loc(R, sb))
    po = r.origins(st['args'][1])
    lo = set()
    for lb, lt in r.calls_to('archive::Archive::load'):
        lo |= {(o.kind, o.key, o.bb) for o in r.origins(lt['args'][0])}
    def this_runs_path(os_):
        # archive_path(&root_pair_hash(root_a, root_b)) of this run's two roots - whichever call instance computed it
        os_ = [o for o in os_ if o.kind != 'comb']
        if not os_ or not all(o.kind == 'call' and o.key == 'archive::archive_path' for o in os_):
            return False
        for o in os_:
            ho = [x for x in call_arg_origins(r, o.bb, 0) if x.kind != 'comb']
            if not ho or not all(x.kind == 'call' and x.key == 'archive::root_pair_hash' for x in ho):
                return False
            for x in ho:
                a0, a1 = call_arg_origins(r, x.bb, 0), call_arg_origins(r, x.bb, 1)
                if not (a0 and a1 and all(y.kind == 'param' and y.key == 1 for y in a0) and all(y.kind == 'param' and y.key == 2 for y in a1)):
                    return False
        return True
    same_derivation = bool(lo) and this_runs_path(po) and all(this_runs_path(r.origins(lt['args'][0])) for lb, lt in r.calls_to('archive::Archive::load'))
    ctx.check((bool(lo) and {(o.kind, o.key, o.bb) for o in po} == lo) or same_derivation, 'C06.R5', 'run_bisync:save-path', 'saved to the path that was loaded (archive_path(&pair))',
              'the archive is saved to a different path than the one load() consulted', term_loc(R, sb))


def r8(ctx, F):
    b = F.body('meta::fingerprint_path')
    if b is None:
        ctx.missing('C06.R8', 'meta::fingerprint_path')
    fl = flow_of(b)
    p_i = 1
    # every Ok(Fingerprint{blake3, ftype}) aggregate
    n = 0
    for bi in fl.cfg.reachable():
        for st in b.blocks[bi]['stmts']:
            rv = st['rv']
            if rv['k'] == 'agg' and rv.get('adt') == 'reconcile::Fingerprint':
                n += 1
                names = rv['fields']
                ho = fl.origins(rv['ops'][names.index('blake3')], mut_calls=True)
                to = fl.origins(rv['ops'][names.index('ftype')])
                variant = next((o.key.split('::')[-1] for o in to if o.kind == 'agg'), '?')
                if variant == 'File':
                    # digest = finalize(hasher) where hasher was fed by io::copy from File::open(path)
                    fin = [o for o in ho if o.kind == 'call' and o.key == 'blake3::Hasher::finalize']
                    hasher_o = set()
                    for o in fin:
                        hasher_o |= call_arg_origins(fl, o.bb, 0, mut_calls=True)
                    fed = [o for o in hasher_o if o.kind == 'mutcall']
                    feeders = {o.key for o in fed}
                    src_ok = False
                    for o in fed:
                        if o.key == 'std::io::copy':
                            so = call_arg_origins(fl, o.bb, 0)
                            for x in so:
                                if x.kind == 'call' and x.key == 'std::fs::File::open':
                                    po = call_arg_origins(fl, x.bb, 0)
                                    if all(y.kind == 'param' and y.key == p_i for y in po):
                                        src_ok = True
                    only = feeders <= {'std::io::copy', 'blake3::Hasher::finalize'}
                    extra = [o for o in hasher_o if o.kind == 'mutcall' and o.key == 'blake3::Hasher::update']
                    ctx.check(bool(fin) and src_ok and only and not extra, 'C06.R8', 'fingerprint_path:file',
                              'blake3 = finalize(hasher fed only by io::copy(File::open(path)))',
                              'the file fingerprint is not the BLAKE3 of exactly the file\'s bytes (feeders: %s)' % sorted(feeders), loc(b, st['line']))
                elif variant == 'Symlink':
                    hs = [o for o in ho if o.kind == 'call' and o.key == 'blake3::hash']
                    tgt_ok = False
                    for o in hs:
                        ao = call_arg_origins(fl, o.bb, 0)
                        if any(x.kind == 'call' and x.key == 'std::fs::read_link' for x in ao):
                            tgt_ok = True
                    ctx.check(tgt_ok, 'C06.R8', 'fingerprint_path:symlink', 'blake3 = hash(read_link(path))',
                              'the symlink fingerprint is not the hash of the link target', loc(b, st['line']))
                else:
                    ctx.bad('C06.R8', 'fingerprint_path:%s' % variant, 'unrecognised fingerprint constructor', loc(b, st['line']))
    # type from symlink_metadata only
    metas = fl.calls(lambda c: c in ('std::fs::symlink_metadata', 'std::fs::metadata', 'std::path::Path::metadata', 'std::path::Path::symlink_metadata'))
    ctx.check(len(metas) == 1 and callee(metas[0][1]).endswith('symlink_metadata'), 'C06.R8', 'fingerprint_path:type-source',
              'entry type from symlink_metadata().file_type()', 'fingerprint_path stats the path other than via symlink_metadata (following links or reading times?)', loc(b, b.lo))
    if n < 2:
        ctx.missing('C06.R8', 'fingerprint_path: two Fingerprint constructors')


def base_does_not_override(ctx, F, bs, rid):
    """The recorded state starts from the base and is UPDATED with what the run establishes.  When it is assembled by
    collecting a chain into a map, the later element wins for a duplicate key: the base must not come after the fresh
    fingerprints (the same edit made on both sides would be recorded with the OLD fingerprint, and the next one-sided edit
    of that path becomes a conflict)."""
    r, R = bs.rfl, bs.run
    for cb, ct in r.calls(lambda c: c == 'std::iter::Iterator::chain'):
        def kind(op):
            ks = set()
            work, seen, steps = [op], set(), 0
            while work and steps < 80:
                steps += 1
                for o in r.origins(work.pop()):
                    k = (o.kind, str(o.key), o.bb, tuple(o.path))
                    if k in seen or o.kind == 'comb':
                        continue
                    seen.add(k)
                    if o.kind == 'call' and o.key == 'archive::Archive::load':
                        ks.add('base')
                    elif o.kind == 'call' and o.key == 'reconcile::reconcile':
                        ks.add('plan')
                    elif o.kind == 'agg' and F.body(o.key) is not None:
                        # closure of a map / filter_map: looks up the live scans?
                        for nb in [F.body(o.key)]:
                            if flow_of(nb).calls(lambda c: c.endswith('BTreeMap::<K, V, A>::get')):
                                ks.add('fresh')
                    elif o.kind == 'call' and o.bb is not None:
                        for a in R.blocks[o.bb]['term']['args']:
                            if a['k'] != 'const':
                                work.append(a)
            return ks
        k0, k1 = kind(ct['args'][0]), kind(ct['args'][1])
        # does the chained iterator end up in the map handed to apply?
        if 'base' in k1 and ('fresh' in k0 or 'plan' in k0) and 'base' not in k0:
            ctx.bad(rid, 'run_bisync:base-chained-after-fresh', 'the recorded state is collected from <fresh fingerprints>.chain(<base entries>): for a path present in both the base entry '
                    'comes last and wins - after the same edit on both replicas the archive keeps the old fingerprint', term_loc(R, cb))
        elif 'base' in k0 and ('fresh' in k1 or 'plan' in k1):
            ctx.ok(rid, 'run_bisync:base-chained-first', 'base entries first, fresh fingerprints override them', term_loc(R, cb))


def r9(ctx, F, bs):
    A = bs.apply
    fl = bs.afl
    from rules.C02 import REMOVERS
    for rb, rt in fl.calls(lambda c: c in REMOVERS):
        if is_staging_name(F, fl, rt['args'][0]):
            continue        # cleanup of a reserved staging name: nothing is dropped from the record for it
        arms = bs.arm_of(rb)
        arm = next((a for a in arms if a in ('DeleteA', 'DeleteB')), '+'.join(arms))
        discarded = fl.result_discarded(rb)
        ctx.check(not discarded, 'C06.R9', 'apply:%s:remove_file-result' % arm, 'result of remove_file is inspected',
                  'the result of remove_file is discarded and the entry is dropped from the record regardless: a failed delete is recorded as done, '
                  'and the next run sees a file with no base (re-created on the other side)', term_loc(A, rb))
