"""C06 — bisync converges, records what it did, and is idempotent (DESIGN §7 C06)."""
from rules.common import *  # noqa: F401,F403
from rules.bisync import Bisync, RUN, APPLY, COPY
from callgraph import callgraph_of
import tables

CONFIGS = ['cli']
LEVEL = 'other'
EXPLANATION = (
    'Decides: (R1) no body reachable from run_bisync reads a modification/access/creation time or the clock (effect-set emptiness, with a '
    'positive control that the same query finds mtime readers under run_local); (R2) the conflict winner is the side with the greater BLAKE3 and '
    'the tuple of roots/fingerprints is consistent on both comparison edges; (R3) the loser name is rel + ".conflict-" + host + "-" + short_hex(loser digest) '
    'and short_hex prints the first 6 bytes as 2-digit lower hex; (R4) every arm records in `common` the fingerprint of what it left at rel '
    '(and the loser at the loser name), deletes remove the entry; (R5) the archive saved is exactly that map, with the epoch bumped, at the path '
    'that was loaded; (R6) = C02.R5 no stale base entries; (R7) mirror symmetry and Noop on a=b=base from the C18 table; (R8) fingerprint_path hashes '
    'only the bytes of the file (or the link target) and takes the type from symlink_metadata; (R9) a failed delete is not recorded as done; (R10) every non-dry-run Ok return of run_bisync passes Archive::save, so a run that reports success has recorded the state it left. '
    'Not decided: convergence and idempotence as behaviours (paper argument from R4-R7 + C18).')
ASSUMPTIONS = ['BLAKE3 collision freeness', 'BTreeMap API semantics']


def run(ctx):
    F = ctx.F['cli']
    ctx.rule('C06.R1', 'bodies reachable from run_bisync never read file times or the clock', floor=12)
    ctx.rule('C06.R2', 'winner = side with the greater BLAKE3; tuple consistent on each comparison edge', floor=1)
    ctx.rule('C06.R3', 'loser name = rel + ".conflict-" + host + "-" + short_hex(loser.blake3); short_hex = first 6 bytes as {:02x}', floor=2)
    ctx.rule('C06.R4', 'each arm records the fingerprint of what it left at rel; deletes remove the entry', floor=9)
    ctx.rule('C06.R5', 'arc.entries = common; epoch += 1; save(&apath) with the loaded path', floor=3)
    ctx.rule('C06.R6', 'no base entries for paths absent from both trees (C02.R5)', floor=1)
    ctx.rule('C06.R7', 'decision table symmetric; a == b == base -> Noop (C18)', floor=15)
    ctx.rule('C06.R8', 'fingerprint_path: digest of the file bytes / link target only; type from symlink_metadata', floor=2)
    ctx.rule('C06.R9', 'bisync delete results are not discarded before the entry is dropped from the record', floor=2)
    ctx.rule('C06.R10', 'every successful non-dry-run exit of run_bisync passes Archive::save', floor=1)
    bs = Bisync(ctx, F, 'C06.R4')
    ctx.rule('C06.R11', 'the plan applied is exactly the value reconcile() returned (no filtering between decision and apply)', floor=1)
    bs.every_success_records(ctx, 'C06.R10')
    bs.plan_is_reconcile_result(ctx, 'C06.R11')
    r1(ctx, F, bs)
    from rules import C02
    # R2: reuse the winner tuple rule under this id
    sub = _Alias(ctx, 'C02.R4', 'C06.R2', only='apply:BothChanged:winner-tuple')
    C02.side_rules(sub, bs, bs.copy_sites(), direction=True)
    r3(ctx, F, bs)
    r4(ctx, F, bs)
    r5(ctx, F, bs)
    sub = _Alias(ctx, 'C02.R5', 'C06.R6')
    C02.archive_taint(sub, bs)
    from rules import C18
    leaves = C18.table_of(ctx, F, 'C06.R7')
    if leaves is not None:
        table = {}
        vals = C18.valuations()
        for v in vals:
            hits = C18.lookup(leaves, v)
            table[C18.vdesc(v)] = hits[0] if len(hits) == 1 else 'ambiguous'
        for v in vals:
            r_ = table[C18.vdesc(v)]
            r2 = table[C18.vdesc(C18.swap(v))]
            ok = C18.MIRROR.get(r_, r_) == r2 and r_ == C18.oracle(v)
            ctx.check(ok, 'C06.R7', C18.vdesc(v), '%s / mirrored %s' % (r_, r2),
                      'decision at %s is %s (table: %s; mirrored: %s): outcome would depend on which directory is named first' % (C18.vdesc(v), r_, C18.oracle(v), r2),
                      'src/bin/copia/reconcile.rs (reconcile::reconcile_path)')
    r8(ctx, F)
    r9(ctx, F, bs)


class _Alias:
    """Re-issue another module's rule results under this property's rule id."""

    def __init__(self, ctx, src, dst, only=None):
        self._ctx, self._src, self._dst, self._only = ctx, src, dst, only
        self.F = ctx.F
        self.interproc = ctx.interproc

    def _map(self, rid, key):
        if rid != self._src:
            return None
        if self._only and key != self._only:
            return None
        return self._dst

    def ok(self, rid, key, detail='', loc=None):
        d = self._map(rid, key)
        if d:
            self._ctx.ok(d, key, detail, loc)

    def bad(self, rid, key, msg, loc=None, path=None):
        d = self._map(rid, key)
        if d:
            self._ctx.bad(d, key, msg, loc, path)

    def undecided(self, rid, what):
        self._ctx.undecided(rid, what)

    def note(self, s_):
        self._ctx.note(s_)

    def check(self, cond, rid, key, ok_detail, bad_msg, loc=None, path=None):
        d = self._map(rid, key)
        if d:
            return self._ctx.check(cond, d, key, ok_detail, bad_msg, loc, path)
        return bool(cond)

    def missing(self, rid, symbol):
        self._ctx.missing(self._dst, symbol)

    def rule(self, *a, **k):
        pass

    def note(self, s):
        self._ctx.note(s)


def r1(ctx, F, bs):
    cg, graph = bs.bisync_graph()
    sites = cg.call_sites(lambda c: c in tables.TIME_READERS, within=graph)
    for b in sorted(graph):
        hits = [(bb, c) for (bd, bb, c) in sites if bd.path == b]
        if hits:
            for bb, c in hits:
                ctx.bad('C06.R1', '%s:%s' % (b.split('::{')[0], c), 'a body reachable from run_bisync reads a time (%s): the outcome could depend on mtimes' % c,
                        term_loc(F.body(b), bb))
        else:
            ctx.ok('C06.R1', b, 'no time reader')
    # positive control: the same query must see the mtime reader under the one-way sync
    ctl = cg.call_sites(lambda c: c in tables.TIME_READERS, within=cg.reach(['incremental::run_local']))
    if not ctl:
        from verdict import NoVerdict
        raise NoVerdict('control failed: C06.R1 time-reader query does not find Metadata::modified under incremental::run_local')
    ctx.note('C06.R1 control: time readers under run_local: %s' % sorted({c for _, _, c in ctl}))


def r3(ctx, F, bs):
    A = bs.apply
    fl = bs.afl
    # the format site that builds the suffix
    sites = [f for f in F.formats if f['file'].endswith('bin/copia/bidir.rs') and A.lo <= f['line'] <= A.hi
             and any(isinstance(p, str) and 'conflict' in p for p in f['pieces'])]
    if len(sites) != 1:
        ctx.missing('C06.R3', 'apply: the format!(".conflict-…") site (found %d)' % len(sites))
    f = sites[0]
    lits = [p for p in f['pieces'] if isinstance(p, str)]
    holes = [p for p in f['pieces'] if not isinstance(p, str)]
    shape = f['pieces'] and f['pieces'][0] == '.conflict-' and len(holes) == 2 and len(lits) == 2 and lits[1] == '-' \
        and len(f['pieces']) == 4 and not isinstance(f['pieces'][1], str) and not isinstance(f['pieces'][3], str)
    args = f['args']
    good = False
    if shape:
        a_host = args[holes[0]['arg']]
        a_hash = args[holes[1]['arg']]
        host_ok = a_host.get('k') == 'var' and bs.roles.get('host') is not None and \
            bs.is_param(fl.origins(local_op(A, a_host['name'])), 'host')
        hash_ok = a_hash.get('k') == 'call' and a_hash['func'].split('::')[-1] == 'short_hex' and len(a_hash['args']) == 1 \
            and a_hash['args'][0].get('k') == 'field' and a_hash['args'][0]['name'] == 'blake3'
        # the fingerprint whose digest is printed is the loser's (4th element of the winner tuple)
        loser_ok = False
        if hash_ok and a_hash['args'][0]['base'].get('k') == 'var':
            for l in A.locals_named(a_hash['args'][0]['base']['name']):
                for (bb, idx, kind, data, dproj) in fl.defs.get(l, []):
                    if kind == 'assign' and data['k'] == 'use' and data['ops'][0]['k'] != 'const':
                        pr = data['ops'][0]['p']['proj']
                        if pr and isinstance(pr[-1], dict) and pr[-1].get('f') == 3:
                            loser_ok = True
        good = host_ok and hash_ok and loser_ok
    # appended to rel
    pushes = [(pb, pt) for pb, pt in fl.calls_to('std::ffi::OsString::push')]
    app = False
    for pb, pt in pushes:
        tgt = fl.origins(pt['args'][0])
        if bs.is_param({o for o in tgt}, 'rel') and any(o.kind == 'call' and o.key == 'std::fmt::format' for o in fl.origins(pt['args'][1])):
            app = True
    ctx.check(shape and good and app, 'C06.R3', 'apply:loser-name', 'rel + ".conflict-" + host + "-" + short_hex(lose_fp.blake3)',
              'the conflict-copy name is not <path>.conflict-<host>-<short hex of the loser\'s digest> (template %s, args %s)' % (
                  f['pieces'], [a.get('src', a.get('name')) for a in args]), '%s:%d (bidir::apply)' % (f['file'], f['line']))
    # short_hex
    sh = F.body('bidir::short_hex')
    if sh is None:
        ctx.missing('C06.R3', 'bidir::short_hex')
    sfl = flow_of(sh)
    six = False
    for bi in sfl.cfg.reachable():
        for st in sh.blocks[bi]['stmts']:
            rv = st['rv']
            if rv['k'] == 'agg' and rv.get('adt') == 'std::ops::RangeTo' and rv['ops'][0]['k'] == 'const' and rv['ops'][0].get('v') == 6:
                six = True
    fs = [f2 for f2 in F.formats if f2['file'].endswith('bin/copia/bidir.rs') and sh.lo <= f2['line'] <= sh.hi]
    hex2 = len(fs) == 1 and len(fs[0]['pieces']) == 1 and not isinstance(fs[0]['pieces'][0], str) and \
        fs[0]['pieces'][0]['trait'] == 'LowerHex' and fs[0]['pieces'][0]['width'] == 2 and fs[0]['pieces'][0]['zero_pad']
    ctx.check(six and hex2, 'C06.R3', 'short_hex', 'h[..6] printed with {:02x} (12 hex digits)',
              'short_hex no longer prints exactly the first 6 bytes as two lower-case hex digits each (6-byte range: %s, {:02x}: %s)' % (six, hex2), loc(sh, sh.lo))


def local_op(body, name):
    ls = body.locals_named(name)
    if not ls:
        return {'k': 'const', 'dbg': '?'}
    return {'k': 'copy', 'p': {'l': ls[0], 'proj': []}}


def r4(ctx, F, bs):
    A = bs.apply
    fl = bs.afl
    cfg = fl.cfg
    common = bs.roles['common']
    ins = [(b, t) for b, t in fl.calls_to('std::collections::BTreeMap::<K, V, A>::insert')
           if bs.is_param({o for o in fl.origins(t['args'][0])}, 'common')]
    rem = [(b, t) for b, t in fl.calls_to('std::collections::BTreeMap::<K, V, A>::remove')
           if bs.is_param({o for o in fl.origins(t['args'][0])}, 'common')]

    def fp_side(os_):
        sides = set()
        for o in os_:
            if o.kind == 'call' and o.key.endswith('::get'):
                m = call_arg_origins(fl, o.bb, 0)
                k = call_arg_origins(fl, o.bb, 1)
                if not bs.is_param(k, 'rel'):
                    sides.add('?')
                elif bs.is_param(m, 'a'):
                    sides.add('a')
                elif bs.is_param(m, 'b'):
                    sides.add('b')
                else:
                    sides.add('?')
            elif o.kind != 'comb':
                sides.add('?')
        return sides
    expect = {'ConvergeIdentical': {'a', 'b'}, 'PropagateAtoB': {'a'}, 'PropagateBtoA': {'b'}}
    seen = set()
    copies = bs.copy_sites()
    for ib, it in ins:
        arms = bs.arm_of(ib)
        key_o = fl.origins(it['args'][1], mut_calls=True)
        val_o = fl.origins(it['args'][2])
        at_rel = bs.is_param(key_o, 'rel')
        arm = next((a for a in arms if a in expect), None)
        if arm:
            sides = fp_side(val_o)
            ok = at_rel and len(sides) == 1 and sides <= expect[arm]
            seen.add(arm)
            ctx.check(ok, 'C06.R4', 'apply:%s:record' % arm, 'common[rel] = %s[rel]' % '/'.join(sorted(sides)),
                      '%s records %s at %s instead of the fingerprint of the content it left at rel' % (arm, sorted(sides), 'rel' if at_rel else 'another key'),
                      term_loc(A, ib))
        elif 'DeleteVsModify' in arms:
            # the recorded side must be the side copied from (guarded by the same contains_key edge)
            sides = fp_side(val_o)
            src_side = None
            for cb, ct, src, dst in copies:
                if 'DeleteVsModify' in bs.arm_of(cb) and cfg.dominates(cb, ib):
                    src_side = src[1]
            ok = at_rel and len(sides) == 1 and list(sides)[0] == src_side
            seen.add('DeleteVsModify:' + str(src_side))
            ctx.check(ok, 'C06.R4', 'apply:DeleteVsModify:record-%s' % src_side, 'common[rel] = %s[rel] (the restored side)' % src_side,
                      'DeleteVsModify records %s while restoring from side %s' % (sorted(sides), src_side), term_loc(A, ib))
        elif 'BothChanged' in arms:
            # winner at rel, loser at the loser name: tuple positions 1 and 3
            def tuple_pos(op):
                out = set()
                l = op['p']['l'] if op['k'] != 'const' else None
                stack = [l]
                visited = set()
                while stack:
                    x = stack.pop()
                    if x is None or x in visited:
                        continue
                    visited.add(x)
                    for (bb, idx, kind, data, dproj) in fl.defs.get(x, []):
                        if kind == 'assign' and data['k'] == 'use' and data['ops'][0]['k'] != 'const':
                            pr = data['ops'][0]['p']['proj']
                            fields = [e['f'] for e in pr if isinstance(e, dict) and 'f' in e]
                            src_l = data['ops'][0]['p']['l']
                            if fields and 'tuple' in fl.body.local_ty(src_l) or (fields and fl.body.local_ty(src_l).startswith('(')):
                                out.add(fields[0])
                            else:
                                stack.append(src_l)
                return out
            pos = tuple_pos(it['args'][2])
            if at_rel:
                seen.add('BothChanged:winner')
                ctx.check(pos == {1}, 'C06.R4', 'apply:BothChanged:record-winner', 'common[rel] = win_fp',
                          'BothChanged records tuple element %s at rel instead of the winner\'s fingerprint' % sorted(pos), term_loc(A, ib))
            else:
                derived = any(o.kind == 'mutcall' for o in key_o)
                seen.add('BothChanged:loser')
                ctx.check(pos == {3} and derived, 'C06.R4', 'apply:BothChanged:record-loser', 'common[loser_name] = lose_fp',
                          'BothChanged records tuple element %s at the conflict-copy name instead of the loser\'s fingerprint' % sorted(pos), term_loc(A, ib))
        else:
            ctx.bad('C06.R4', 'apply:%s:insert' % '+'.join(arms), 'unexpected write to the recorded state', term_loc(A, ib))
    for rb, rt in rem:
        arms = bs.arm_of(rb)
        arm = next((a for a in arms if a in ('DeleteA', 'DeleteB')), None)
        at_rel = bs.is_param(fl.origins(rt['args'][1]), 'rel')
        if arm:
            seen.add(arm)
        ctx.check(bool(arm) and at_rel, 'C06.R4', 'apply:%s:unrecord' % (arm or '+'.join(arms)), 'common.remove(rel)',
                  'an entry is removed from the recorded state outside the Delete arms / for another key', term_loc(A, rb))
    want = {'ConvergeIdentical', 'PropagateAtoB', 'PropagateBtoA', 'DeleteA', 'DeleteB', 'DeleteVsModify:a', 'DeleteVsModify:b',
            'BothChanged:winner', 'BothChanged:loser'}
    for w in sorted(want - seen):
        ctx.bad('C06.R4', 'apply:%s:record-exists' % w, 'the %s arm does not update the recorded common state' % w, loc(A, A.lo))
    # the record is unconditional within the arm once the file op succeeded: the insert is reached whenever the arm completes
    # (the `if let Some(fp) = a.get(rel)` wrapper is total for planned paths; not checked here)


def r5(ctx, F, bs):
    r = bs.rfl
    R = bs.run
    saves = r.calls_to('archive::Archive::save')
    if len(saves) != 1:
        ctx.missing('C06.R5', 'run_bisync -> Archive::save')
    sb, st = saves[0]
    # entries := common where common is the map handed to apply
    ent = None
    epoch = None
    for bi in r.cfg.reachable():
        for s in R.blocks[bi]['stmts']:
            pr = s['dst']['proj']
            if pr and isinstance(pr[-1], dict) and pr[-1].get('name') == 'entries':
                ent = (bi, s)
            if pr and isinstance(pr[-1], dict) and pr[-1].get('name') == 'epoch':
                epoch = (bi, s)
    if ent is None:
        ctx.missing('C06.R5', 'run_bisync: arc.entries assignment')
    at = R.blocks[bs.apply_call_bb]['term']
    common_arg = at['args'][bs.roles['common'] - 1]

    def root_local(op):
        l = op['p']['l']
        for _ in range(8):
            ds = r.defs.get(l, [])
            # an unnamed temporary, or a named local that is nothing but another local moved/copied into it (the parameter
            # of a spliced helper, `let x = y;`)
            pure_rename = len(ds) == 1 and ds[0][2] == 'assign' and ds[0][3]['k'] == 'use' and not ds[0][4] and \
                ds[0][3]['ops'][0].get('p') is not None and not ds[0][3]['ops'][0]['p']['proj']
            if len(ds) == 1 and ds[0][2] == 'assign' and ds[0][3]['k'] in ('ref', 'use') and (not R.local_name(l) or pure_rename):
                src = ds[0][3].get('p') or ds[0][3]['ops'][0].get('p')
                if src is None:
                    break
                l = src['l']
            else:
                break
        return l
    same_map = root_local(common_arg) == root_local(ent[1]['rv']['ops'][0])
    arc_l = ent[1]['dst']['l']
    saved = {o for o in r.origins(st['args'][0])}
    save_arc = root_local(st['args'][0]) == arc_l
    ctx.check(same_map and save_arc and r.cfg.dominates(ent[0], sb), 'C06.R5', 'run_bisync:entries=common',
              'arc.entries = the map apply maintained; that arc is saved',
              'the archive saved is not the map the apply loop maintained (same map: %s, saved object is arc: %s)' % (same_map, save_arc), term_loc(R, sb))
    ep_ok = False
    if epoch is not None:
        eo = r.origins(epoch[1]['rv']['ops'][0])
        ep_ok = any(o.kind == 'op' and o.key in ('AddWithOverflow', 'Add') for o in eo) and r.cfg.dominates(epoch[0], sb)
    ctx.check(ep_ok, 'C06.R5', 'run_bisync:epoch', 'epoch += 1 before save', 'the archive epoch is not bumped before save', term_loc(R, sb))
    po = r.origins(st['args'][1])
    lo = set()
    for lb, lt in r.calls_to('archive::Archive::load'):
        lo |= {(o.kind, o.key, o.bb) for o in r.origins(lt['args'][0])}
    ctx.check(bool(lo) and {(o.kind, o.key, o.bb) for o in po} == lo, 'C06.R5', 'run_bisync:save-path', 'saved to the path that was loaded (archive_path(&pair))',
              'the archive is saved to a different path than the one load() consulted', term_loc(R, sb))


def r8(ctx, F):
    b = F.body('meta::fingerprint_path')
    if b is None:
        ctx.missing('C06.R8', 'meta::fingerprint_path')
    fl = flow_of(b)
    p_i = 1
    # every Ok(Fingerprint{blake3, ftype}) aggregate
    n = 0
    for bi in fl.cfg.reachable():
        for st in b.blocks[bi]['stmts']:
            rv = st['rv']
            if rv['k'] == 'agg' and rv.get('adt') == 'reconcile::Fingerprint':
                n += 1
                names = rv['fields']
                ho = fl.origins(rv['ops'][names.index('blake3')], mut_calls=True)
                to = fl.origins(rv['ops'][names.index('ftype')])
                variant = next((o.key.split('::')[-1] for o in to if o.kind == 'agg'), '?')
                if variant == 'File':
                    # digest = finalize(hasher) where hasher was fed by io::copy from File::open(path)
                    fin = [o for o in ho if o.kind == 'call' and o.key == 'blake3::Hasher::finalize']
                    hasher_o = set()
                    for o in fin:
                        hasher_o |= call_arg_origins(fl, o.bb, 0, mut_calls=True)
                    fed = [o for o in hasher_o if o.kind == 'mutcall']
                    feeders = {o.key for o in fed}
                    src_ok = False
                    for o in fed:
                        if o.key == 'std::io::copy':
                            so = call_arg_origins(fl, o.bb, 0)
                            for x in so:
                                if x.kind == 'call' and x.key == 'std::fs::File::open':
                                    po = call_arg_origins(fl, x.bb, 0)
                                    if all(y.kind == 'param' and y.key == p_i for y in po):
                                        src_ok = True
                    only = feeders <= {'std::io::copy', 'blake3::Hasher::finalize'}
                    extra = [o for o in hasher_o if o.kind == 'mutcall' and o.key == 'blake3::Hasher::update']
                    ctx.check(bool(fin) and src_ok and only and not extra, 'C06.R8', 'fingerprint_path:file',
                              'blake3 = finalize(hasher fed only by io::copy(File::open(path)))',
                              'the file fingerprint is not the BLAKE3 of exactly the file\'s bytes (feeders: %s)' % sorted(feeders), loc(b, st['line']))
                elif variant == 'Symlink':
                    hs = [o for o in ho if o.kind == 'call' and o.key == 'blake3::hash']
                    tgt_ok = False
                    for o in hs:
                        ao = call_arg_origins(fl, o.bb, 0)
                        if any(x.kind == 'call' and x.key == 'std::fs::read_link' for x in ao):
                            tgt_ok = True
                    ctx.check(tgt_ok, 'C06.R8', 'fingerprint_path:symlink', 'blake3 = hash(read_link(path))',
                              'the symlink fingerprint is not the hash of the link target', loc(b, st['line']))
                else:
                    ctx.bad('C06.R8', 'fingerprint_path:%s' % variant, 'unrecognised fingerprint constructor', loc(b, st['line']))
    # type from symlink_metadata only
    metas = fl.calls(lambda c: c in ('std::fs::symlink_metadata', 'std::fs::metadata', 'std::path::Path::metadata', 'std::path::Path::symlink_metadata'))
    ctx.check(len(metas) == 1 and callee(metas[0][1]).endswith('symlink_metadata'), 'C06.R8', 'fingerprint_path:type-source',
              'entry type from symlink_metadata().file_type()', 'fingerprint_path stats the path other than via symlink_metadata (following links or reading times?)', loc(b, b.lo))
    if n < 2:
        ctx.missing('C06.R8', 'fingerprint_path: two Fingerprint constructors')


def r9(ctx, F, bs):
    A = bs.apply
    fl = bs.afl
    from rules.C02 import REMOVERS
    for rb, rt in fl.calls(lambda c: c in REMOVERS):
        arms = bs.arm_of(rb)
        arm = next((a for a in arms if a in ('DeleteA', 'DeleteB')), '+'.join(arms))
        discarded = fl.result_discarded(rb)
        ctx.check(not discarded, 'C06.R9', 'apply:%s:remove_file-result' % arm, 'result of remove_file is inspected',
                  'the result of remove_file is discarded and the entry is dropped from the record regardless: a failed delete is recorded as done, '
                  'and the next run sees a file with no base (re-created on the other side)', term_loc(A, rb))
