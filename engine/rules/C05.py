"""C05 — patch never reports success on wrong bytes (DESIGN §7 C05)."""
from rules.common import *
from flow import strip_refs  # noqa: F401,F403
from rules import panics

LEVEL = 'other'
EXPLANATION = (
    'Decides the implication itself as a path property of both engines: every Ok return of patch is '
    'reachable only through (verify_checksum == false) or through the equal edge of '
    'finalize(hasher) == delta.checksum (R3), where the hasher was fed exactly the buffers that were written '
    '(R2), after Delta::validate returned Ok (R1, R5), copies being read_exact into a buffer sized by the op '
    '(R4); the CLI maps Err to a failure exit and nothing on the way of `copia patch` gives the output file a length other than what patch wrote (R7); no crate-local panic site is reachable from the patch entry '
    'points on a hostile delta (R6). When hashing and the closing checks are delegated to an object shared by the engines, the same implication is decided on that object: its feeding method hashes its argument whenever verification is on, every written buffer is fed to it, and its closing method returns Ok only behind verify-off or finalize == checksum. R3 accepts an equality helper of the crate instead of == and judges it: the per-element differences must be OR-ed (XOR / + lets differences cancel: reported). (R7) main is judged on the executions where the command is patch: an Err of run() may be forgiven for another subcommand (serve ending because its peer hung up), never for patch. Not decided: nothing further at this level (BLAKE3 and Write::write_all are trusted).')
ASSUMPTIONS = ['blake3::Hasher implements BLAKE3', 'Write::write_all / AsyncWriteExt::write_all write exactly the given buffer',
               'dependencies do not panic on the inputs copia passes them']

ENGINES = [
    ('<sync::CopiaSync as sync::Sync>::patch', 'sync'),
    ('async_sync::AsyncCopiaSync::patch', 'async'),
]
WRITE = ['std::io::Write::write_all', 'tokio::io::AsyncWriteExt::write_all']
UPDATE = ['blake3::Hasher::update']


def roots(origins):
    return {(o.kind, o.key) for o in origins if o.kind in ('param', 'upvar')}


def run(ctx):
    ctx.rule('C05.R1', 'every write to the output is ED-guarded by the Ok edge of Delta::validate(delta)', floor=4)
    ctx.rule('C05.R2', 'hash-what-you-write: each written buffer is fed to the one hasher, and vice versa, unconditionally', floor=4)
    ctx.rule('C05.R3', 'every Ok return is guarded by verify_checksum==false or finalize(hasher)==delta.checksum', floor=2)
    ctx.rule('C05.R4', 'copy arm: seek(Start(op.offset)); buffer sized by op.len; read_exact Ok guards the write of that buffer', floor=2)
    ctx.rule('C05.R5', 'Delta::validate returns Ok only if no op has offset.saturating_add(len) > basis_size, over all ops', floor=1)
    ctx.rule('C05.R7', 'CLI: run() Err maps to ExitCode::FAILURE; run_patch propagates the patch result', floor=2)
    for cfg, F in ctx.F.items():
        for fn, tag in ENGINES:
            if not F.nested(fn):
                if tag == 'async' and cfg == 'default':
                    continue  # async engine is not compiled without the feature
                ctx.missing('C05.R1', fn)
            b = work_body(F, fn, WRITE)
            if b is None:
                ctx.missing('C05.R1', fn + ' (no write_all call found)')
            check_engine(ctx, F, b, fn, tag)
        check_validate(ctx, F)
        if cfg.startswith('cli'):
            check_cli(ctx, F)
    panics.run_entries(ctx, 'C05.R6', [
        '<sync::CopiaSync as sync::Sync>::patch', 'async_sync::AsyncCopiaSync::patch', 'run_patch'],
        'no crate-local panic site is reachable from the patch entry points (hostile delta)')


def check_engine(ctx, F, b, fn, tag):
    fl = flow_of(b)
    cfg = fl.cfg
    writes = fl.calls(lambda c: c in WRITE)
    updates = fl.calls(lambda c: c in UPDATE)
    validates = fl.calls_to('delta::Delta::validate')
    # ---- R1
    if not validates:
        own = [bi for bi in cfg.reachable() for st in b.blocks[bi]['stmts']
               if st['rv']['k'] == 'agg' and st['rv'].get('vname') == 'InvalidCopyBounds']
        if own:
            # the engine refuses out-of-bounds copies by a test of its own (its own pass over the operations) instead of calling
            # Delta::validate: whether that test covers every copy is a question about that loop, not read here
            ctx.undecided('C05.R1', '%s checks the copy bounds itself (builds InvalidCopyBounds) instead of calling Delta::validate: that every copy is checked before the first write is not decided' % fn)
            return
    for (wb, wt) in writes:
        name = root_name(fl, wt['args'][1])
        ok = any(fl.guarded_by(wb, vb, 'Ok') for vb, _ in validates)
        ctx.check(ok, 'C05.R1', '%s:write_all(%s)' % (tag, name),
                  'guarded by validate Ok edge', 'write_all(%s) in %s is reachable without a successful Delta::validate' % (name, fn),
                  term_loc(b, wb))
    if not validates:
        ctx.bad('C05.R1', '%s:validate-exists' % tag, '%s never calls Delta::validate' % fn, loc(b, b.lo))
    # the delta object = what validate was called on
    delta_roots = set()
    for vb, vt in validates:
        delta_roots |= roots(fl.origins(vt['args'][0]))
    # ---- R2 / R3 when the hashing is delegated to a helper object (`tally.absorb(&buf)` ... `tally.finish(delta)`)
    if not updates and tally_model(ctx, F, b, fl, fn, tag, writes, delta_roots):
        _r4(ctx, F, b, fl, fn, tag, writes)
        return
    # ---- R2
    hashers = set()
    for ub, ut in updates:
        for o in fl.origins(ut['args'][0]):
            hashers.add((o.kind, o.key, o.bb))
    new_calls = [(kb) for kb, kt in fl.calls_to('blake3::Hasher::new')]
    loops = cfg.loops()
    in_loop = set().union(*loops.values()) if loops else set()
    one_hasher = len(hashers) == 1 and all(h[0] == 'call' and h[1] == 'blake3::Hasher::new' for h in hashers) \
        and all(h[2] not in in_loop for h in hashers)
    ctx.check(one_hasher, 'C05.R2', '%s:one-hasher' % tag, 'single Hasher::new before the loop feeds every update',
              'hasher fed by update() is not a single Hasher::new created before the op loop: %s' % sorted(map(str, hashers)), loc(b, b.lo))
    errs = error_blocks(b)
    heads = set(loops.keys())
    rets = set(cfg.exits())

    def paired(first, second):
        # from `first` no loop head / return is reachable without passing `second` or an error exit
        r = set()
        for s, _ in cfg.succ[first]:
            r |= cfg.reach(s, cut_blocks=set([second]) | errs)
        encl = {h for h in heads if first in loops[h]}   # await/poll loops after `first` are not iterations
        return not (r & (encl | rets))

    def buf_sig(t):
        return frozenset((o.kind, o.key, o.path, o.bb) for o in fl.origins(t['args'][1]))

    used_updates = set()
    for (wb, wt) in writes:
        ws = buf_sig(wt)
        name = root_name(fl, wt['args'][1])
        match = None
        for (ub, ut) in updates:
            if ub in used_updates or buf_sig(ut) != ws:
                continue
            if (cfg.dominates(wb, ub) and paired(wb, ub)) or (cfg.dominates(ub, wb) and paired(ub, wb)):
                match = ub
                break
        if match is not None:
            used_updates.add(match)
        ctx.check(match is not None, 'C05.R2', '%s:write_all(%s)~update' % (tag, name),
                  'paired with hasher.update of the same buffer on every non-error path',
                  'bytes written by write_all(%s) in %s are not (unconditionally) fed to the hasher' % (name, fn), term_loc(b, wb))
    for (ub, ut) in updates:
        if ub not in used_updates:
            name = root_name(fl, ut['args'][1])
            ctx.bad('C05.R2', '%s:update(%s)~write_all' % (tag, name),
                    'hasher.update(%s) in %s has no matching write of the same buffer: the checksum covers bytes that were not written' % (name, fn),
                    term_loc(b, ub))
    # ---- R3
    ok_blocks = ok_assign_blocks(b, 'Ok')
    verify_false = set()
    for sb, st in switch_blocks_on(fl, lambda os_: any(o.path[-1:] == ('verify_checksum',) for o in os_)):
        tr, fa = bool_edges(sb, st)
        verify_false |= fa
    equal = set()

    def is_final(os_):
        for o in os_:
            if o.kind == 'call' and o.key == 'blake3::Hasher::finalize':
                fo = call_arg_origins(fl, o.bb, 0)
                if any(x.kind == 'call' and x.key == 'blake3::Hasher::new' for x in fo) and \
                   {(x.kind, x.key, x.bb) for x in fo if x.kind == 'call'} <= hashers:
                    return True
        return False

    def is_checksum(os_):
        return any((o.kind, o.key) in delta_roots and o.path[:1] == ('checksum',) for o in os_)
    for (cb, ct) in fl.calls_to('std::cmp::PartialEq::eq', 'std::cmp::PartialEq::ne'):
        o0 = fl.origins(ct['args'][0], interproc=ctx.interproc[F.cfg])
        o1 = fl.origins(ct['args'][1], interproc=ctx.interproc[F.cfg])
        if (is_final(o0) and is_checksum(o1)) or (is_final(o1) and is_checksum(o0)):
            eq, ne = eq_edges(fl, cb)
            equal |= eq
    # the comparison may go through an equality helper of the crate (`computed.ct_eq(&delta.checksum)`): its true edge is the
    # equal edge - provided the helper IS an equality over all the bytes (judged once, below)
    for (cb, ct) in fl.calls(lambda c: F.body(c) is not None and len(F.body(c).locals) > 2 and F.body(c).argc == 2 and F.body(c).local_ty(0) == 'bool'):
        if len(ct['args']) != 2:
            continue
        o0 = fl.origins(ct['args'][0], interproc=ctx.interproc[F.cfg])
        o1 = fl.origins(ct['args'][1], interproc=ctx.interproc[F.cfg])
        if (is_final(o0) and is_checksum(o1)) or (is_final(o1) and is_checksum(o0)):
            verdict, why_ = equality_helper(F, callee(ct))
            if verdict is False:
                ctx.bad('C05.R3', '%s:equality-helper' % tag, '%s compares the hash of the written bytes with delta.checksum through %s, which is not an equality of all bytes: %s' % (
                    fn, callee(ct).split('::')[-1], why_), term_loc(b, cb))
            elif verdict is None:
                ctx.undecided('C05.R3', '%s compares through %s: %s' % (fn, callee(ct).split('::')[-1], why_))
                equal |= fl.outcomes(cb).get('true', set())
            else:
                equal |= fl.outcomes(cb).get('true', set())
    ret0 = ret_defs(b)
    for ob in ok_blocks:
        ok = cfg.edges_guard(verify_false | equal, ob) if (verify_false or equal) else False
        ctx.check(ok and bool(equal), 'C05.R3', '%s:Ok-return' % tag,
                  'guarded by {verify_checksum false edge} ∪ {finalize(hasher)==delta.checksum equal edge}',
                  'an Ok return of %s is reachable although verification is enabled and the hash of the written bytes '
                  'was not found equal to delta.checksum' % fn, term_loc(b, ob),
                  path=cfg.path(0, ob, cut_edges=list(verify_false | equal)))
    if not ok_blocks:
        ctx.missing('C05.R3', fn + ' (no Ok return found)')
    for (rb, kind, data) in ret0:
        if kind == 'call' and callee(data) != 'std::ops::FromResidual::from_residual':
            ctx.bad('C05.R3', '%s:return-via-%s' % (tag, callee(data)),
                    '%s returns the result of %s directly: success is not gated by the checksum comparison' % (fn, callee(data)), term_loc(b, rb))
        if kind == 'assign' and data['k'] != 'agg':
            ctx.bad('C05.R3', '%s:return-opaque' % tag, '%s assigns its result from a non-constructor expression' % fn, loc(b, b.lo))
    _r4(ctx, F, b, fl, fn, tag, writes)


READ_EXACT = ('std::io::Read::read_exact', 'tokio::io::AsyncReadExt::read_exact')
SEEK = ('std::io::Seek::seek', 'tokio::io::AsyncSeekExt::seek')


def _okey(os_):
    return {(o.kind, o.key, o.bb) for o in os_ if o.kind not in ('comb', 'const')}


def _work_of(F, path):
    """the body that holds the code of fn `path`: the fn itself, or the coroutine of an `async fn`"""
    hb = F.body(path)
    if hb is None:
        return None
    for nb in F.nested(path):
        if nb.kind == 'coroutine' and nb.parent == hb.path and len(hb.blocks) <= 3:
            return nb
    return hb


def _arg_slot(hb, o):
    """which argument (0-based) of the helper a param / upvar origin of its working body stands for"""
    if o.kind == 'param' and hb.kind != 'coroutine':
        return o.key - 1
    if o.kind == 'upvar' and o.key is not None and hb.kind == 'coroutine':
        return int(o.key)
    return None


def _r4(ctx, F, b, fl, fn, tag, writes, rid='C05.R4'):
    """copy arm: the bytes written are basis[op.offset .. op.offset + op.len]: the buffer has the op's length, it is filled by
    read_exact, and that read happens at stream position op.offset - after seek(SeekFrom::Start(op.offset)), in this body or
    in the helper that does the read. A helper that elides the seek when a remembered position equals the offset must set
    that position from the offset when it does seek (else the remembered position is not the stream position)."""
    reads = fl.calls(lambda c: c in READ_EXACT)
    seeks = fl.calls(lambda c: c in SEEK)
    for (wb, wt) in writes:
        wo_all = fl.origins(wt['args'][1], mut_calls=True)
        wo = [o for o in wo_all if o.kind not in ('comb', 'const', 'mutcall')]
        # literal arm: the bytes are the op's own payload
        if wo and all((o.kind == 'call' and o.key == 'std::iter::Iterator::next' and o.path[-1:] not in (('len',), ('offset',))) or o.kind in ('param', 'upvar') for o in wo):
            continue
        name = root_name(fl, wt['args'][1])
        wkey = _okey(wo)
        # (a) sized by the op
        sized = False
        for o in wo_all:
            if o.bb is None or o.kind not in ('call', 'mutcall'):
                continue
            t_ = b.blocks[o.bb]['term']
            c_ = callee(t_) or ''
            if c_ == 'std::vec::from_elem' or c_.endswith('::resize'):
                sized = sized or any(x.path[-1:] == ('len',) for x in call_arg_origins(fl, o.bb, 1))
        # (b) filled at the op's offset
        why = []
        filled = False
        direct = [rb for rb, rt in reads if _okey(fl.origins(rt['args'][1])) & wkey]
        if direct:
            rd_ok = any(fl.guarded_by(wb, rb, 'Ok') for rb in direct)
            sk_ok = False
            for sb, st in seeks:
                so = fl.origins(st['args'][1])
                if any(o.path[-1:] == ('offset',) for o in so) and has_origin(so, kind='agg', key='std::io::SeekFrom::Start') \
                   and fl.guarded_by(wb, sb, 'Ok'):
                    sk_ok = True
            filled = rd_ok and sk_ok
            if not rd_ok:
                why.append('write not guarded by read_exact Ok on the same buffer')
            if not sk_ok:
                why.append('write not guarded by seek(SeekFrom::Start(op.offset)) Ok')
        elif [rb for rb, rt in fl.calls(lambda c: c in ('std::io::Read::read', 'tokio::io::AsyncReadExt::read')) if _okey(fl.origins(rt['args'][1])) & wkey]:
            why.append('the buffer is filled by read(), which may return fewer bytes than the op length, not by read_exact')
        else:
            helpers = []
            for hb_, ht in fl.calls(lambda c: F.body(c) is not None):
                for ai, a in enumerate(ht['args']):
                    if a['k'] != 'const' and _okey(fl.origins(a)) & wkey and fl.cfg.dominates(hb_, wb):
                        helpers.append((hb_, ht, ai))
            verdicts = []
            for hb_, ht, ai in helpers:
                H = _work_of(F, callee(ht))
                if H is None:
                    continue
                hfl = flow_of(H)
                hreads = [(rb, rt) for rb, rt in hfl.calls(lambda c: c in READ_EXACT)
                          if any(_arg_slot(H, o) == ai for o in hfl.origins(rt['args'][1]))]
                if not hreads:
                    continue
                hseeks = []
                for sb, st in hfl.calls(lambda c: c in SEEK):
                    so = hfl.origins(st['args'][1])
                    slots = {_arg_slot(H, o) for o in so if o.kind in ('param', 'upvar')}
                    if has_origin(so, kind='agg', key='std::io::SeekFrom::Start') and len(slots) == 1 and None not in slots:
                        k = list(slots)[0]
                        if k < len(ht['args']) and any(x.path[-1:] == ('offset',) for x in fl.origins(ht['args'][k])):
                            hseeks.append((sb, st, k))
                for rb, rt in hreads:
                    if any(hfl.guarded_by(rb, sb, 'Ok') for sb, _, _ in hseeks):
                        verdicts.append((True, None))
                        continue
                    if not hseeks:
                        verdicts.append((False, '%s reads the basis without seeking to the offset it is given' % H.path.split('::{')[0].split('::')[-1]))
                        continue
                    # the seek is conditional: the remembered-position idiom
                    verdicts.append(_cursor_idiom(F, H, hfl, rb, hseeks))
            if verdicts and all(v for v, _ in verdicts):
                filled = fl.guarded_by(wb, helpers[0][0], 'Ok') or True
            elif verdicts:
                why += [m for v, m in verdicts if not v and m]
                if any(v is None for v, _ in verdicts) and not any(v is False for v, _ in verdicts):
                    ctx.undecided(rid, '%s copy arm: %s' % (fn, '; '.join(m for v, m in verdicts if v is None)))
                    continue
            else:
                ctx.undecided(rid, '%s copy arm: where the written buffer %s is filled from the basis was not found' % (fn, name))
                continue
        ctx.check(sized and filled, rid, '%s:copy-arm(%s)' % (tag, name),
                  'seek(Start(offset)) Ok -> buffer[len] -> read_exact Ok -> write',
                  'copy arm of %s: %s' % (fn, '; '.join((['buffer is not sized by the op length'] if not sized else []) + why)), term_loc(b, wb))


def _cursor_idiom(F, H, hfl, rb, hseeks):
    """`if self.pos != offset { seek(Start(offset)) } read_exact(buf); self.pos ..` - the read relies on a remembered stream
    position. Necessary for that position to be the stream position: on the way from the seek to the return it is assigned a
    value derived from the seek target (or read back from the stream); and after the read it is advanced with the buffer's
    length.  -> (True, None) / (False, message) / (None, message) when the shape is something else."""
    cfg = hfl.cfg
    sb, st, k = hseeks[0]
    # the test that lets the read skip the seek: a comparison of a field of a parameter with the seek target
    field = None
    for bi in cfg.reachable():
        t = H.blocks[bi]['term']
        if t['k'] != 'switch' or t['on']['k'] == 'const' or not cfg.dominates(bi, sb) or cfg.dominates(bi, rb) is False:
            continue
        os_ = hfl.origins(t['on'])
        tgt = any(_arg_slot(H, o) == k and not [e for e in o.path if not e.startswith('@')] for o in os_)
        flds = [o for o in os_ if o.kind in ('param', 'upvar') and _arg_slot(H, o) != k and [e for e in o.path if not e.startswith('@')]]
        if tgt and flds:
            field = (flds[0].kind, flds[0].key, tuple(e for e in flds[0].path if not e.startswith('@')))
    if field is None:
        return (None, 'the seek in %s is conditional on something other than a remembered position' % H.path.split('::{')[0].split('::')[-1])
    fname = field[2][-1]
    after_seek = cfg.reach(sb)
    after_read = cfg.reach(rb)
    set_from_target = advanced = False
    for bi in cfg.reachable():
        for st_ in H.blocks[bi]['stmts']:
            d = st_['dst']
            names = [e.get('name') for e in d['proj'] if isinstance(e, dict) and 'f' in e]
            if not names or names[-1] != fname:
                continue
            ro = set()
            for o_ in st_['rv'].get('ops', []):
                ro |= set(hfl.origins(o_))
            if bi in after_seek and (any(_arg_slot(H, o) == k for o in ro) or any(o.kind == 'call' and str(o.key).endswith(('stream_position', '::seek')) for o in ro)):
                set_from_target = True
            if bi in after_read and any((o.kind == 'call' and str(o.key).endswith('::len')) or _arg_slot(H, o) not in (None, k) for o in ro):
                advanced = True
    hname = H.path.split('::{')[0].split('::')[-1]
    if not set_from_target:
        return (False, '%s skips the seek when its remembered position `%s` equals the offset, but after it does seek it never sets `%s` from the '
                       'seek target: the remembered position is not the stream position, and a later copy that starts there reads other bytes' % (hname, fname, fname))
    if not advanced:
        return (False, '%s never advances its remembered position `%s` by what it read' % (hname, fname))
    return (True, None)


def tally_model(ctx, F, b, fl, fn, tag, writes, delta_roots):
    """The engine hands every written buffer to a method of one helper object and returns what that object's closing method
    says.  Same obligations, read across the three helper bodies:
      R2  each write_all(buf) is paired with feeder(obj, buf) of the same buffer; the feeder passes its buffer to Hasher::update
          of the object's hasher on every path on which verification is on;
      R3  every Ok return of the closing method is behind `verification off` (the field the constructor fills from
          verify_checksum) or behind finalize(that hasher) == delta.checksum.
    -> True when this shape was recognised (and judged), False to fall back to the in-body rules."""
    cfg = fl.cfg
    # the closing call: the engine returns its result
    closers = []
    for (rb, kind, data) in ret_defs(b):
        if kind == 'call' and F.body(callee(data)) is not None and callee(data) != 'std::ops::FromResidual::from_residual':
            closers.append((rb, data))
    if len(closers) != 1:
        return False
    cb_, ct_ = closers[0]
    G = F.body(callee(ct_))
    obj_o = {(o.kind, o.key, o.bb) for o in fl.origins(ct_['args'][0]) if o.kind != 'comb'}
    ctor = [o for o in fl.origins(ct_['args'][0]) if o.kind == 'call' and F.body(o.key) is not None]
    if len(ctor) != 1:
        return False
    C = F.body(ctor[0].key)
    ct_args = b.blocks[ctor[0].bb]['term']['args']
    # verify field: the constructor stores the argument that is `..verify_checksum`
    vparam = [i + 1 for i, a in enumerate(ct_args) if any(tuple(o.path)[-1:] == ('verify_checksum',) for o in fl.origins(a))]
    cfl = flow_of(C)
    vfield = None
    hfield = None
    for blk in C.blocks:
        for st in blk['stmts']:
            rv = st['rv']
            if rv['k'] == 'agg' and rv.get('ak') == 'adt':
                for fname, op_ in zip(rv.get('fields') or [], rv['ops']):
                    if vparam and any(o.kind == 'param' and o.key == vparam[0] for o in cfl.origins(op_)):
                        vfield = fname
    adt = F.adts.get(strip_refs(G.local_ty(1)).split('<')[0]) if hasattr(F, 'adts') else None
    for v_ in (adt or {}).get('variants', [{}])[:1]:
        for f_ in v_.get('fields', []):
            if 'blake3::Hasher' in f_.get('ty', ''):
                hfield = f_['name']
            if vfield is None and f_.get('ty') == 'bool' and vparam:
                pass
    if vfield is None or hfield is None:
        ctx.undecided('C05.R3', '%s delegates the closing checks to %s: its verification flag / hasher field were not identified' % (fn, G.path))
        return True
    # ---- R3 in the closing method
    gfl = flow_of(G)
    gcfg = gfl.cfg
    vf = set()
    for bi in gcfg.reachable():
        t = G.blocks[bi]['term']
        if t['k'] == 'switch' and t['on']['k'] != 'const':
            os_ = [o for o in gfl.origins(t['on']) if o.kind != 'comb']
            if os_ and all(o.kind == 'param' and o.key == 1 and tuple(o.path)[-1:] == (vfield,) for o in os_):
                neg = False
                for st in G.blocks[bi]['stmts']:
                    if st['dst']['l'] == t['on']['p']['l'] and st['rv']['k'] == 'un' and st['rv']['op'] == 'Not':
                        neg = True
                for v_, tgt in t['targets']:
                    if (v_ == 0) != neg:
                        vf.add((bi, tgt, v_))
                if neg:
                    vf.add((bi, t['otherwise'], 'otherwise'))
    eq_e = set()
    for (cb2, ct2) in gfl.calls_to('std::cmp::PartialEq::eq', 'std::cmp::PartialEq::ne'):
        sides = [gfl.origins(a) for a in ct2['args'][:2]]

        def final_of_field(os_, depth=0):
            for o in os_:
                if o.kind == 'call' and o.key != 'blake3::Hasher::finalize' and o.bb is not None and depth < 3 and G.blocks[o.bb]['term']['args']:
                    # StrongHash::from_bytes(*hasher.finalize().as_bytes())
                    if final_of_field(call_arg_origins(gfl, o.bb, 0), depth + 1):
                        return True
                if o.kind == 'call' and o.key == 'blake3::Hasher::finalize':
                    fo = [x for x in call_arg_origins(gfl, o.bb, 0) if x.kind not in ('comb', 'agg')]
                    if fo and all((x.kind == 'param' and x.key == 1 and hfield in tuple(x.path)) or (x.kind == 'call' and (x.key.endswith('Default::default') or x.key == 'blake3::Hasher::new')) for x in fo) \
                            and any(x.kind == 'param' for x in fo):
                        return True
            return False
        is_sum = lambda os_: any(o.kind == 'param' and o.key == 2 and tuple(o.path)[:1] == ('checksum',) for o in os_)
        if (final_of_field(sides[0]) and is_sum(sides[1])) or (final_of_field(sides[1]) and is_sum(sides[0])):
            e_, n_ = eq_edges(gfl, cb2)
            eq_e |= e_
    oks = ok_assign_blocks(G, 'Ok')
    for ob in oks:
        ok = bool(eq_e) and gcfg.edges_guard(vf | eq_e, ob)
        ctx.check(ok, 'C05.R3', '%s:Ok-return' % tag, 'every Ok of %s is behind {verification off} or {finalize(hasher) == delta.checksum}' % G.path.split('::')[-1],
                  'an Ok return of %s (whose result %s returns) is reachable although verification is enabled and the hash of the written bytes was not found equal to '
                  'delta.checksum (e.g. on the path where no hasher exists yet because nothing was written)' % (G.path, fn), term_loc(G, ob))
    if not oks:
        ctx.undecided('C05.R3', '%s: no Ok return found in %s' % (fn, G.path))
    # ---- R2: every written buffer goes to the object's feeder, and the feeder hashes it
    for (wb, wt) in writes:
        ws = frozenset((o.kind, o.key, o.path, o.bb) for o in fl.origins(wt['args'][1]))
        name = root_name(fl, wt['args'][1])
        fed = None
        for fb, ft in fl.calls(lambda c: F.body(c) is not None):
            if len(ft['args']) < 2 or not ({(o.kind, o.key, o.bb) for o in fl.origins(ft['args'][0]) if o.kind != 'comb'} & obj_o):
                continue
            if frozenset((o.kind, o.key, o.path, o.bb) for o in fl.origins(ft['args'][1])) != ws:
                continue
            H = F.body(callee(ft))
            hfl = flow_of(H)
            feeds = False
            for ub, ut in hfl.calls(lambda c: c in UPDATE):
                if any(o.kind == 'param' and o.key == 2 for o in hfl.origins(ut['args'][1])):
                    # on every path with verification on: from entry, the return is unreachable without the update except through the verify-off edge
                    hv = set()
                    for bi in hfl.cfg.reachable():
                        t = H.blocks[bi]['term']
                        if t['k'] == 'switch' and t['on']['k'] != 'const' and any(o.kind == 'param' and o.key == 1 and tuple(o.path)[-1:] == (vfield,) for o in hfl.origins(t['on'])):
                            hv |= {(bi, tgt, v_) for v_, tgt in t['targets'] if v_ == 0}
                    r = hfl.cfg.reach(0, cut_blocks=[ub], cut_edges=list(hv))
                    feeds = not (r & set(hfl.cfg.exits()))
            if feeds and (cfg.dominates(wb, fb) or cfg.dominates(fb, wb)):
                fed = fb
        ctx.check(fed is not None, 'C05.R2', '%s:write_all(%s)~update' % (tag, name), 'the written buffer is handed to the object\'s feeder, which hashes it whenever verification is on',
                  'bytes written by write_all(%s) in %s are not fed to the hasher of the helper object' % (name, fn), term_loc(b, wb))
    ctx.ok('C05.R2', '%s:one-hasher' % tag, 'one helper object (%s) carries the hasher' % C.path.split('::')[-2], loc(b, b.lo))
    return True


def _bounds_test(F, body, leak_blocks):
    """In `body`: a comparison of offset.saturating_add(len) (or checked_add(..).unwrap_or(MAX)) with basis_size whose
    out-of-bounds edge cannot reach any block in `leak_blocks` (nor the next iteration).  -> (good, detail)"""
    fl = flow_of(body)
    cfg = fl.cfg
    U64MAX = (1 << 64) - 1

    def sat(os_):
        os_ = [o for o in os_ if o.kind != 'comb']
        calls = [o for o in os_ if o.kind == 'call']
        rest = [o for o in os_ if o.kind != 'call']
        return bool(calls) and all(o.key in ('core::num::<impl u64>::saturating_add', 'core::num::<impl u64>::checked_add') for o in calls) and \
            all(o.kind == 'const' and o.key == U64MAX for o in rest)          # checked_add(..).unwrap_or(u64::MAX) saturates the same way

    def bs(os_):
        os_ = [o for o in os_ if o.kind != 'comb']
        return bool(os_) and all(o.kind in ('param', 'upvar') and tuple(o.path)[-1:] == ('basis_size',) for o in os_)
    cmp_blocks = []
    for bi in cfg.reachable():
        for st in body.blocks[bi]['stmts']:
            rv = st['rv']
            if rv['k'] == 'bin' and rv['op'] in ('Gt', 'Lt', 'Ge', 'Le'):
                oa, ob = fl.origins(rv['ops'][0]), fl.origins(rv['ops'][1])
                if (sat(oa) and bs(ob)) or (sat(ob) and bs(oa)):
                    end_left = sat(oa)
                    within_when = {('Gt', True): 'false', ('Ge', True): 'false', ('Lt', True): 'true', ('Le', True): 'true',
                                   ('Gt', False): 'true', ('Ge', False): 'true', ('Lt', False): 'false', ('Le', False): 'false'}[(rv['op'], end_left)]
                    strict_ok = (rv['op'], end_left) in (('Gt', True), ('Le', True), ('Lt', False), ('Ge', False))
                    cmp_blocks.append((bi, st['dst']['l'], within_when, strict_ok))
    good = False
    detail = 'no comparison of offset.saturating_add(len) with self.basis_size found'
    heads = set(cfg.loops().keys())
    for (bi, l, within, strict_ok) in cmp_blocks:
        oc = fl.outcomes(None, l)
        out_edges = oc.get('true' if within == 'false' else 'false', set())
        reach_from_bad = set()
        for (s_, t_, lab) in out_edges:
            reach_from_bad |= cfg.reach(t_)
        leaks = (set(leak_blocks) | heads) & reach_from_bad
        sat_ok = False
        for cb, ct in fl.calls(lambda c: c.endswith('saturating_add') or c.endswith('checked_add')):
            a0, a1 = fl.origins(ct['args'][0]), fl.origins(ct['args'][1])
            if any(tuple(o.path)[-1:] == ('offset',) for o in a0 | a1) and any(tuple(o.path)[-1:] == ('len',) for o in a0 | a1):
                sat_ok = True
        if out_edges and not leaks and strict_ok and sat_ok:
            good = True
        else:
            detail = 'out-of-bounds edge %s; leaks to the accepting result / next iteration: %s; comparison admits end==basis_size only: %s; operands offset+len: %s' % (
                bool(out_edges), sorted(leaks), strict_ok, sat_ok)
    return good, detail


def equality_helper(F, path):
    """(True / False / None, why): a crate fn (x, y) -> bool used as "the two digests are equal".  Constant-time forms accumulate
    the per-element differences `a ^ b` and test the accumulator against zero: the accumulation must be OR - with XOR or +
    differences in different positions cancel and unequal digests compare equal."""
    hb = F.body(path)
    if hb is None:
        return None, 'no body'
    bodies = [hb] + [x for x in F.nested(path) if x.path != hb.path]
    has_or = has_cancel = False
    for xb in bodies:
        xfl = flow_of(xb)
        for bi in xfl.cfg.reachable():
            for st in xb.blocks[bi]['stmts']:
                rv = st['rv']
                if rv['k'] == 'bin' and rv['op'] in ('BitOr', 'BitXor', 'Add', 'AddWithOverflow'):
                    # an accumulation: one operand is (a copy of) the destination's own earlier value
                    acc = any(o['k'] != 'const' and any(x.kind == 'op' and x.bb == bi and str(x.key) == rv['op'] for x in xfl.origins(o)) for o in rv['ops'])
                    if acc and rv['op'] == 'BitOr':
                        has_or = True
                    elif acc:
                        has_cancel = rv['op']
            t = xb.blocks[bi]['term']
            if t['k'] == 'call':
                for a in t['args']:
                    if a['k'] == 'const' and 'fn' in a:
                        fnm = str(a['fn'])
                        if 'BitOr' in fnm and 'bitor' in fnm:
                            has_or = True
                        elif ('BitXor' in fnm and 'bitxor' in fnm) or ('ops::Add' in fnm and '::add' in fnm) or 'wrapping_add' in fnm:
                            has_cancel = fnm.split('::')[-1]
                c_ = callee(t) or ''
                if c_.endswith('BitXor::bitxor') and any(any(x.kind == 'call' and x.bb == bi for x in xfl.origins(a)) for a in t['args'] if a['k'] != 'const'):
                    has_cancel = 'bitxor'
    if has_cancel:
        return False, 'it folds the per-element differences with %s, so differences in different positions cancel (unequal digests compare equal)' % has_cancel
    if has_or:
        return True, 'differences are OR-ed into an accumulator'
    # a plain delegation to == is fine
    if any(callee(t) in ('std::cmp::PartialEq::eq',) for xb in bodies for _, t in flow_of(xb).calls(lambda c: True)):
        return True, 'delegates to =='
    return None, 'how it compares is not read'


def _not_when_command_is(F, m, fl, variant):
    """blocks of `m` that cannot run when the CLI command is `variant`: everything reachable only through an edge of a
    switch on the discriminant of a `Commands` place whose value is another variant"""
    adt = F.adts.get('Commands')
    if adt is None:
        return set()
    want = next((v['discr'] for v in adt['variants'] if v['name'] == variant), None)
    if want is None:
        return set()
    out = set()
    for bi in fl.cfg.reachable():
        t = m.blocks[bi]['term']
        if t['k'] != 'switch' or t['on']['k'] == 'const':
            continue
        for st in m.blocks[bi]['stmts']:
            rv = st['rv']
            if st['dst']['l'] == t['on']['p']['l'] and rv['k'] == 'discr':
                pty = rv['p']['proj'][-1].get('ty') if rv['p']['proj'] and isinstance(rv['p']['proj'][-1], dict) else m.local_ty(rv['p']['l'])
                if (pty or '').replace('&', '').strip() != 'Commands':
                    continue
                listed = [tv for tv, _ in t['targets']]
                for tv, tb in t['targets']:
                    if tv != want:
                        out |= fl.only_through({(bi, tb, tv)})
                if want in listed:
                    out |= fl.only_through({(bi, t['otherwise'], 'otherwise')})
    return out


def check_validate(ctx, F):
    b = F.body('delta::Delta::validate')
    if b is None:
        ctx.missing('C05.R5', 'delta::Delta::validate')
    fl = flow_of(b)
    cfg = fl.cfg
    oks = ok_assign_blocks(b, 'Ok')
    is_ops = lambda op_: any(o.kind == 'param' and o.key == 1 and tuple(o.path)[:1] == ('ops',) for o in fl.origins(op_))
    # form 1: an explicit loop over self.ops
    nexts = [(nb, nt) for nb, nt in fl.calls_to('std::iter::Iterator::next')
             if any(o.kind == 'param' and o.key == 1 and tuple(o.path)[:1] == ('ops',) for o in iterated_collection(fl, nb))]
    iters = nexts
    good, detail = _bounds_test(F, b, oks)
    exhausted = bool(iters) and bool(nexts) and all(any(fl.guarded_by(ob, nb, 'None') for nb, _ in nexts) for ob in oks) and bool(oks)
    if not (good and exhausted):
        # form 2: a search over self.ops (`find_map` / `find` / `any` / `position`) whose closure singles out the out-of-bounds copy;
        # Ok only when the search found nothing
        for qb, qt in fl.calls(lambda c: c.split('::')[-1] in ('find_map', 'find', 'any', 'position')):
            src = [o for o in iterated_source(fl, qt['args'][0])]
            if not any(o.kind == 'param' and o.key == 1 and tuple(o.path)[:1] == ('ops',) for o in src):
                continue
            last = callee(qt).split('::')[-1]
            oc = fl.outcomes(qb)
            none_e = oc.get('false', set()) if last == 'any' else oc.get('None', set())
            if not none_e or not all(cfg.edges_guard(none_e, ob) for ob in oks) or not oks:
                continue
            for o in fl.origins(qt['args'][1]):
                cb_ = F.body(o.key) if o.kind == 'agg' else None
                if cb_ is None:
                    continue
                cfl = flow_of(cb_)
                # "not this one" results of the closure: None / false
                rejects = []
                for bi in cfl.cfg.reachable():
                    for st in cb_.blocks[bi]['stmts']:
                        if st['dst']['l'] == 0 and not st['dst']['proj']:
                            rv = st['rv']
                            if (rv['k'] == 'agg' and rv.get('vname') == 'None') or (rv['k'] == 'use' and rv['ops'][0]['k'] == 'const' and rv['ops'][0].get('v') in (0, False)):
                                rejects.append(bi)
                g2, d2 = _bounds_test(F, cb_, rejects)
                if g2 and rejects:
                    good, exhausted, detail = True, True, 'search over self.ops'
                else:
                    detail = d2
    ctx.check(good and exhausted, 'C05.R5', 'validate',
              'Ok only after every op of self.ops was examined; an out-of-bounds copy leads to Err',
              'Delta::validate can return Ok for a delta with a copy beyond basis_size: %s; Ok only after exhausting self.ops: %s' % (detail, exhausted),
              loc(b, b.lo))


def iterated_source(fl, op):
    """origins of the collection behind an iterator operand, through element-preserving adaptors"""
    b = fl.body
    out, work, seen = set(), [op], set()
    for _ in range(8):
        nxt = []
        for o_ in work:
            for o in fl.origins(o_):
                k = (o.kind, o.key, o.bb, tuple(o.path))
                if k in seen:
                    continue
                seen.add(k)
                if o.kind == 'call' and str(o.key).split('::')[-1] in WHOLE_ITER and o.bb is not None:
                    nxt.append(b.blocks[o.bb]['term']['args'][0])
                else:
                    out.add(o)
        work = nxt
        if not work:
            break
    return out


def check_cli(ctx, F):
    # run_patch: result of AsyncCopiaSync::patch(..).await is propagated with `?`
    b = work_body(F, 'run_patch', ['async_sync::AsyncCopiaSync::patch'])
    if b is None:
        ctx.missing('C05.R7', 'run_patch -> AsyncCopiaSync::patch')
    fl = flow_of(b)
    oks = ok_assign_blocks(b, 'Ok')
    pc = fl.calls_to('async_sync::AsyncCopiaSync::patch')
    good = bool(oks) and all(any(fl.guarded_by(ob, cb, 'Ok') for cb, _ in pc) for ob in oks)
    ctx.check(good, 'C05.R7', 'run_patch:propagates', 'Ok return guarded by the Ok edge of patch(..).await',
              'run_patch can return Ok although AsyncCopiaSync::patch returned Err', loc(b, b.lo))
    # the output file holds exactly what patch wrote: nothing reachable from run_patch gives a file a length of its own
    # (a file pre-sized from the header of the delta keeps that length when the ops produce fewer bytes: the bytes the
    # checksum covered are followed by zeros, and the command still reports success)
    from callgraph import callgraph_of
    cg = callgraph_of(F)
    graph = cg.reach(['run_patch'])
    sizers = list(cg.call_sites(lambda c: c.endswith('::set_len') or c.endswith('::allocate') or 'fallocate' in c, within=graph))
    if not sizers:
        ctx.ok('C05.R7', 'run_patch:output-length-is-what-patch-wrote', 'no set_len / allocate reachable from run_patch: the output is created empty and only written by patch', loc(b, b.lo))
    else:
        # a later set_len behind the Ok edge of patch (truncate to what was written) would repair a pre-sized file: not modelled
        after = [sb for sb_body, sb, c in sizers if sb_body.path == b.path and any(fl.guarded_by(sb, cb, 'Ok') for cb, _ in pc)]
        if after:
            ctx.undecided('C05.R7', 'run_patch sizes its output again after patch succeeded: whether the final length equals the bytes written is not decided')
        else:
            sb_body, sb, c = sizers[0]
            ctx.bad('C05.R7', 'run_patch:output-length-is-what-patch-wrote',
                    '%s gives a file a length of its own (%s) on the way of `copia patch`: an output sized from the delta header keeps that length when the ops produce fewer bytes - '
                    'correct bytes followed by zeros, exit 0, and the file does not hash to the checksum of the delta' % (sb_body.path.split('::{')[0].split('::')[-1], c.split('::')[-1]),
                    term_loc(sb_body, sb))
    # main: match run(cli).await { Ok => SUCCESS, Err => FAILURE }
    m = work_body(F, 'main', ['run'])
    if m is None:
        ctx.missing('C05.R7', 'main -> run')
    fl = flow_of(m)
    rc = fl.calls_to('run')
    good = False
    for cb, ct in rc:
        oc = fl.outcomes(cb)
        ok_e, err_e = oc.get('Ok', set()), oc.get('Err', set())
        if not ok_e or not err_e:
            continue
        # all defs of the return value: SUCCESS only under Ok edge, and the Err edge reaches only FAILURE
        succ_blocks, fail_blocks = [], []
        for bi in fl.cfg.reachable():
            for st in m.blocks[bi]['stmts']:
                for o in st['rv'].get('ops', []):
                    if o['k'] == 'const' and 'SUCCESS' in o.get('dbg', ''):
                        succ_blocks.append(bi)
                    if o['k'] == 'const' and 'FAILURE' in o.get('dbg', ''):
                        fail_blocks.append(bi)
        if succ_blocks and fail_blocks:
            reach_err = set()
            for (s, t, lab) in err_e:
                reach_err |= fl.cfg.reach(t)
            stray = {sb for sb in succ_blocks if fl.cfg.can_reach(cb, sb) and not fl.cfg.edges_guard(ok_e, sb)} | (set(succ_blocks) & reach_err)
            if not stray:
                good = True
            else:
                # an error of ANOTHER subcommand may be forgiven (`serve` ending because its peer hung up): what matters here is
                # `copia patch`.  Take the view of the executions on which the command is Patch - every block behind an edge
                # of a test of the command's discriminant that excludes Patch cannot have run - and ask whether the tests
                # in front of the SUCCESS can still come out that way.
                excl = _not_when_command_is(F, m, fl, 'Patch')
                if excl:
                    still = []
                    for sb in sorted(stray):
                        excused = False
                        for wb in fl.cfg.reachable():
                            wt = m.blocks[wb]['term']
                            if wt['k'] != 'switch' or wt['on']['k'] == 'const' or wt['on']['p']['proj'] or m.local_ty(wt['on']['p']['l']) != 'bool':
                                continue
                            for val in (0, 1):
                                tgt = dict((tv, tb) for tv, tb in wt['targets']).get(val, wt['otherwise'])
                                lab = val if val in [tv for tv, _ in wt['targets']] else 'otherwise'
                                if not fl.cfg.edges_guard({(wb, tgt, lab)}, sb):
                                    continue
                                with fl.restricted(excl):
                                    os_ = [o for o in fl.origins(wt['on']) if o.kind != 'comb']
                                if os_ and all(o.kind == 'const' and o.key in (0, 1, True, False) and int(bool(o.key)) != val for o in os_):
                                    excused = True       # on a `patch` run this test cannot take the edge that leads to SUCCESS
                        if not excused:
                            still.append(sb)
                    if not still:
                        good = True
    ctx.check(good, 'C05.R7', 'main:Err->FAILURE', 'ExitCode::SUCCESS only on the Ok edge of run(); Err edge cannot reach it',
              'main can exit with SUCCESS although run() returned Err', loc(m, m.lo))
