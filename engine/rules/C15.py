"""C15 — excludes protect, deletes are opt-in, dry runs touch nothing (DESIGN §7 C15)."""
from rules.common import *  # noqa: F401,F403
from rules.oneway import Effects, RUN_LOCAL, RUN_REMOTE, dry_run_false_edges
from rules import C19

CONFIGS = ['cli']
LEVEL = 'other'
EXPLANATION = (
    'Decides: (R1) in build_plan an excluded path can reach neither `transfer` nor `delete`, and `delete` is filled only under with_delete (the C19 membership '
    'rule); (R2) is_excluded dispatches on `/` between whole-path and per-component matching, trims a trailing slash, skips empty patterns; (R3) in glob_match '
    'every literal comparison of a pattern character is guarded by the not-equal edge of each metacharacter test, so `*` and `?` in file names are literal text and '
    'in patterns are wildcards; (R4) in run_local, run_remote and run_bisync every call that can reach a file-system mutator or a mutating remote command is guarded '
    'by dry_run == false (read-only listings and `hostname` may precede the test); the plan printed is the plan executed; (R5) deletes are applied only from plan.delete. '
    'R3 also cuts glob_match at its loop heads and compares every transition (successor, new pi/ti/star/mark, returned value) with the classic single-star backtracking matcher for every valuation of the six branch atoms; a one-star fast path by starts_with/ends_with without a length test is reported. '
    'R5 also: in run_bisync nothing that reaches reconcile() (scans, base, trust flag) is computed on one side only of a test of the dry-run option, so a dry run lists the plan the real run applies. R5: a plan post-processed (partition / retain) between build_plan and print_plan is not decided. Not decided: that the classic matcher equals the declarative wildcard semantics (textbook argument); an early return outside the modelled loops is NO-VERDICT.')
ASSUMPTIONS = ['remote verbs classified read-only (cd, find, cat <file>, hostname) do not modify the remote tree']


def run(ctx):
    F = ctx.F['cli']
    ctx.attempt(C19.plan_rules, ctx, F, 'C15.R1')
    ctx.attempt(C19.excluded_rules, ctx, F, 'C15.R2')
    ctx.rule('C15.R3', 'glob_match: literal comparison only after every metacharacter test of that pattern character failed', floor=2)
    ctx.attempt(C19.glob_rules, ctx, F, 'C15.R3')
    ctx.rule('C15.R4', 'dry-run: every effectful call in run_local / run_remote / run_bisync is guarded by dry_run == false', floor=8)
    ctx.rule('C15.R5', 'with --dry-run the printed plan is the executed plan; deletes come from plan.delete only', floor=4)
    eff = Effects(F)
    for fn, key in ((RUN_LOCAL, 'run_local'), (RUN_REMOTE, 'run_remote'), ('bidir::run_bisync', 'run_bisync')):
        b = work_body(F, fn, ['plan::build_plan', 'reconcile::reconcile'])
        if b is None:
            ctx.missing('C15.R4', fn)
        fl = flow_of(b)
        cfg = fl.cfg
        dr_false = dry_run_false_edges(fl)
        if not dr_false:
            ctx.bad('C15.R4', '%s:dry-run-test' % key, '%s never tests the dry_run option' % key, loc(b, b.lo))
            continue
        sites = eff.effect_sites(b)
        if not sites:
            ctx.missing('C15.R4', '%s: effectful call sites' % key)
        for bb, kind, what in sites:
            short = what.split('::')[-1] if kind != 'spawn' else 'ssh'
            if kind == 'task':
                short = 'task(%s)' % what.split('::{')[0].split('::')[-1]
            ctx.check(cfg.edges_guard(dr_false, bb), 'C15.R4', '%s:%s:%s' % (key, kind, short), 'guarded by dry_run == false',
                      '%s reaches %s under --dry-run (%s)' % (key, 'a file-system mutation or a mutating remote command', what[:90]), term_loc(b, bb))
        # ---- R5 (plan printed == plan executed; delete source)
        if key != 'run_bisync':
            plans = fl.calls_to('plan::build_plan')
            prints = fl.calls_to('incremental::print_plan')
            ok = len(plans) == 1 and len(prints) == 1
            if ok:
                po = {(o.kind, o.key, o.bb) for o in fl.origins(prints[0][1]['args'][0])}
                ok = po == {('call', 'plan::build_plan', plans[0][0])}
                # executed loops iterate that same plan
                for nb, nt in fl.calls_to('std::iter::Iterator::next'):
                    io = fl.origins(nt['args'][0])
                    if any(o.kind == 'call' and o.key == 'plan::build_plan' for o in io):
                        ok = ok and all(o.bb == plans[0][0] for o in io if o.kind == 'call' and o.key == 'plan::build_plan')
                ok = ok and cfg.dominates(prints[0][0], next(iter(dr_false))[0])
            if not ok and len(plans) == 1 and len(prints) == 1:
                po_ = [o for o in fl.origins(prints[0][1]['args'][0], mut_calls=True) if o.kind in ('call', 'mutcall')]
                extra = sorted({str(o.key).split('::')[-1] for o in po_ if not (o.key == 'plan::build_plan' and o.bb == plans[0][0])})
                if any(o.key == 'plan::build_plan' for o in po_) and extra and all(x in ('partition', 'retain', 'filter', 'collect', 'into_iter', 'iter', 'extend', 'push', 'drain', 'cloned', 'unzip', 'partition_map', 'sort', 'sort_unstable', 'dedup', 'next', 'take', 'len', 'replace', 'swap', 'clone', 'truncate', 'split_off', 'append') for x in extra) \
                        and fl.cfg.dominates(prints[0][0], next(iter(dr_false))[0]):
                    # the plan is post-processed between build_plan and print (a partition of plan.transfer, say): the printed
                    # and the executed plan are still one value, but it is no longer build_plan's - what was taken out is data
                    ctx.undecided('C15.R5', '%s post-processes the plan (%s) before printing it: that what is printed is what is executed is not decided' % (key, ', '.join(extra[:3])))
                    ok = None
            if ok is not None:
              ctx.check(ok, 'C15.R5', '%s:printed-plan-is-executed-plan' % key, 'print_plan(&plan) and the delivery loops use the one build_plan result',
                      '%s prints a different plan than it executes (or prints it after the dry-run test)' % key, loc(b, b.lo))
            # with_delete argument of build_plan is opts.delete
            if plans:
                do = fl.origins(plans[0][1]['args'][3])
                eo = fl.origins(plans[0][1]['args'][2])
                ctx.check(bool(do) and all(o.path[-1:] == ('delete',) for o in do) and bool(eo) and all(o.path[-1:] == ('excludes',) for o in eo),
                          'C15.R5', '%s:build_plan(opts.excludes, opts.delete)' % key, 'delete set requested only by --delete; excludes passed through',
                          '%s does not pass opts.excludes / opts.delete to build_plan unchanged' % key, term_loc(b, plans[0][0]))
    ctx.attempt(delete_sources, ctx, F, 'C15.R5')
    ctx.attempt(plan_independent_of_dry_run, ctx, F, 'C15.R5')
    # bisync dry-run prints the plan it would apply
    b = F.body('bidir::run_bisync')
    fl = flow_of(b)
    rc = fl.calls_to('reconcile::reconcile')
    ok = len(rc) == 1
    if ok:
        uses = 0
        for nb, nt in fl.calls_to('std::iter::Iterator::next'):
            io = fl.origins(nt['args'][0]) | iterated_collection(fl, nb)
            if any(o.kind == 'call' and o.key == 'reconcile::reconcile' for o in io):
                uses += 1
        # the same walk written as an adaptor chain that was not unfolded into a loop (`plan.iter().map(apply).filter_map(..).find(..)`):
        # a consuming call whose receiver derives from the reconcile() result through adaptor calls
        for cb_, ct_ in fl.calls(lambda c: c.split('::')[-1] in ('find', 'find_map', 'for_each', 'try_for_each', 'fold', 'try_fold', 'any', 'all', 'last', 'count', 'position')):
            work, seen_, hit = [ct_['args'][0]] if ct_['args'] else [], set(), False
            while work and len(seen_) < 60 and not hit:
                cur = work.pop()
                if cur['k'] == 'const':
                    continue
                for o in fl.origins(cur):
                    k_ = (o.kind, str(o.key), o.bb)
                    if k_ in seen_:
                        continue
                    seen_.add(k_)
                    if o.kind == 'call' and o.key == 'reconcile::reconcile':
                        hit = True
                    elif o.kind == 'call' and o.bb is not None and str(o.key).startswith(('std::iter::', 'std::slice::', 'core::slice::', 'std::vec::', 'std::ops::Deref')):
                        work += [a for a in b.blocks[o.bb]['term'].get('args', [])[:1] if a['k'] != 'const']
            if hit:
                uses += 1
        ok = uses >= 2
        if not ok and uses == 1 and any((callee(t_) or '').endswith('::partition') for _, t_ in fl.calls(lambda c: True)):
            ctx.undecided('C15.R5', 'run_bisync lists the plan and applies a partition of it: that both halves are handled is not decided')
            ok = None
    if ok is not None:
        ctx.check(ok, 'C15.R5', 'run_bisync:printed-plan-is-executed-plan', 'dry-run listing and apply loop iterate the one reconcile() result',
                  'run_bisync lists a different plan under --dry-run than it applies', loc(b, b.lo))


def _decision_roots(F, b, fl, op):
    """(derived from an entry of the delete list?, roots): everything the operand is computed from, through call arguments and
    the captures of closures handed to those calls - as (kind, key, bb-or-slot) triples"""
    closure_caps = {}
    for blk in b.blocks:
        for st in blk['stmts']:
            rv = st['rv']
            if rv['k'] == 'agg' and rv.get('ak') == 'closure' and not st['dst']['proj']:
                closure_caps[st['dst']['l']] = rv['ops']
    derived, roots, work, seen_ = False, set(), [op], set()
    while work and len(seen_) < 400:
        cur = work.pop()
        if cur['k'] == 'const':
            continue
        if not cur['p']['proj'] and cur['p']['l'] in closure_caps:
            work += [a for a in closure_caps[cur['p']['l']] if a['k'] != 'const']
        for o in fl.origins(cur, mut_calls=True):
            k_ = (o.kind, str(o.key), o.bb)
            if k_ in seen_:
                continue
            seen_.add(k_)
            if o.kind in ('param', 'upvar'):
                roots.add((o.kind, str(o.key), None))
            elif o.kind in ('call', 'mutcall'):
                roots.add(('call', str(o.key), o.bb))
            if o.kind == 'call' and o.key == 'std::iter::Iterator::next' and o.bb is not None:
                io = iterated_collection(fl, o.bb)
                if any(y.path[-1:] == ('delete',) for y in io) or any(y.kind in ('param', 'upvar') for y in io):
                    derived = True
            if o.kind in ('call', 'mutcall') and o.bb is not None and str(o.key) != 'plan::build_plan':
                # (the plan itself was computed from both listings: an ENTRY of plan.delete says nothing about its neighbours)
                work += [a for a in b.blocks[o.bb]['term'].get('args', []) if a['k'] != 'const']
    return derived, roots


def _destination_listing_keys(F, cg, graph, b, fl):
    """root keys (as in _decision_roots) under which the DESTINATION listing - the second argument of build_plan - is visible in
    body `b`: the call that produced it when build_plan is called here, or the parameter / capture it arrives in when `b` is a
    function the planning body calls (one level)"""
    keys = set()
    for pb_, pt_ in fl.calls_to('plan::build_plan'):
        for o in fl.origins(pt_['args'][1]):
            if o.kind in ('call', 'mutcall'):
                keys.add(('call', str(o.key), o.bb))
            elif o.kind in ('param', 'upvar'):
                keys.add((o.kind, str(o.key), None))
    if keys:
        return keys
    top = b.path.split('::{')[0]
    tb = F.body(top)
    if tb is None:
        return keys
    for sb, sbb, _ in cg.call_sites(lambda c2: c2 == top, within=graph):
        sfl = flow_of(sb)
        dk = set()
        for pb_, pt_ in sfl.calls_to('plan::build_plan'):
            dk |= {(o.kind, str(o.key), o.bb) for o in sfl.origins(pt_['args'][1]) if o.kind in ('call', 'mutcall')}
        if not dk:
            continue
        keys.add(('known', 'caller-has-a-destination-listing', None))     # the caller HAS one: whether it is handed over is read below
        for ai, a in enumerate(sb.blocks[sbb]['term']['args']):
            if a['k'] == 'const':
                continue
            if {(o.kind, str(o.key), o.bb) for o in sfl.origins(a) if o.kind in ('call', 'mutcall')} & dk:
                name = tb.local_name(ai + 1)
                if b is tb:
                    keys.add(('param', str(ai + 1), None))
                else:
                    for uk, un in (getattr(b, 'upvars', None) or {}).items():
                        if un == name:
                            keys.add(('upvar', str(uk), None))
    return keys


def delete_sources(ctx, F, rid):
    """Every file removal under run_sync_recursive takes its path from plan.delete (dst root joined with the loop entry)."""
    from callgraph import callgraph_of
    cg = callgraph_of(F)
    graph = cg.reach(['incremental::run_sync_recursive'])
    n = 0
    for b, bb, c in cg.call_sites(lambda c: c in ('std::fs::remove_file', 'tokio::fs::remove_file', 'std::fs::remove_dir_all', 'tokio::fs::remove_dir_all',
                                                   'std::fs::remove_dir', 'tokio::fs::remove_dir'), within=graph):
        fl = flow_of(b)
        t = b.blocks[bb]['term']
        po = fl.origins(t['args'][0])
        ok = False
        for o in po:
            if o.kind == 'call' and o.key == 'std::path::Path::join':
                second = call_arg_origins(fl, o.bb, 1)
                if second and all(x.kind == 'call' and x.key == 'std::iter::Iterator::next' for x in second):
                    # the iterated collection is plan.delete (or the `dels` parameter fed with &plan.delete)
                    for x in second:
                        io = iterated_collection(fl, x.bb)
                        if any(y.path[-1:] == ('delete',) for y in io) or any(y.kind in ('param', 'upvar') for y in io):
                            ok = True
        n += 1
        top = b.path.split('::{')[0].split('::')[-1]
        if not ok and c.split('::')[-1] == 'remove_dir':
            # rmdir removes an EMPTY directory or fails: no file - excluded or not - can go with it
            ctx.ok(rid, '%s:remove_dir(empty only)' % top, 'a non-recursive remove_dir cannot remove a file', term_loc(b, bb))
            continue
        if not ok and removes_own_staging(F, b, t['args'][0]):
            ctx.ok(rid, '%s:remove_file(own staging file)' % top, 'removes the file this staging handle created (clean-up, not a delete of the plan)', term_loc(b, bb))
            continue
        if not ok and c.endswith('remove_dir_all'):
            # a whole directory removed in one call, the directory DERIVED from an entry of the delete list (an ancestor of it):
            # right only if everything below it is planned for deletion - which files are there is in the listings, not in the shape
            derived, roots = _decision_roots(F, b, fl, t['args'][0])
            if derived:
                # what is below a directory of the DESTINATION is known only from the destination listing (or the file system):
                # a choice of directory computed without either cannot know that nothing else is there - positively insufficient
                dst_keys = _destination_listing_keys(F, cg, graph, b, fl)
                looks = any(r_ in dst_keys for r_ in roots) or any(r_[0] == 'call' and str(r_[1]).split('::')[-1] in ('read_dir', 'symlink_metadata', 'metadata', 'exists', 'try_exists') for r_ in roots)
                if dst_keys and not looks:
                    ctx.bad(rid, '%s:removes-directory-without-looking-at-the-destination' % top,
                            '%s removes a whole directory (remove_dir_all) chosen from an entry of the delete list without consulting the destination listing or the file system: '
                            'files below it that are not planned for deletion (excluded ones are filtered out of the plan) are removed with it' % top, term_loc(b, bb))
                    continue
                ctx.undecided(rid, '%s removes a whole directory (remove_dir_all) that it derives from an entry of the delete list: that every file below it is planned for deletion (and none is excluded) is not decided' % top)
                continue
        ctx.check(ok, rid, '%s:remove_file<-plan.delete' % top, 'removed path = root.join(entry of plan.delete)',
                  '%s removes a file that does not come from plan.delete' % top, term_loc(b, bb))
    # apply_remote_deletes receives &plan.delete
    for b, bb, c in cg.call_sites(lambda c: c == 'incremental::apply_remote_deletes', within=graph):
        fl = flow_of(b)
        t = b.blocks[bb]['term']
        ard = F.body('incremental::apply_remote_deletes')
        slots = params_of_type(F, ard, lambda ty: 'PathBuf]' in ty.replace(' ', '') or 'Vec<std::path::PathBuf' in ty) if ard is not None else []
        if len(slots) != 1 or slots[0] - 1 >= len(t['args']):
            ctx.undecided(rid, 'apply_remote_deletes: which parameter is the delete list (%s)' % slots)
            continue
        do = fl.origins(t['args'][slots[0] - 1])
        ctx.check(bool(do) and all(o.path[-1:] == ('delete',) for o in do if o.kind != 'comb'), rid, 'run_remote:apply_remote_deletes(&plan.delete)',
                  'delete list handed over is plan.delete', 'apply_remote_deletes is not given plan.delete', term_loc(b, bb))
        n += 1
    if n < 3:
        ctx.missing(rid, 'delete application sites (found %d, floor 3)' % n)


def plan_independent_of_dry_run(ctx, F, rid):
    """`bisync --dry-run` lists the plan a real run would apply only if both compute it from the same inputs: nothing that
    reaches reconcile() (the two scans, the base, the trust flag) is computed on one side only of a test of the dry-run option."""
    from rules.bisync import _both_sides
    b = F.body('bidir::run_bisync')
    if b is None:
        return
    fl = flow_of(b)
    cfg = fl.cfg
    recs = fl.calls_to('reconcile::reconcile')
    if not recs:
        return
    sw = [(sb, st) for sb, st in switch_blocks_on(fl, lambda os_: bool(os_) and all(o.path[-1:] == ('dry_run',) for o in os_))]
    n = 0
    for rb, rt in recs:
        # every block that defines (part of) an argument of reconcile
        def_blocks = set()
        work, seen = list(rt['args']), set()
        while work and len(seen) < 400:
            op = work.pop()
            if op['k'] == 'const':
                continue
            for o in fl.origins(op, mut_calls=True):
                k = (o.kind, str(o.key), o.bb)
                if k in seen or o.bb is None:
                    continue
                seen.add(k)
                def_blocks.add(o.bb)
                if o.kind in ('call', 'mutcall'):
                    work += [a for a in b.blocks[o.bb]['term'].get('args', []) if a['k'] != 'const']
        for sb, st in sw:
            if rb not in cfg.reach(sb):
                continue
            n += 1
            succ = [x for x, _ in cfg.succ[sb] if b.blocks[x]['term']['k'] != 'unreachable']
            some = set().union(*[cfg.reach(x) for x in succ]) if succ else set()
            one_sided = (some - _both_sides(cfg, sb)) & def_blocks
            ctx.check(not one_sided, rid, 'run_bisync:plan-inputs-independent-of-dry-run', 'what reaches reconcile() is computed the same way with and without --dry-run',
                      'run_bisync computes an input of reconcile() (scan, base or trust flag) on one side only of a test of the dry-run option: the plan a dry run '
                      'lists is not the plan the real run applies from the same state', term_loc(b, sorted(one_sided)[0]) if one_sided else term_loc(b, sb))
    if n == 0:
        ctx.ok(rid, 'run_bisync:plan-inputs-independent-of-dry-run', 'the dry-run option is not tested before reconcile()', term_loc(b, recs[0][0]))
