"""PANIC engine (placeholder until built)."""


def run_entries(ctx, rid, entries, text):
    return
