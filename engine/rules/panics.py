"""PANIC — panic reachability from hostile-input entry points (DESIGN §4 PANIC).

Every panic-capable site in the crate-local call graph reachable from an entry point must be
discharged by a built-in argument or be present in the frozen exception table below, keyed by
(function, kind, detail) without line numbers.  A new site is a violation."""
from rules.common import *  # noqa: F401,F403
from callgraph import callgraph_of
import re

PANIC_CALLS = ('core::panicking::', 'std::rt::begin_panic', 'core::option::unwrap_failed', 'core::result::unwrap_failed',
               'core::option::expect_failed', 'core::slice::index::', 'core::str::slice_error_fail')
UNWRAPS = ('::unwrap', '::expect', '::unwrap_err', '::expect_err')
INDEXERS = ('std::ops::Index::index', 'std::ops::IndexMut::index_mut')
# std functions that panic on argument values
PANICKY_STD = {
    'core::slice::<impl [T]>::chunks': 'chunk size 0',
    'core::slice::<impl [T]>::chunks_exact': 'chunk size 0',
    'rayon::slice::ParallelSlice::par_chunks': 'chunk size 0',
    'core::slice::<impl [T]>::copy_from_slice': 'length mismatch',
    'core::slice::<impl [T]>::split_at': 'mid > len',
    'core::num::<impl usize>::div_ceil': 'division by zero',
    'core::num::<impl u64>::div_ceil': 'division by zero',
    'std::time::Instant::duration_since': 'ordering',
    'core::slice::<impl [T]>::windows': 'size 0',
    # byte offsets into a String / str must fall on a character boundary
    'std::string::String::truncate': 'offset not on a char boundary',
    'std::string::String::split_off': 'offset not on a char boundary',
    'std::string::String::insert': 'offset not on a char boundary',
    'std::string::String::insert_str': 'offset not on a char boundary',
    'std::string::String::remove': 'offset not on a char boundary',
    'std::string::String::drain': 'range not on char boundaries',
    'std::string::String::replace_range': 'range not on char boundaries',
    'core::str::<impl str>::split_at': 'offset not on a char boundary',
}


_ranges = {}


def ranges_of(fl):
    import ranges
    k = id(fl)
    if k not in _ranges:
        _ranges[k] = (fl, ranges.Ranges(fl))
    return _ranges[k][1]


def const_of(fl, op):
    os_ = fl.origins(op)
    if len(os_) == 1:
        o = list(os_)[0]
        if o.kind == 'const' and isinstance(o.key, int):
            return o.key
    return None


def enumerate_sites(F, roots):
    """[(body, bb, kind, detail, discharged_reason|None)] for panic-capable sites reachable from `roots`."""
    cg = callgraph_of(F)
    graph = cg.reach(roots)
    out = []
    for path in sorted(graph):
        b = F.body(path)
        if 'generated_contracts' in b.file:
            continue
        fl = flow_of(b)
        cfg = fl.cfg
        top = path.split('::{')[0]
        for bi in sorted(cfg.reachable()):
            t = b.blocks[bi]['term']
            if t['k'] == 'assert':
                kind = 'assert:' + re.match(r'\w+', t['msg']).group(0)
                detail, why = describe_assert(fl, b, bi, t)
                out.append((b, bi, kind, detail, why))
            elif t['k'] == 'call':
                c = callee(t) or 'indirect'
                if c.startswith(PANIC_CALLS):
                    # the message identifies the site
                    msg = ''
                    for a in t['args']:
                        v = const_val(a)
                        if isinstance(v, str):
                            msg = v
                    if not msg:
                        # assert_failed etc: look for the from_str message in predecessors
                        for p_, _ in cfg.pred[bi]:
                            tp = b.blocks[p_]['term']
                            if tp['k'] == 'call':
                                for a in tp['args']:
                                    v = const_val(a)
                                    if isinstance(v, str):
                                        msg = v
                    out.append((b, bi, 'panic', '%s "%s"' % (c.split('::')[-1], msg[:60]), implied_by_validation(fl, b, bi)))
                elif c.endswith(UNWRAPS) and (c.startswith('std::option::Option') or c.startswith('std::result::Result')):
                    out.append((b, bi, 'unwrap', c.split('::')[-1] + ' of ' + root_name(fl, t['args'][0]), None))
                elif c in INDEXERS:
                    detail, why = describe_index(fl, b, bi, t)
                    out.append((b, bi, 'index', detail, why))
                elif c in ('core::slice::<impl [T]>::split_at', 'core::slice::<impl [T]>::split_at_mut'):
                    # `v.split_at(mid)` is the range index `v[..mid]` / `v[mid..]` under another name: the same kind of site
                    out.append((b, bi, 'index', 'split_at of %s' % root_name(fl, t['args'][0]), None))
                elif c in PANICKY_STD:
                    why_ = None
                    if c.endswith('copy_from_slice') or c.endswith('clone_from_slice'):
                        n1, n2 = static_slice_len(fl, t['args'][0]), static_slice_len(fl, t['args'][1])
                        if n1 is not None and n1 == n2:
                            why_ = 'both sides have the static length %d' % n1
                    out.append((b, bi, 'std-panics', '%s (%s) on %s' % (c.split('::')[-1], PANICKY_STD[c], root_name(fl, t['args'][0])), why_))
    return out, graph


def implied_by_validation(fl, b, bi):
    """A `debug_assert_eq!(written, delta.source_size)` is discharged when the block is reachable only through the equal
    edge of an earlier comparison of delta.expected_output_size() with delta.source_size (the sum of the op lengths is
    what gets written)."""
    cfg = fl.cfg
    for cb in cfg.reachable():
        for st in b.blocks[cb]['stmts']:
            rv = st['rv']
            if rv['k'] == 'bin' and rv['op'] in ('Eq', 'Ne'):
                oa, ob = fl.origins(rv['ops'][0]), fl.origins(rv['ops'][1])
                exp = lambda os_: bool(os_) and all(o.kind == 'call' and o.key == 'delta::Delta::expected_output_size' for o in os_)
                ssz = lambda os_: bool(os_) and all(o.kind in ('param', 'upvar') and o.path[-1:] == ('source_size',) for o in os_)
                if (exp(oa) and ssz(ob)) or (exp(ob) and ssz(oa)):
                    oc = fl.outcomes(None, st['dst']['l'])
                    e = oc.get('true' if rv['op'] == 'Eq' else 'false', set())
                    if e and cfg.edges_guard(e, bi):
                        # the failing assertion itself compares against source_size
                        for ab in cfg.reachable():
                            for st2 in b.blocks[ab]['stmts']:
                                rv2 = st2['rv']
                                if rv2['k'] == 'bin' and rv2['op'] == 'Eq' and ab != cb and \
                                   any(o.path[-1:] == ('source_size',) for op_ in rv2['ops'] for o in fl.origins(op_)):
                                    oc2 = fl.outcomes(None, st2['dst']['l'])
                                    fe = oc2.get('false', set())
                                    if fe and cfg.edges_guard(fe, bi):
                                        return 'implied: reachable only after expected_output_size() == source_size was established'
    return None


def describe_assert(fl, b, bi, t):
    msg = re.match(r'\w+', t['msg']).group(0)
    cond = t['cond']
    # find the defining statement of the condition
    if msg in ('RemainderByZero', 'DivisionByZero') and cond['k'] != 'const':
        l = cond['p']['l']
        for (dbb, idx, kind, data, dproj) in fl.defs.get(l, []):
            if kind == 'assign' and data['k'] == 'bin' and data['op'] == 'Eq':
                a, c = const_of(fl, data['ops'][0]), const_of(fl, data['ops'][1])
                if a is not None and c is not None and a != c:
                    return 'divisor %d' % a, 'constant non-zero divisor'
                return 'divisor %s' % root_name(fl, data['ops'][0]), None
    if msg == 'Overflow' and cond['k'] != 'const':
        # cond is `move _x.1` of a checked op
        l = cond['p']['l']
        for (dbb, idx, kind, data, dproj) in fl.defs.get(l, []):
            if kind == 'assign' and data['k'] == 'bin':
                a, c = const_of(fl, data['ops'][0]), const_of(fl, data['ops'][1])
                if a is not None and c is not None:
                    return '%s(%d, %d)' % (data['op'], a, c), 'constant operands'
                why = ranges_of(fl).overflow_safe(bi, data)
                if why:
                    return '%s(%s, %s)' % (data['op'].replace('WithOverflow', ''), root_name(fl, data['ops'][0]), root_name(fl, data['ops'][1])), 'range analysis: ' + why
                return '%s(%s, %s)' % (data['op'].replace('WithOverflow', ''), root_name(fl, data['ops'][0]), root_name(fl, data['ops'][1])), None
    if cond['k'] != 'const':
        l = cond['p']['l']
        for (dbb, idx, kind, data, dproj) in fl.defs.get(l, []):
            if kind == 'assign':
                rv = data
                if rv['k'] == 'bin' and rv['op'] in ('Lt', 'Le', 'Gt', 'Ge', 'Eq', 'Ne') and msg == 'BoundsCheck':
                    a, c = const_of(fl, rv['ops'][0]), const_of(fl, rv['ops'][1])
                    if a is not None and c is not None:
                        ok = {'Lt': a < c, 'Le': a <= c}.get(rv['op'])
                        if ok:
                            return 'const index %d < %d' % (a, c), 'constant index into a fixed-size array'
                    return 'index %s' % root_name(fl, rv['ops'][0]), None
                if rv['k'] == 'bin':
                    return '%s(%s, %s)' % (rv['op'], root_name(fl, rv['ops'][0]), root_name(fl, rv['ops'][1])), None
    return msg, None


def _arr_len(ty):
    m = re.search(r'\[[^\[\];]+; *(\d+)\]$', (ty or '').strip())
    return int(m.group(1)) if m and re.match(r'^(&(mut )?)*\[', ty.strip()) else None


def const_range(fl, op):
    """(start, end) of a `a..b` / `..b` range aggregate with constant bounds, else None (open ends are None)"""
    b = fl.body
    for o in fl.origins(op):
        if o.kind == 'agg' and str(o.key).startswith('std::ops::Range') and o.bb is not None:
            for st in b.blocks[o.bb]['stmts']:
                rv = st['rv']
                if rv['k'] == 'agg' and str(rv.get('adt', '')).startswith('std::ops::Range') and all(x['k'] == 'const' and isinstance(x.get('v'), int) for x in rv['ops']):
                    f = dict(zip(rv.get('fields') or [], [x['v'] for x in rv['ops']]))
                    if rv['adt'].endswith('RangeInclusive'):
                        return None
                    return (f.get('start', 0), f.get('end'))
    return None


def static_slice_len(fl, op, depth=0):
    """number of elements of a slice / array operand when the code fixes it: an array type, an unsized array, or a constant
    range of a fixed-size array"""
    b = fl.body
    if op['k'] == 'const' or depth > 8:
        return None
    l = op['p']['l']
    n = _arr_len(b.local_ty(l)) if not [e for e in op['p']['proj'] if e != 'deref'] else None
    if n is not None:
        return n
    ds = fl.defs.get(l, [])
    if len(ds) != 1:
        return None
    bb, idx, kind, data, dproj = ds[0]
    if kind == 'assign':
        if data['k'] in ('use', 'cast') and data['ops'][0]['k'] != 'const':
            return static_slice_len(fl, data['ops'][0], depth + 1)
        if data['k'] == 'ref':
            return static_slice_len(fl, {'k': 'copy', 'p': data['p']}, depth + 1)
        return None
    c = callee(data) or ''
    if c in INDEXERS and len(data['args']) >= 2:
        base_n = static_slice_len(fl, data['args'][0], depth + 1)
        rg = const_range(fl, data['args'][1])
        if base_n is not None and rg is not None:
            a_, e_ = rg[0] or 0, rg[1] if rg[1] is not None else base_n
            if 0 <= a_ <= e_ <= base_n:
                return e_ - a_
    if c in ('std::ops::Deref::deref', 'std::ops::DerefMut::deref_mut', 'std::convert::AsRef::as_ref', 'std::borrow::Borrow::borrow') and data['args']:
        return static_slice_len(fl, data['args'][0], depth + 1)
    return None


def describe_index(fl, b, bi, t):
    # a constant range of a fixed-size array: `buf[4..8]` with buf: &[u8; 12]
    rg_ = const_range(fl, t['args'][1]) if len(t['args']) > 1 else None
    n_ = static_slice_len(fl, t['args'][0]) if rg_ is not None else None
    if rg_ is not None and n_ is not None:
        a_, e_ = rg_[0] or 0, rg_[1] if rg_[1] is not None else n_
        if 0 <= a_ <= e_ <= n_:
            return '%s[%d..%d]' % (root_name(fl, t['args'][0]), a_, e_), 'constant range within an array of %d elements' % n_
    base = root_name(fl, t['args'][0])
    idx_o = fl.origins(t['args'][1])
    # range aggregate?
    rng = [o for o in idx_o if o.kind == 'agg' and str(o.key).startswith('std::ops::Range')]
    base_ty = ''
    bo = fl.origins(t['args'][0])
    if rng:
        kind = rng[0].key.split('::')[-1]
        parts = [o for o in idx_o if o.kind != 'agg']
        if kind == 'RangeFull':
            return '%s[..]' % base, 'full range never panics'
        # x[..n] with n = result of read(&mut x)
        if kind == 'RangeTo' and parts and all(o.kind == 'call' and o.key in ('std::io::Read::read', 'tokio::io::AsyncReadExt::read') for o in parts):
            same = True
            for o in parts:
                ro = {(x.kind, x.key, x.bb) for x in call_arg_origins(fl, o.bb, 1)}
                if not ({(x.kind, x.key, x.bb) for x in bo} & ro):
                    same = False
            if same:
                return '%s[..n<-read]' % base, 'n is the count returned by read() into the same buffer'
        if kind == 'RangeTo' and parts and all(o.kind == 'const' and isinstance(o.key, int) for o in parts):
            n = max(o.key for o in parts)
            ty = ' '.join(fl.body.local_ty(o.key) for o in bo if o.kind == 'param')
            for o in bo:
                if o.kind == 'param' and ('[u8; 32]' in fl.body.local_ty(o.key)) and n <= 32:
                    return '%s[..%d]' % (base, n), 'constant range within a [u8; 32]'
        if kind == 'RangeTo' and any(o.kind == 'call' and o.key.endswith('::min') for o in parts):
            return '%s[..min]' % base, None
        return '%s[%s %s]' % (base, kind, '|'.join(sorted({'%s' % (o.key if o.kind != 'const' else 'const') for o in parts}))[:60]), None
    return '%s[%s]' % (base, '|'.join(sorted({'%s:%s' % (o.kind, o.key) for o in idx_o}))[:60]), None


def dump(F, roots):
    sites, graph = enumerate_sites(F, roots)
    for b, bi, kind, detail, why in sites:
        print('%-60s %-18s %-50s %s  L%d' % (b.path.split('::{')[0][-60:], kind, detail[:50], 'OK:' + why if why else '', b.blocks[bi]['term']['line']))
    print(len(graph), 'bodies reachable')


# Functions whose panic is a documented precondition: the sites inside are exempt, every call site that is
# reachable from a hostile-input entry must instead be ED-guarded by a successful validation of the same value.
PRECOND = {
    'async_sync::AsyncCopiaSync::with_block_size': 0,
    'sync::CopiaSync::with_block_size': 0,
    'sync::SyncBuilder::block_size': 1,
    'sync::SyncBuilder::strong_hash_len': 1,
}
VALIDATORS = ('validate_block_size', 'signature::SignatureTable::validate_block_size')

# Frozen exception table: (function, kind) -> (max sites, reason).  Confirmed by reading; a site beyond the
# tabled count is reported.  Keys carry no line numbers and no variable names.
EXC = {
    ('async_sync::AsyncCopiaSync::delta', 'assert:Overflow'): (9, 'pos <= len <= isize::MAX and block_size <= 65536 once validated (C20.R7 guards the constructor); index*block_size < 2^48'),
    ('<sync::CopiaSync as sync::Sync>::delta', 'assert:Overflow'): (10, 'same loop as the async engine, plus matched+literal in its own debug_assert'),
    ('async_sync::AsyncCopiaSync::delta', 'index'): (7, 'every range/element is inside the loop condition pos + block_size <= len or the `<` test of the same arm; tail is [pos..] with pos <= len'),
    ('<sync::CopiaSync as sync::Sync>::delta', 'index'): (7, 'same loop as the async engine'),
    ('<sync::CopiaSync as sync::Sync>::delta', 'panic'): (1, 'debug_assert_eq!(matched+literal, source_size): a checker of C01.R2 accounting on delta\'s own output, not on hostile input'),
    ('signature::SignatureTable::find_match', 'index'): (1, 'candidate indices were produced by enumerate() over the same immutable blocks vector in from_signature'),
    ('signature::SignatureTable::find_weak_match', 'index'): (1, 'same candidate list as find_match (not on today\'s delta path; tabled from reading so that a caller added later is judged on its own sites)'),
    ('signature::SignatureTable::find_match_optimized', 'index'): (4, 'same candidate list as find_match; candidates[0] is read only under candidates.len() == 1'),
    ('delta::Delta::push_copy', 'assert:Overflow'): (1, 'offset = index*block_size < 2^48, len < 2^32'),
    ('delta::Delta::push_copy', 'panic'): (1, 'debug_assert!(len > 0): callers pass block_size as u32 with block_size in 512..=65536 (validated, C20.R7)'),
    ('checksum::FastRollingChecksum::new', 'assert:Overflow'): (4, 'certified wrap-free by the C17 arithmetic analysis for windows <= 65536'),
    ('checksum::FastRollingChecksum::roll', 'assert:Overflow'): (9, 'certified wrap-free by the C17 arithmetic analysis (normalisation every 5000 rolls)'),
    ('checksum::FastRollingChecksum::push', 'assert:Overflow'): (4, 'certified wrap-free by the C17 arithmetic analysis'),
    ('checksum::RollingChecksum::new', 'assert:Overflow'): (3, 'certified by the C17 arithmetic analysis'),
    ('checksum::RollingChecksum::new', 'panic'): (2, 'debug_assert!(x % MOD < MOD) on its own result'),
    ('protocol::Codec::read_message', 'panic'): (1, 'debug_assert_eq!(header.magic, PROTOCOL_MAGIC) directly after header.validate()? succeeded (C20.R3 decides validate => magic)'),
    ('<sync::CopiaSync as sync::Sync>::patch', 'assert:Overflow'): (2, 'bytes_written is a sum of in-memory lengths: overflow needs > 2^32 ops'),
    ('signature::Signature::generate', 'std-panics'): (2, 'chunks(block_size)/div_ceil(block_size): block_size > 0 is the documented precondition of the library API (every CLI caller validates, C20.R7)'),
    ('signature::Signature::generate', 'panic'): (1, 'debug_assert_eq!(blocks.len(), ceil(len/block_size)) on its own output'),
    ('signature::Signature::generate', 'assert:Overflow'): (1, '64 * 1024 constant'),
    ('hash::StrongHash::ct_eq', 'panic'): (1, 'debug_assert on its own result'),
    ('serve::handle_put', 'assert:Overflow'): (1, 'streamed += n: the reads go through take(len), so the sum is <= len <= u64::MAX (C10.R3 decides reader = take(len))'),
}


UNTRUSTED_TYPES = ('delta::Delta', 'delta::DeltaOp', 'signature::Signature', 'signature::BlockSignature', 'protocol::FrameHeader', 'protocol::Message',
                   'wire::Request', 'wire::Response')


def internal_debug_assertion(F, b, bi, untainted=True):
    """the panic in block `bi` belongs to a `debug_assert*!` (behind `cfg!(debug_assertions)`) whose condition is computed from
    values no field of a decoded input structure flows into"""
    fl = flow_of(b)
    cfg = fl.cfg
    # (a) debug-only: dominated by a switch on a constant `true` (what cfg!(debug_assertions) expands to in this configuration)
    dbg = False
    conds = []
    for s_ in cfg.reachable():
        t = b.blocks[s_]['term']
        if t['k'] != 'switch' or s_ == bi or not cfg.dominates(s_, bi):
            continue
        if t['on']['k'] == 'const':
            dbg = True
            continue
        l = t['on']['p']['l']
        if any(st['dst']['l'] == l and st['rv']['k'] == 'use' and st['rv']['ops'][0]['k'] == 'const' and st['rv']['ops'][0].get('v') in (1, True)
               for st in b.blocks[s_]['stmts']):
            dbg = True
            continue
        conds.append((s_, t['on']))
    if not dbg:
        return False
    if not untainted:
        return True
    if not conds:
        return False
    # (b) the nearest test decides the assertion; what it examines
    s_, cond = max(conds, key=lambda x: len(cfg.reach(0, cut_blocks=[x[0]])))
    seen, work = set(), [cond]
    steps = 0
    while work and steps < 400:
        steps += 1
        op = work.pop()
        for o in fl.origins(op, mut_calls=True):
            k = (o.kind, str(o.key), o.bb, tuple(o.path))
            if k in seen:
                continue
            seen.add(k)
            if o.kind in ('param', 'upvar'):
                tb = b
                idx = o.key
                if o.kind == 'upvar':
                    return False        # captured state: not followed
                ty = tb.local_ty(idx)
                if any(u in ty for u in UNTRUSTED_TYPES) and (tuple(o.path) or True):
                    # `self` of the structure's own methods is the value under construction, not a decoded input
                    own = b.path.split('::{')[0].rsplit('::', 1)[0]
                    if not (idx == 1 and own and own in ty):
                        return False
            elif o.kind in ('call', 'mutcall') and o.bb is not None:
                c = str(o.key)
                if 'deserialize' in c or 'from_reader' in c or c.endswith('::read') or c.endswith('::read_exact'):
                    return False
                for a in b.blocks[o.bb]['term'].get('args', []):
                    if a['k'] != 'const':
                        work.append(a)
    return True


def hostile_relation(F, b, bi):
    """the debug-only assertion in block `bi` compares two values that BOTH come straight out of one decoded structure (a field,
    or a method of it, of a parameter of one of the UNTRUSTED_TYPES) - `debug_assert_eq!(delta.expected_output_size(),
    delta.source_size)`.  Nothing the function computed takes part: the relation is a property of the input alone, which a
    crafted file violates at will.  (F5 was this.)"""
    fl = flow_of(b)
    cfg = fl.cfg
    conds = []
    for s_ in cfg.reachable():
        t = b.blocks[s_]['term']
        if t['k'] != 'switch' or s_ == bi or not cfg.dominates(s_, bi) or t['on']['k'] == 'const':
            continue
        conds.append((s_, t['on']))
    if not conds:
        return False
    s_, cond = max(conds, key=lambda x: len(cfg.reach(0, cut_blocks=[x[0]])))
    # the comparison behind the condition
    sides = None
    if not cond['p']['proj']:
        for (dbb, i_, kind, data, dproj) in fl.defs.get(cond['p']['l'], []):
            if kind == 'assign' and data['k'] == 'bin' and data['op'] in ('Eq', 'Ne', 'Lt', 'Le', 'Gt', 'Ge'):
                sides = data['ops']
            elif kind == 'call' and (callee(data) or '').startswith('std::cmp::Partial') and len(data['args']) == 2:
                sides = data['args']
    if not sides:
        return False
    own = b.path.split('::{')[0].rsplit('::', 1)[0]

    def straight_from_input(op, depth=0):
        if op['k'] == 'const' or depth > 4:
            return False
        os_ = [o for o in fl.origins(op) if o.kind not in ('comb', 'const')]
        if not os_:
            return False
        for o in os_:
            if o.kind == 'param':
                ty = b.local_ty(o.key)
                if not any(u in ty for u in UNTRUSTED_TYPES) or (o.key == 1 and own and own in ty):
                    return False
            elif o.kind == 'call' and o.bb is not None:
                args = [a for a in b.blocks[o.bb]['term'].get('args', []) if a['k'] != 'const']
                if not args or not all(straight_from_input(a, depth + 1) for a in args):
                    return False
            else:
                return False
        return True
    return all(straight_from_input(x) for x in sides)


def hostile_index(F, b, bi):
    """the indexing site in block `bi`: its position is computed from a field of a decoded structure (a parameter of one of the
    UNTRUSTED_TYPES other than the receiver under construction, or the result of a deserialisation) and no comparison anywhere
    in the function relates a value derived from the same field to a length (`len()`, slice metadata) - True only then"""
    fl = flow_of(b)
    t = b.blocks[bi]['term']
    if t['k'] == 'assert':
        if t['cond']['k'] == 'const':
            return False
        idx = None
        for (dbb, i_, kind, data, dproj) in fl.defs.get(t['cond']['p']['l'], []):
            if kind == 'assign' and data['k'] == 'bin' and data['op'] in ('Lt', 'Le'):
                idx = data['ops'][0]
        if idx is None:
            return False
    elif t['k'] == 'call' and len(t.get('args', [])) >= 2:
        idx = t['args'][1]
    else:
        return False

    def taint_roots(op):
        """(hostile field origins, everything seen) behind an operand, through arithmetic and calls"""
        seen, roots, work, steps = set(), set(), [op], 0
        while work and steps < 300:
            steps += 1
            o_ = work.pop()
            if o_['k'] == 'const':
                continue
            for o in fl.origins(o_):
                k = (o.kind, str(o.key), o.bb, tuple(o.path))
                if k in seen:
                    continue
                seen.add(k)
                if o.kind == 'param':
                    ty = b.local_ty(o.key)
                    own = b.path.split('::{')[0].rsplit('::', 1)[0]
                    if any(u in ty for u in UNTRUSTED_TYPES) and [e for e in o.path if not e.startswith('@')] and not (o.key == 1 and own and own in ty):
                        roots.add((o.key, tuple(e for e in o.path if not e.startswith('@'))))
                elif o.kind in ('call', 'mutcall') and o.bb is not None:
                    c = str(o.key)
                    if 'deserialize' in c or 'from_reader' in c:
                        roots.add(('de', c))
                    for a in b.blocks[o.bb]['term'].get('args', []):
                        work.append(a)
        return roots, seen
    roots, _ = taint_roots(idx)
    if not roots:
        return False
    # any comparison that relates one of those fields to a length?
    for ci in fl.cfg.reachable():
        for st in b.blocks[ci]['stmts']:
            rv = st['rv']
            if rv['k'] != 'bin' or rv['op'] not in ('Lt', 'Le', 'Gt', 'Ge', 'Eq', 'Ne'):
                continue
            if b.blocks[ci]['term']['k'] == 'assert' and ci == bi:
                continue        # the bounds check itself
            sides = [taint_roots(x) for x in rv['ops']]
            for me, other in ((0, 1), (1, 0)):
                if sides[me][0] & roots:
                    if any(k[0] in ('call',) and (k[1].endswith('::len') or k[1].endswith('::is_empty')) for k in sides[other][1]) or _is_len_rvalue(fl, rv['ops'][other]):
                        return False
        t2 = b.blocks[ci]['term']
        if t2['k'] == 'call' and (callee(t2) or '').endswith(('::get', '::get_mut', '::checked_sub', '::min')) and ci != bi:
            for a in t2['args'][1:]:
                if taint_roots(a)[0] & roots:
                    return False        # a checked accessor on the same value: the relation to the length is made there
    return True


def _is_len_rvalue(fl, op):
    if op['k'] == 'const' or op['p']['proj']:
        return False
    for (dbb, i_, kind, data, dproj) in fl.defs.get(op['p']['l'], []):
        if kind == 'assign' and data['k'] in ('len', 'un') and str(data.get('op', 'len')).lower() in ('len', 'ptrmetadata'):
            return True
    return False


_BASE = None


def baseline_functions():
    """names of the functions of both crates at the commit the exception table was written for (frozen list)"""
    global _BASE
    if _BASE is None:
        import json
        import os
        p_ = os.path.join(os.path.dirname(os.path.dirname(os.path.abspath(__file__))), 'baseline_functions.json')
        _BASE = set(json.load(open(p_))) if os.path.exists(p_) else set()
    return _BASE


def site_signature(b, bi):
    """(op, origins of each operand) of a checked arithmetic op or an index expression; None when not comparable"""
    fl = flow_of(b)
    t = b.blocks[bi]['term']
    osig = lambda op: frozenset((o.kind, str(o.key), o.bb, tuple(o.path)) for o in fl.origins(op))
    if t['k'] == 'assert' and t['cond']['k'] != 'const':
        l = t['cond']['p']['l']
        for (dbb, idx, kind, data, dproj) in fl.defs.get(l, []):
            if kind == 'assign' and data['k'] == 'bin':
                return (b.path, data['op'], osig(data['ops'][0]), osig(data['ops'][1]))
        return None
    if t['k'] == 'call' and len(t['args']) >= 2 and (callee(t) or '') in INDEXERS:
        return (b.path, 'index', osig(t['args'][0]), osig(t['args'][1]))
    return None


def kind_of(kind, detail):
    if kind.startswith('assert:'):
        return kind
    if kind == 'index':
        return 'index'
    return kind


def run_entries(ctx, rid, entries, text, floor_bodies=3):
    ctx.rule(rid, text, floor=1)
    seen_cfg = 0
    for cfgname, F in ctx.F.items():
        roots = [e for e in entries if F.body(e) is not None]
        if not roots:
            continue
        seen_cfg += 1
        cg = callgraph_of(F)
        sites, graph = enumerate_sites(F, roots)
        groups = {}
        site_file = {}
        for b, bi, kind, detail, why in sites:
            top = b.path.split('::{')[0]
            # a site that came with a spliced helper which did not exist when the table was written belongs to that helper
            # (new code), not to the tabled function it was spliced into
            frm = (b.blocks[bi].get('from') or '').split('::{')[0]
            if frm and frm not in baseline_functions():
                top = frm
                if F.body(frm) is not None:
                    site_file[top] = F.body(frm).file
            if top in PRECOND:
                continue
            if why:
                ctx.ok(rid, '%s:%s:%s' % (top, kind, detail), why, term_loc(b, bi))
                continue
            groups.setdefault((top, kind_of(kind, detail)), []).append((b, bi, detail))
        # the same operation on the same values, written twice, is one obligation (value numbering on operand origins):
        # recomputing an already-tabled expression does not add a way to panic
        for gk, lst in list(groups.items()):
            seen_sig, uniq = set(), []
            for (b, bi, d) in lst:
                sg = site_signature(b, bi)
                if sg is not None and sg in seen_sig:
                    continue
                if sg is not None:
                    seen_sig.add(sg)
                uniq.append((b, bi, d))
            groups[gk] = uniq
        # The table is kept per function (that is how the reasons were written), but it is ENFORCED per source file:
        # moving a judged site into a helper of the same module (extract-function) does not create a way to panic.
        # Budget of a file = sum of the tabled counts of its functions; the reachable sites of the file must fit.
        def file_of(fn):
            fb = F.body(fn)
            if fb is not None:
                return fb.file
            mod = fn.split('::')[0].lstrip('<')
            for p_, b_ in F.bodies.items():
                if p_.split('::')[0].lstrip('<') == mod:
                    return b_.file
            return None
        tabled_fns = {fn for (fn, _k) in EXC}
        reached = {p_.split('::{')[0] for p_ in graph}      # allowance of a tabled function these entry points never reach is not slack
        slack = {}
        for (fn, kind), (mx, _) in EXC.items():
            f_ = file_of(fn)
            if f_ is not None and fn in reached:
                have = len(groups.get((fn, kind), []))
                slack[(f_, kind)] = slack.get((f_, kind), 0) + max(0, mx - have)
        for (top, kind), lst in sorted(groups.items()):
            mx, reason = EXC.get((top, kind), (0, None))
            f_ = site_file.get(top, lst[0][0].file)
            if len(lst) <= mx:
                ctx.ok(rid, '%s:%s' % (top, kind), '%d site(s) <= %d tabled: %s' % (len(lst), mx, reason), term_loc(lst[0][0], lst[0][1]))
            elif top not in tabled_fns and top not in baseline_functions() and len(lst) <= slack.get((f_, kind), 0):
                # a function the table has never seen (extract-function) takes over allowance that tabled functions of the
                # same file no longer use; a tabled function never borrows (a new site in it is judged on its own)
                slack[(f_, kind)] -= len(lst)
                ctx.ok(rid, '%s:%s' % (top, kind), '%d site(s) in a new helper; tabled functions of this file have that many fewer than tabled (judged sites moved into the helper)'
                       % len(lst), term_loc(lst[0][0], lst[0][1]))
            elif kind == 'panic' and len(lst) > mx and any(hostile_relation(F, b, bi) for (b, bi, d) in lst):
                hb, hbi, hd = [x for x in lst if hostile_relation(F, x[0], x[1])][0]
                # (tabled assertions of this kind do not exist: every tabled one compares something the function computed)
                ctx.bad(rid, '%s:%s:relation-between-input-fields' % (top, kind),
                        '%s asserts (debug builds) a relation between two values taken straight from a decoded structure (%s): a crafted input violates it at will and the '
                        'process aborts instead of reporting an error' % (top, hd), term_loc(hb, hbi))
            elif kind == 'panic' and len(lst) > mx and all(internal_debug_assertion(F, b, bi, untainted=False) for (b, bi, d) in lst):
                # more assertion sites than tabled, but every one of them is a debug-only assertion (`debug_assert*!`, compiled out
                # of release builds; every tabled site of this kind is one too, so a plain `assert!`/`panic!` is always surplus). Whether such a condition can be false is a question about values: for one computed from the
                # function's own state it is a question about the function's logic, not about hostile input; for one that a decoded
                # structure flows into it may be an invariant (sum of bucket sizes == number of blocks) or a missing check (F5) -
                # neither is decided here, and neither is reported as a violation. The specific rules (C05.R6 size agreement,
                # C20.R7 block-size validation, C12.R3 length prefix) report the checks whose replacement by an assertion matters.
                extra = [(b, bi, d) for (b, bi, d) in lst if internal_debug_assertion(F, b, bi, untainted=False)]
                inner = [x for x in extra if internal_debug_assertion(F, x[0], x[1])]
                ctx.undecided(rid, '%s: %d debug-only assertion(s) beyond the tabled %d (%d on internal state, %d on state a decoded input flows into): '
                              'that their conditions hold for every input is not decided (%s)' % (
                                  top, len(extra), mx, len(inner), len(extra) - len(inner), '; '.join(d for _, _, d in extra[:3])))
            elif top not in baseline_functions() and kind == 'std-panics' and any(fixed_str_offset(F, b, bi) for (b, bi, d) in lst):
                # new code, but this much is decided: a String is cut at a FIXED byte offset and nothing in the function asks
                # whether that offset is a character boundary - any text with a multi-byte character across it panics
                hb, hbi, hd = [x for x in lst if fixed_str_offset(F, x[0], x[1])][0]
                ctx.bad(rid, '%s:%s:fixed-byte-offset' % (top, kind),
                        '%s cuts a string at a constant byte offset (%s) without asking is_char_boundary: text with a multi-byte character across that offset makes it panic '
                        '(the process aborts in the middle of a session)' % (top, hd), term_loc(hb, hbi))
            elif top not in baseline_functions() and kind in ('index', 'assert:BoundsCheck') and any(hostile_index(F, b, bi) for (b, bi, d) in lst):
                # new code, but this much is decided: the position comes out of a decoded structure and is never compared with
                # the length of what it indexes - a crafted file chooses it freely
                hb, hbi, hd = [x for x in lst if hostile_index(F, x[0], x[1])][0]
                ctx.bad(rid, '%s:%s:hostile-index' % (top, kind),
                        '%s indexes with a value taken from a decoded structure (%s) that is never compared with the length of the indexed collection: '
                        'a crafted input makes it panic' % (top, hd), term_loc(hb, hbi))
            elif top not in baseline_functions():
                # a function that did not exist when the table was written (new helper, new type's method): its sites have not
                # been judged by anyone - say so instead of calling them violations (a site added to a function that DID exist
                # is still reported)
                ctx.undecided(rid, '%s is new code with %d unjudged %s site(s) reachable from a hostile-input entry point (%s)' % (
                    top, len(lst), kind, '; '.join(d for _, _, d in lst[:2])))
            else:
                where = '; '.join('%s [%s]' % (term_loc(b, bi), d) for b, bi, d in lst[:6])
                ctx.bad(rid, '%s:%s' % (top, kind),
                        '%d panic-capable site(s) of kind %s reachable from a hostile-input entry point in %s (tabled: %d): %s' % (len(lst), kind, top, mx, where),
                        term_loc(lst[0][0], lst[0][1]))
        # precondition call sites
        for pf, argi in PRECOND.items():
            for b, bb, c in cg.call_sites(lambda c: c == pf, within=graph):
                top = b.path.split('::{')[0]
                if top in PRECOND:
                    continue      # constructor chains: checked at the outermost caller
                ok = precond_guarded(F, cg, b, bb, argi, 0)
                if ok is None:
                    ctx.undecided(rid, '%s hands %s a value that a loader validated on a preamble of generic width decoded from the same bytes: that it is the same number is not decided' % (top, pf.split('::')[-1]))
                    continue
                ctx.check(ok, rid, '%s:%s-unvalidated' % (top, pf.split('::')[-1]), 'argument validated before the asserting constructor',
                          '%s passes a value that was not validated to %s, which assert!s: a crafted input aborts the process' % (top, pf), term_loc(b, bb))
        if len(graph) < floor_bodies:
            ctx.missing(rid, 'call graph from %s has only %d bodies' % (roots, len(graph)))
    if not seen_cfg:
        ctx.missing(rid, 'entry points %s' % entries)


def _top_split(a):
    """top-level comma split of a `[a, b<c, d>]` generic-argument list"""
    a = (a or '').strip()
    if a.startswith('[') and a.endswith(']'):
        a = a[1:-1]
    out, depth, cur = [], 0, ''
    for ch in a:
        if ch in '<([':
            depth += 1
        elif ch in '>)]':
            depth -= 1
        if ch == ',' and depth == 0:
            out.append(cur.strip())
            cur = ''
        else:
            cur += ch
    if cur.strip():
        out.append(cur.strip())
    return out


def _loader_validates(F, path, site_args=None):
    """True / False / None / 'no': a crate fn that decodes an artifact from bytes after validating the block size of a preamble
    decoded from the SAME bytes: True when the preamble's leading field has the type of the artifact's, False when the types
    differ, None when a type is generic and the call site (`site_args`: its generic arguments) does not fix it; 'no' when the
    function is not of that shape"""
    bodies = [x for x in [F.body(path)] + list(F.nested(path)) if x is not None]
    for xb in bodies:
        xfl = flow_of(xb)
        des = xfl.calls(lambda c: c == 'bincode::deserialize' or c.endswith('bincode::deserialize'))
        vals = xfl.calls(lambda c: c in VALIDATORS or c.endswith('::validate_block_size'))
        if len(des) < 2 or not vals:
            continue
        oks = ok_assign_blocks(xb, 'Ok')
        if not oks or not all(any(xfl.guarded_by(ob, vb, 'Ok') for vb, _ in vals) for ob in oks):
            return 'no'
        # which decode feeds the validator, which the return
        sig_ = lambda op: {(o.kind, str(o.key), o.bb) for o in xfl.origins(op) if o.kind == 'call' and str(o.key).endswith('deserialize')}
        pre = set()
        for vb, vt in vals:
            pre |= sig_(vt['args'][0])
        ret = set()
        for ob in oks:
            for st in xb.blocks[ob]['stmts']:
                if st['rv']['k'] == 'agg' and st['rv'].get('vname') == 'Ok' and st['rv']['ops']:
                    ret |= sig_(st['rv']['ops'][0])
        if pre & ret:
            return True
        if not pre or not ret:
            return None         # the loader validates something before it returns: what, is not read
        same_bytes = len({frozenset((o.kind, str(o.key), o.bb) for o in xfl.origins(xb.blocks[k[2]]['term']['args'][0])) for k in pre | ret}) == 1
        if not same_bytes:
            return None

        def first_field_ty(k):
            ty = xb.local_ty(xb.blocks[k[2]]['term']['dst']['l'])
            m = re.match(r'^std::result::Result<(.+?)(?:<.*>)?, ', ty)
            inner = re.match(r'^std::result::Result<(.*), std::boxed::Box<', ty)
            full = inner.group(1) if inner else (m.group(1) if m else '')
            if site_args and re.fullmatch(r'[A-Z]\w*', full):
                # the decoded type is a parameter of the loader (`deserialize::<T>`): the call site under judgement fixes it
                for ga in _top_split(xb.blocks[k[2]]['term']['func'].get('fn_args', '')):
                    gm = re.fullmatch(r'%s/#(\d+)' % re.escape(full), ga)
                    if gm and int(gm.group(1)) < len(site_args) and not re.search(r'/#\d+', site_args[int(gm.group(1))]):
                        full = site_args[int(gm.group(1))]
                        break
            base = re.sub(r'<.*$', '', full)
            adt = F.adts.get(base) or F.adts.get(base.replace('copia::', ''))
            if adt is None and base:
                # a re-export (`copia::Signature` for signature::Signature): the one crate type of that name
                cands = [k_ for k_ in F.adts if re.fullmatch(r'[\w:]+', k_) and k_.split('::')[-1] == base.split('::')[-1]]
                adt = F.adts[cands[0]] if len(cands) == 1 else None
            targs = re.findall(r'<(.*)>$', full)
            if adt is None or not adt.get('variants') or not adt['variants'][0].get('fields'):
                return None
            fty = adt['variants'][0]['fields'][0].get('ty', '')
            if re.fullmatch(r'[A-Z]\w*(/#\d+)?', fty) or '/#' in fty:
                # the field's type is a parameter of the struct: take the argument at the use site
                fty = targs[0].split(',')[0].strip() if targs else fty
            return fty
        tp = {first_field_ty(k) for k in pre}
        tr = {first_field_ty(k) for k in ret}
        generic = lambda t: t is None or '/#' in t or ' as ' in t or re.fullmatch(r'[A-Z]\w*', t or '') is not None
        if any(generic(t) for t in tp | tr):
            return None
        # serde writes a usize as a u64 (isize as i64): the same eight bytes on the wire
        wire = lambda t: {'usize': 'u64', 'isize': 'i64'}.get(t, t)
        return {wire(t) for t in tp} == {wire(t) for t in tr}
    return 'no'


def fixed_str_offset(F, b, bi):
    t = b.blocks[bi]['term']
    c = callee(t) or ''
    if t['k'] != 'call' or c not in ('std::string::String::truncate', 'std::string::String::split_off', 'core::str::<impl str>::split_at') or len(t['args']) < 2:
        return False
    fl = flow_of(b)
    os_ = [o for o in fl.origins(t['args'][1]) if o.kind != 'comb']
    if not os_ or not all(o.kind == 'const' for o in os_):
        return False
    asks = fl.calls(lambda c2: c2.split('::')[-1] in ('is_char_boundary', 'floor_char_boundary', 'ceil_char_boundary', 'char_indices'))
    return not asks


def precond_guarded(F, cg, b, bb, argi, depth):
    """The argument `argi` of the call in (b, bb) is validated: the call is ED-guarded by the Ok edge of a validator on
    the same value, or the value is a constant / a parameter validated at every call site of the enclosing function."""
    fl = flow_of(b)
    t = b.blocks[bb]['term']
    ao = fl.origins(t['args'][argi])
    asig = {(o.kind, o.key, o.bb, o.path) for o in ao}
    if ao and all(o.kind == 'const' for o in ao):
        return True
    for vb, vt in fl.calls(lambda c: c in VALIDATORS or c.endswith('::validate_block_size')):
        vo = {(o.kind, o.key, o.bb, o.path) for o in fl.origins(vt['args'][0])}
        if vo == asig and fl.guarded_by(bb, vb, 'Ok'):
            return True
    # the same two tests in line (a validating constructor of a newtype, spliced into its caller): the call is behind the true
    # edge of is_power_of_two(v) and of (lo..=hi).contains(&v) with 512 <= lo, hi <= 65536, both on this very value
    p2 = rng = False
    for vb, vt in fl.calls(lambda c: c.endswith('>::is_power_of_two')):
        if {(o.kind, o.key, o.bb, o.path) for o in fl.origins(vt['args'][0])} == asig:
            e_ = fl.outcomes(vb).get('true', set())
            p2 = p2 or (bool(e_) and fl.cfg.edges_guard(e_, bb))
    for vb, vt in fl.calls(lambda c: c == 'std::ops::RangeInclusive::<Idx>::contains'):
        if len(vt['args']) == 2 and {(o.kind, o.key, o.bb, o.path) for o in fl.origins(vt['args'][1])} == asig:
            bounds = []
            for o in fl.origins(vt['args'][0]):
                if o.kind == 'call' and o.key == 'std::ops::RangeInclusive::<Idx>::new' and o.bb is not None:
                    bounds.append([call_arg_origins(fl, o.bb, 0), call_arg_origins(fl, o.bb, 1)])
                else:
                    bounds.append(None)
            good = bool(bounds) and all(x is not None and all(y.kind == 'const' and isinstance(y.key, int) and y.key >= 512 for y in x[0]) and x[0] and
                                        all(y.kind == 'const' and isinstance(y.key, int) and y.key <= 65536 for y in x[1]) and x[1] for x in bounds)
            e_ = fl.outcomes(vb).get('true', set())
            rng = rng or (good and bool(e_) and fl.cfg.edges_guard(e_, bb))
    if p2 and rng:
        return True
    # the value is a field of what a crate loader returned (`read_artifact(path).await?.block_size`): the loader validated a
    # PREAMBLE it decoded from the same bytes.  That is the same number only if the preamble field has the wire type of the
    # artifact's own leading field (bincode writes a usize as 8 bytes, a u32 as 4: a u32 preamble in front of a usize field sees
    # the low half only) - decided from the two types; a generic width is not decided.
    if ao and all(o.kind == 'call' and F.body(str(o.key)) is not None and o.path[-1:] == ('block_size',) for o in ao):
        verdicts = []
        for o in ao:
            site = b.blocks[o.bb]['term'] if o.bb is not None and o.bb < len(b.blocks) else None
            ta = _top_split(site['func'].get('fn_args', '')) if site is not None and site.get('k') == 'call' and 'func' in site else None
            verdicts.append(_loader_validates(F, str(o.key), ta))
        if all(v is True for v in verdicts):
            return True
        if any(v is False for v in verdicts):
            return False
        if any(v is None for v in verdicts) and not any(v == 'no' for v in verdicts):
            return None
    # the value is self.config.block_size of an engine built by a validating constructor
    if ao and all(o.path[-2:] == ('config', 'block_size') for o in ao):
        return True
    # parameter (or upvar of an async body) validated by every caller
    if depth < 3 and ao and all(o.kind in ('param', 'upvar') for o in ao):
        top = b.path.split('::{')[0]
        tb = F.body(top)
        sites = cg.call_sites(lambda c: c == top)
        if not sites:
            return False
        for o in ao:
            # map upvar index back to the fn parameter (async fn: captures are the parameters in order)
            if o.kind == 'param':
                pi = o.key - 1
            else:
                name = b.upvars.get(int(o.key)) if o.key is not None else None
                pi = None
                if tb is not None and name is not None:
                    for i in range(1, tb.argc + 1):
                        if tb.local_name(i) == name:
                            pi = i - 1
                if pi is None:
                    return False
            for cb_, cbb_, _ in sites:
                if not precond_guarded(F, cg, cb_, cbb_, pi, depth + 1):
                    return False
        return True
    return False


if __name__ == '__main__':
    import sys
    sys.path.insert(0, os.path.dirname(os.path.dirname(os.path.abspath(__file__))))
    from facts import Facts
    import flow
    F = Facts(sys.argv[1], '/verif/.cache/facts/' + sys.argv[1])
    flow.register_enums(F)
    dump(F, sys.argv[2:])
