"""C09 — one-way delivery is atomic under a crash at any point (DESIGN §7 C09)."""
from rules.common import *  # noqa: F401,F403
from rules.oneway import Effects, RUN_REC
from callgraph import callgraph_of
import shell
import shtemplate
import tables

CONFIGS = ['cli']
LEVEL = 'other'
EXPLANATION = (
    'Decides: (R1) deliver_local copies into tmp_path(dst) = dst+".copia-tmp" and renames onto dst only under the Ok edge of the copy; (R2) deliver_pull hands only '
    'its staging path to transfer_file_from_remote, which returns Ok only after the stream copy and flush returned Ok and the remote `cat` exited successfully, and '
    'renames only under that Ok edge; (R3) the push command is `cat > STAGE && mv -f STAGE DST [&& touch ..]` with STAGE = DST+".copia-tmp", publication '
    '&&-conditioned on the staging step, and a completeness gate on the staged file before `mv`; (R4) under run_sync_recursive no file content is created at a '
    'non-staging destination path. (R5) no exclusive create (create_new) on a delivery path unless the leftover is removed first: a staging file left by a killed run must be taken over, or every later run fails. R4 also: a copy target kept in an Option field (staging name, else the final name) is judged where the struct is built - every construction must store Some(staging name). Assumes POSIX rename / mv -f atomicity and && semantics. Not decided: what an actual kill leaves behind; re-run equality. (R6) every rename under the recursive sync takes its SOURCE from a staging name (directly or at every call site): a rename that moves away the path the caller later publishes onto leaves the path empty until the publishing rename - reported; a file opened for writing at a staging name is fine.')
ASSUMPTIONS = ['POSIX rename(2) and `mv -f` within one directory are atomic', 'sh `&&` runs its right side only if the left side exited 0']

STAGING_FN = 'incremental::tmp_path'


def is_staging(fl, op):
    os_ = fl.origins(op)
    return bool(os_) and all(o.kind == 'call' and o.key == STAGING_FN for o in os_)


def run(ctx):
    F = ctx.F['cli']
    ctx.rule('C09.R1', 'deliver_local: copy(src, tmp_path(dst)) Ok guards rename(tmp, dst)', floor=3)
    ctx.rule('C09.R2', 'deliver_pull: stream into the staging path; transfer_file_from_remote Ok => copy+flush Ok and status.success(); Ok guards rename', floor=4)
    ctx.rule('C09.R3', 'push: cat > STAGE && [complete?] && mv -f STAGE DST; STAGE = DST.copia-tmp', floor=3)
    ctx.rule('C09.R5', 'a staging file left by a killed run is taken over: no exclusive create (create_new) on the delivery paths', floor=0)
    ctx.rule('C09.R4', 'no file content created at a non-staging path under run_sync_recursive', floor=2)
    ctx.attempt(tmp_path_rule, ctx, F)
    ctx.attempt(r1, ctx, F)
    ctx.attempt(r2, ctx, F)
    ctx.attempt(r3, ctx, F)
    ctx.attempt(r4, ctx, F)
    ctx.attempt(r5, ctx, F)
    ctx.rule('C09.R6', 'every rename under the recursive sync takes its source from a staging name: the live destination is never renamed away', floor=2)
    ctx.attempt(r6_rename_sources, ctx, F)


def tmp_path_rule(ctx, F):
    b = F.body(STAGING_FN)
    if b is None:
        ctx.missing('C09.R1', STAGING_FN)
    fl = flow_of(b)
    ro = fl.origins(0, mut_calls=True)
    base = any(o.kind == 'param' and o.key == 1 for o in ro)
    suffix = False
    for o in ro:
        if o.kind == 'mutcall' and o.key == 'std::ffi::OsString::push':
            if any(x.kind == 'const' and x.key == '.copia-tmp' for x in call_arg_origins(fl, o.bb, 1)):
                suffix = True
    ctx.check(base and suffix, 'C09.R1', 'tmp_path', 'tmp_path(dst) == dst + ".copia-tmp" (a sibling in the same directory)',
              'tmp_path no longer appends the reserved ".copia-tmp" suffix to its argument', loc(b, b.lo))


def r1(ctx, F):
    import tables
    b = work_body(F, 'incremental::deliver_local', ['tokio::fs::rename', 'std::fs::rename'])
    if b is None:
        ctx.missing('C09.R1', 'incremental::deliver_local')
    fl = flow_of(b)
    cfg = fl.cfg
    renames = fl.calls(lambda c: c in ('tokio::fs::rename', 'std::fs::rename'))
    creators = fl.calls(lambda c: c in tables.CONTENT_CREATORS and not c.endswith('OpenOptions::open'))
    if len(renames) != 1 or not creators:
        ctx.missing('C09.R1', 'deliver_local: content creation and one rename (found %d/%d)' % (len(creators), len(renames)))
    rb, rt = renames[0]
    stg = lambda op: is_staging(fl, op) or is_staging_name(F, fl, op)
    # what fills the staging file: fs::copy(src, tmp), or File::create(tmp) followed by stream writes
    writes = []
    staged = stg(rt['args'][0])
    src_o = set()
    for cb, ct in creators:
        c = callee(ct)
        pop = ct['args'][tables.CONTENT_CREATORS[c]]
        staged = staged and stg(pop) and {o.bb for o in fl.origins(pop)} == {o.bb for o in fl.origins(rt['args'][0])}
        if c.endswith('fs::copy'):
            writes.append(cb)
            src_o |= fl.origins(ct['args'][0])
        else:
            writes.append(cb)
            for wb, wt in fl.calls(lambda c2: c2 in ('std::io::copy', 'std::io::Write::write_all', 'std::io::Write::write', 'tokio::io::copy', 'tokio::io::AsyncWriteExt::write_all')):
                writes.append(wb)
            for ob, ot in fl.calls(lambda c2: c2 in ('std::fs::File::open', 'tokio::fs::File::open')):
                src_o |= fl.origins(ot['args'][0])
    dst_o = fl.origins(rt['args'][1])
    # roles by use, not by name: src = the parameter that is read, dst = the parameter that is renamed onto
    src_s, dst_s = param_slots(F, b, src_o), param_slots(F, b, dst_o)
    tmp_of_dst = bool(dst_s)
    for o in fl.origins(rt['args'][0]):
        if o.kind == 'call' and o.bb is not None and o.key == STAGING_FN:
            tmp_of_dst = tmp_of_dst and param_slots(F, b, call_arg_origins(fl, o.bb, 0)) == dst_s
    roles = bool(src_s) and bool(dst_s) and len(src_s) == 1 and len(dst_s) == 1 and src_s != dst_s
    ctx.check(staged and tmp_of_dst and roles, 'C09.R1', 'deliver_local:staging',
              'content goes to tmp_path(dst) only; rename(that tmp, dst)', 'deliver_local does not stage into tmp_path(dst) and rename that file onto dst', term_loc(b, creators[0][0]))
    guarded = any(fl.guarded_by(rb, wb, 'Ok') for wb in writes)
    for wb in writes:
        for (s_, t_, lab) in fl.outcomes(wb).get('Err', set()):
            if rb in cfg.reach(t_):
                guarded = False
    ctx.check(guarded, 'C09.R1', 'deliver_local:copy-ok-guards-rename', 'rename only under the Ok edges of the writes that fill the staging file',
              'deliver_local renames the staging file onto the destination even if the copy failed or was partial', term_loc(b, rb))
    bw = buffered_writer_flushed_before(fl, rb)
    if bw is not None:
        ctx.check(bw, 'C09.R1', 'deliver_local:buffer-flushed-before-rename', 'the buffered writer of the staging file is flushed (flush / into_inner Ok) before the rename',
                  'deliver_local fills the staging file through a BufWriter and renames it onto the destination without flushing: what is still buffered is written when the '
                  'writer is dropped, after the rename - a kill in between leaves a truncated file at the destination path', term_loc(b, rb))


def r2(ctx, F):
    b = work_body(F, 'incremental::deliver_pull', ['dir_sync::transfer_file_from_remote'])
    if b is None:
        ctx.missing('C09.R2', 'incremental::deliver_pull')
    fl = flow_of(b)
    tr = fl.calls_to('dir_sync::transfer_file_from_remote')
    renames = fl.calls(lambda c: c in ('tokio::fs::rename', 'std::fs::rename'))
    if len(tr) != 1 or len(renames) != 1:
        ctx.missing('C09.R2', 'deliver_pull: one transfer_file_from_remote and one rename')
    tb, tt = tr[0]
    rb, rt = renames[0]
    staged = is_staging(fl, tt['args'][2]) and is_staging(fl, rt['args'][0]) and \
        {o.bb for o in fl.origins(tt['args'][2])} == {o.bb for o in fl.origins(rt['args'][0])}
    ctx.check(staged, 'C09.R2', 'deliver_pull:staging', 'the remote stream lands in tmp_path(local_dest), which is what gets renamed',
              'deliver_pull streams the remote file directly onto the destination (or renames another file)', term_loc(b, tb))
    ctx.check(fl.guarded_by(rb, tb, 'Ok'), 'C09.R2', 'deliver_pull:transfer-ok-guards-rename', 'rename only under the Ok edge of transfer_file_from_remote',
              'deliver_pull renames the staging file although the transfer failed', term_loc(b, rb))
    # SUM of transfer_file_from_remote
    t = work_body(F, 'dir_sync::transfer_file_from_remote', ['tokio::io::copy', 'std::io::copy'])
    if t is None:
        ctx.missing('C09.R2', 'dir_sync::transfer_file_from_remote')
    tfl = flow_of(t)
    oks = ok_assign_blocks(t, 'Ok')
    copies = tfl.calls(lambda c: c in ('tokio::io::copy', 'std::io::copy'))
    flushes = tfl.calls(lambda c: c.endswith('::flush') or c.endswith('::sync_all') or c.endswith('::shutdown'))
    succ = tfl.calls(lambda c: c == 'std::process::ExitStatus::success')
    good = bool(oks) and bool(copies) and bool(flushes) and bool(succ)
    if good:
        for ob in oks:
            g_copy = any(tfl.guarded_by(ob, cb, 'Ok') for cb, _ in copies)
            g_flush = any(tfl.guarded_by(ob, fb, 'Ok') for fb, _ in flushes)
            g_succ = any(tfl.outcomes(sb).get('true') and tfl.cfg.edges_guard(tfl.outcomes(sb)['true'], ob) for sb, _ in succ)
            good = good and g_copy and g_flush and g_succ
    ctx.check(good, 'C09.R2', 'transfer_file_from_remote:Ok-summary', 'Ok only after copy Ok, flush Ok and status.success()',
              'transfer_file_from_remote can return Ok although the stream copy/flush failed or the remote cat exited non-zero (a truncated file would be published)',
              loc(t, t.lo))
    # the file it creates is its path parameter (the caller\'s staging path)
    creates = tfl.calls(lambda c: c in tables.CONTENT_CREATORS)
    ok_c = bool(creates)
    for cb, ct in creates:
        po = tfl.origins(ct['args'][tables.CONTENT_CREATORS[callee(ct)]])
        cs = param_slots(F, t, po)
        ok_c = ok_c and cs is not None and len(cs) == 1
        # ... and that parameter is the one the caller fills with its staging path
        if ok_c:
            slot = list(cs)[0]
            ok_c = slot - 1 < len(tt['args']) and is_staging(fl, tt['args'][slot - 1])
    ctx.check(ok_c, 'C09.R2', 'transfer_file_from_remote:writes-its-argument', 'creates exactly the path it was given',
              'transfer_file_from_remote creates a file other than the path handed to it', loc(t, t.lo))


def r3(ctx, F):
    b = work_body(F, 'transfer::transfer_file_to_remote', ['tokio::process::Command::new'])
    if b is None:
        ctx.missing('C09.R3', 'transfer::transfer_file_to_remote')
    cmds = shtemplate.ssh_commands(F, b)
    if len(cmds) != 1:
        ctx.missing('C09.R3', 'transfer_file_to_remote: one ssh command (found %d)' % len(cmds))
    cmd, items = cmds[0]
    where = term_loc(b, cmd.new_bb)
    for with_opt in (True, False):
        pieces, holes = shtemplate.flatten(items, with_opt)
        words, probs = shell.tokenize(pieces)
        sc = shell.split_commands(words)
        tag = 'with-mtime' if with_opt else 'no-mtime'
        verbs = [shell.simple_verb(cw) for _, cw in sc]
        conns = [c for c, _ in sc]
        mv_pos = verbs.index('mv') if 'mv' in verbs else -1
        # every step up to and including `mv` is &&-chained; a gate may be a pipeline (`find .. | grep -q .`)
        chain_ok = mv_pos > 0 and conns[mv_pos] == '&&' and all(c in ('&&', '|') for c in conns[1:mv_pos]) and conns[1] == '&&' and \
            all(c == '&&' for c in conns[mv_pos + 1:])
        shape = len(sc) >= 2 and verbs[0] == 'cat' and chain_ok and not probs
        stage = dst = None
        if shape:
            cat = sc[0][1]
            # cat > STAGE
            for i, w in enumerate(cat):
                if len(w) == 1 and w[0].kind == 'op' and w[0].text == '>' and i + 1 < len(cat):
                    stage = shell.word_text(cat[i + 1])
            mv = sc[verbs.index('mv')][1]
            mvw = [shell.word_text(w) for w in mv]
            shape = shape and len(mvw) == 4 and mvw[1] == '-f'
            if shape:
                # the same hole variable, STAGE = DST + .copia-tmp
                def norm_w(w):
                    return ''.join((t.text or '') if t.kind != 'hole' else '{%s}' % holes[t.hole][2] for t in w)
                st_w = norm_w(cat[[shell.word_text(x) for x in cat].index(stage)])
                m_src, m_dst = norm_w(mv[2]), norm_w(mv[3])
                shape = st_w == m_src and m_src == m_dst + '.copia-tmp'
        ctx.check(shape, 'C09.R3', 'push-template:%s:stage-then-mv' % tag, 'cat > DST.copia-tmp && … && mv -f DST.copia-tmp DST',
                  'the push command is not `cat > STAGE && mv -f STAGE DST` with STAGE = DST.copia-tmp, all steps &&-chained (%s)' % shtemplate.render(items),
                  where)
        if with_opt:
            # completeness gate between cat and mv
            gate = False
            if shape:
                mv_i = verbs.index('mv')
                nw = lambda w: ''.join((t.text or '') if t.kind != 'hole' else '{%s}' % holes[t.hole][2] for t in w)
                stage_word = nw(sc[mv_i][1][2])
                for (conn, cw), v in list(zip(sc, verbs))[1:mv_i]:
                    texts = [shell.word_text(w) for w in cw]
                    on_stage = stage_word in [nw(w) for w in cw]
                    if v in ('test', '[', '[[', 'cmp', 'sha256sum', 'b3sum', 'stat') and on_stage:
                        gate = True
                    if v == 'find' and on_stage and '-size' in texts:
                        # find STAGE -size <N>c | grep -q .   (exact byte size, integer hole)
                        i = texts.index('-size')
                        w = cw[i + 1] if i + 1 < len(cw) else []
                        if len(w) == 2 and w[0].kind == 'hole' and holes[w[0].hole][1] == 'int' and w[1].kind == 'lit' and w[1].text == 'c':
                            nxt = sc[verbs.index('find') + 1] if verbs.index('find') + 1 < len(sc) else None
                            if nxt and nxt[0] == '|' and shell.simple_verb(nxt[1]) == 'grep':
                                gate = True
            ctx.check(gate, 'C09.R3', 'push-template:completeness-gate', 'size/hash check of the staged file before mv',
                      'the remote `mv` is conditioned only on `cat` exiting 0: a sender killed mid-stream closes the pipe, cat sees EOF and exits 0, and the '
                      'truncated staging file is published', where)


def r6_rename_sources(ctx, F):
    """Between the moment a live name is renamed away and the rename that publishes the new content the path holds NOTHING: a
    kill there leaves neither the old nor the new bytes.  So under the recursive sync every rename takes its SOURCE from a
    staging name (directly, or through a parameter that is a staging name at every call site); a rename whose source is the
    delivery's destination path is reported, other sources are not decided."""
    cg = callgraph_of(F)
    graph = cg.reach([RUN_REC])
    n = 0
    for b, bb, c in cg.call_sites(lambda c: c.endswith('fs::rename'), within=graph):
        fl = flow_of(b)
        if bb not in fl.cfg.reachable():
            continue
        t = b.blocks[bb]['term']
        top = b.path.split('::{')[0]
        n += 1
        src_o = [o for o in fl.origins(t['args'][0]) if o.kind != 'comb']
        dst_o = [o for o in fl.origins(t['args'][1]) if o.kind != 'comb']
        stg = lambda op: is_staging(fl, op) or is_staging_name(F, fl, op)
        if stg(t['args'][0]):
            ctx.ok('C09.R6', '%s:rename-from-staging' % top.split('::')[-1], 'the renamed file is the staging file', term_loc(b, bb))
            continue
        key = lambda os_: {(o.kind, str(o.key), o.bb, tuple(o.path)) for o in os_}
        # the source is a parameter / capture: look at what the callers hand over for source and destination
        if src_o and all(o.kind in ('param', 'upvar') for o in src_o):
            tb = F.body(top)
            def slot(o):
                name = b.upvars.get(int(o.key)) if o.kind == 'upvar' and o.key is not None else b.local_name(o.key)
                return next((i for i in range(1, (tb.argc if tb else 0) + 1) if tb.local_name(i) == name), None)
            s_slots = {slot(o) for o in src_o}
            sites = cg.call_sites(lambda c2: c2 == top, within=graph)
            if tb is None or None in s_slots or len(s_slots) != 1 or not sites:
                ctx.undecided('C09.R6', '%s renames a path it was handed: what its callers pass is not read' % top.split('::')[-1])
                continue
            si = list(s_slots)[0]
            verdicts = []
            for sb, sbb, _ in sites:
                sfl = flow_of(sb)
                a = sb.blocks[sbb]['term']['args'][si - 1]
                if is_staging(sfl, a) or is_staging_name(F, sfl, a):
                    verdicts.append(True)
                else:
                    # the caller's own delivery destination (the path its publishing rename lands on) handed over as the SOURCE
                    pubs = [rt_ for rb_, rt_ in sfl.calls(lambda c2: c2.endswith('fs::rename'))]
                    ak = key([o for o in sfl.origins(a) if o.kind != 'comb'])
                    live = any(ak and ak == key([o for o in sfl.origins(rt_['args'][1]) if o.kind != 'comb']) for rt_ in pubs)
                    verdicts.append(False if live else None)
            if all(v is True for v in verdicts):
                ctx.ok('C09.R6', '%s:rename-from-staging' % top.split('::')[-1], 'the renamed file is a staging file at every call site', term_loc(b, bb))
            elif any(v is False for v in verdicts):
                ctx.bad('C09.R6', '%s:renames-the-live-file-away' % top.split('::')[-1],
                        '%s renames away the very path its caller later publishes onto (the live destination becomes the staging file): until the publishing rename the path holds '
                        'neither the old nor the new bytes - a kill in between loses the file' % top, term_loc(b, bb))
            else:
                ctx.undecided('C09.R6', '%s renames a path that is not a staging name at some call site: whether it is a live destination is not decided' % top.split('::')[-1])
            continue
        if src_o and dst_o and key(src_o) != key(dst_o):
            # same body: the source of this rename is the destination of another rename (the publishing one) in this function
            live = any(rb_ != bb and key(src_o) == key([o for o in fl.origins(rt_['args'][1]) if o.kind != 'comb']) for rb_, rt_ in fl.calls(lambda c2: c2.endswith('fs::rename')))
            if live:
                ctx.bad('C09.R6', '%s:renames-the-live-file-away' % top.split('::')[-1],
                        '%s renames away the path it later publishes onto: until the publishing rename the path holds neither the old nor the new bytes' % top, term_loc(b, bb))
                continue
        ctx.undecided('C09.R6', '%s renames a file whose name is not a staging name: whether it is a live destination is not decided' % top.split('::')[-1])
    if n < 2:
        ctx.missing('C09.R6', 'renames under run_sync_recursive (found %d)' % n)


def r4(ctx, F):
    cg = callgraph_of(F)
    graph = cg.reach([RUN_REC])
    n = 0
    for b, bb, c in cg.call_sites(lambda c: c in tables.CONTENT_CREATORS, within=graph):
        fl = flow_of(b)
        t = b.blocks[bb]['term']
        pos = tables.CONTENT_CREATORS[c]
        top = b.path.split('::{')[0]
        # a parameter: every call site (in the graph) passes a staging path - directly, or as a parameter of its own (a typed-error
        # wrapper around the worker, a phase function) whose call sites do
        def staged_at_callers(body_, os_, depth=0):
            par = [o for o in os_ if o.kind in ('param', 'upvar')]
            if not par or len(par) != len([o for o in os_ if o.kind != 'comb']) or depth > 3:
                return False
            top_ = body_.path.split('::{')[0]
            tb = F.body(top_)
            if tb is None:
                return False
            for o in par:
                name = body_.upvars.get(int(o.key)) if o.kind == 'upvar' and o.key is not None else body_.local_name(o.key) if o.kind == 'param' else None
                pi = next((i for i in range(1, tb.argc + 1) if tb.local_name(i) == name), None)
                sites = cg.call_sites(lambda c2: c2 == top_, within=graph)
                if pi is None or not sites:
                    return False
                for sb, sbb, _ in sites:
                    sfl = flow_of(sb)
                    arg = sb.blocks[sbb]['term']['args'][pi - 1]
                    if not (is_staging(sfl, arg) or staged_at_callers(sb, sfl.origins(arg), depth + 1)):
                        return False
            return True
        if c.endswith('OpenOptions::open'):
            # set_local_mtime opens the delivered file to set its mtime: the handle must flow only into set_modified / set_times
            l = t['dst']['l']
            uses = [callee(b.blocks[ubb]['term']) for (ubb, uidx, role) in fl._transitive_uses(l) if uidx == 'term' and b.blocks[ubb]['term']['k'] == 'call']
            # (the Result is unwrapped by `?` first)
            writes = [bb2 for bb2, t2 in fl.calls(lambda c2: c2.startswith('std::io::Write::') or c2.endswith('::set_len') or 'AsyncWriteExt' in c2)]
            n += 1
            po_ = fl.origins(t['args'][pos]) if pos < len(t['args']) else set()
            if writes and po_ and ((all(o.kind == 'call' and o.key == STAGING_FN for o in po_)) or staged_at_callers(b, po_)):
                # opened for writing, but at the staging name (append to / reopen the staged file): nothing live is written in place
                ctx.ok('C09.R4', '%s:open(staging)' % top.split('::')[-1], 'the file opened for writing is the staging file', term_loc(b, bb))
                continue
            ctx.check(not writes, 'C09.R4', '%s:open-for-mtime' % top.split('::')[-1], 'the opened handle is used for set_modified only',
                      '%s opens a destination file for writing and writes to it in place' % top, term_loc(b, bb))
            continue
        po = fl.origins(t['args'][pos])
        n += 1
        if all(o.kind == 'call' and o.key == STAGING_FN for o in po) and po:
            ctx.ok('C09.R4', '%s:%s(staging)' % (top.split('::')[-1], c.split('::')[-1]), 'content lands at a staging name', term_loc(b, bb))
            continue
        ok = staged_at_callers(b, po)
        if not ok:
            # `self.staged.as_deref().unwrap_or(&self.dst)`: the target is the staging name kept in an Option field, or the final
            # name when that field is None.  Decided where the struct is built: if every construction puts Some(<staging name>)
            # there, the final name is never written; if one can put None, a delivery can land in place.
            alt = _option_field_target(F, b, fl, po)
            if alt is not None:
                verdict, why_ = alt
                if verdict is None:
                    ctx.undecided('C09.R4', '%s: %s' % (top.split('::')[-1], why_))
                    continue
                ctx.check(verdict, 'C09.R4', '%s:%s' % (top.split('::')[-1], c.split('::')[-1]), why_,
                          '%s writes file content to the final name when %s: a kill leaves a truncated live file' % (top, why_), term_loc(b, bb))
                continue
        ctx.check(ok, 'C09.R4', '%s:%s' % (top.split('::')[-1], c.split('::')[-1]), 'content creator receives a staging path at every call site',
                  '%s creates file content directly at a non-staging destination path: a kill leaves a truncated live file' % top, term_loc(b, bb))
    if n < 2:
        ctx.missing('C09.R4', 'content creators under run_sync_recursive (found %d)' % n)


def _option_field_target(F, b, fl, po):
    """(True/False/None, text) for a path that is `<obj>.<opt field>` (Some) or else `<obj>.<path field>`; None when the
    operand is not of that shape"""
    real = [o for o in po if o.kind != 'comb']
    combs = [o for o in po if o.kind == 'comb']
    if not real or not combs or not all(o.kind in ('param', 'upvar') for o in real) or len({(o.kind, o.key) for o in real}) != 1:
        return None
    if not any(str(o.key).split('::')[-1] in ('unwrap_or', 'unwrap_or_else', 'map_or', 'map_or_else') for o in combs):
        return None
    fields = {tuple(e for e in o.path if not str(e).startswith('@') and not str(e).isdigit())[:1] for o in real}
    fields = {f[0] for f in fields if f}
    if len(fields) != 2:
        return None
    # the struct that has both fields, one of them an Option
    cands = []
    for name, adt in F.adts.items():
        for v in adt.get('variants', []):
            fs = {f.get('name'): f.get('ty', '') for f in v.get('fields', [])} if v.get('fields') and isinstance(v['fields'][0], dict) else {}
            if fields <= set(fs) and sum(1 for f in fields if 'Option<' in fs[f]) == 1:
                cands.append((name, next(f for f in fields if 'Option<' in fs[f])))
    if len(cands) != 1:
        return (None, 'the delivery target is kept in an Option field of a struct that was not identified')
    sname, optf = cands[0]
    n, none_at, other = 0, None, None
    for p_, bd in F.bodies.items():
        f2 = None
        for bi, blk in enumerate(bd.blocks):
            for st in blk['stmts']:
                rv = st['rv']
                if rv['k'] == 'agg' and rv.get('adt') == sname and optf in rv.get('fields', []):
                    f2 = f2 or flow_of(bd)
                    if bi not in f2.cfg.reachable():
                        continue
                    n += 1
                    os_ = [o for o in f2.origins(rv['ops'][rv['fields'].index(optf)]) if o.kind != 'comb']
                    for o in os_:
                        if o.kind == 'agg' and str(o.key) == 'std::option::Option::None':
                            none_at = (bd, bi)
                        elif o.kind == 'agg' and str(o.key) == 'std::option::Option::Some':
                            pass
                        elif o.kind == 'call' and o.key == STAGING_FN:
                            pass
                        else:
                            other = (bd, bi, o)
    short = sname.split('::')[-1]
    if n == 0:
        return (None, 'no construction of %s found' % short)
    if none_at is not None:
        return (False, '%s.%s is None (a construction of %s in %s can leave it empty)' % (short, optf, short, none_at[0].path.split('::{')[0].split('::')[-1]))
    if other is not None:
        return (None, 'what %s.%s holds is built in a way that is not read (%s)' % (short, optf, str(other[2].key)[:60]))
    return (True, 'every construction of %s stores Some(<staging name>) in .%s: the final name is never the copy target' % (short, optf))


def r5(ctx, F):
    """Staging names of the one-way sync are a pure function of the destination (`<dst>.copia-tmp`), and a run that is killed
    between creating its staging file and renaming it cannot clean up.  So the next run must take the leftover over: the
    staging file is opened truncating (`File::create`, `create(true).truncate(true)`).  An exclusive create fails with
    AlreadyExists on the leftover - on every later run, until somebody removes it by hand."""
    from callgraph import callgraph_of
    cg = callgraph_of(F)
    graph = cg.reach(['incremental::run_sync_recursive'])
    n = 0
    for b, bb, c in cg.call_sites(lambda c: c.endswith('OpenOptions::create_new') or c.endswith('File::create_new'), within=graph):
        t = b.blocks[bb]['term']
        fl = flow_of(b)
        if c.endswith('OpenOptions::create_new'):
            v = t['args'][1] if len(t['args']) > 1 else None
            if v is not None and v['k'] == 'const' and v.get('v') in (0, False):
                continue
        n += 1
        top = b.path.split('::{')[0].split('::')[-1]
        # a removal of the leftover in the same body before the claim makes the exclusive create harmless
        cleared = any(fl.cfg.dominates(rb, bb) for rb, rt in fl.calls(lambda x: x.endswith('fs::remove_file')))
        ctx.check(cleared, 'C09.R5', '%s:exclusive-create-on-a-delivery-path' % top, 'a leftover is removed before the exclusive create',
                  '%s opens a file of the delivery path with create_new: the staging file a killed run left behind makes this fail with "File exists" on every '
                  'later run - the same command no longer completes' % top, term_loc(b, bb))
    if n == 0:
        ctx.ok('C09.R5', 'no-exclusive-create', 'no create_new under run_sync_recursive: every staging file is opened truncating', None)
