"""C02 — bisync never loses a file version (DESIGN §7 C02)."""
from rules.common import *  # noqa: F401,F403
from rules.bisync import Bisync, RUN, APPLY, COPY
import tables

CONFIGS = ['cli']
LEVEL = 'other'
EXPLANATION = (
    'Decides necessary mechanism clauses, not the history-level statement: (R1) file removals in the bisync call graph are exactly the '
    'DeleteA/DeleteB arms of apply, on root_a.join(rel)/root_b.join(rel); (R2) every copy onto a name derived by the run (conflict-copy) is '
    'guarded by a look at what lives there; (R3) in the BothChanged arm the overwrite of the loser is guarded by the Ok edges of two copies of the '
    'loser, one per root; (R4) side consistency of winner/loser tuples, DeleteVsModify and Propagate arms; (R5) the map stored as the next archive '
    'derives from the loaded archive only through a filter over the two live scans; (R6) the decision table (C18): deletes need same(survivor, base); (R7) every non-dry-run Ok return of run_bisync passes Archive::save (the place where entries of paths gone from both sides are dropped); (R8) the collection the apply loop walks is the value reconcile() returned - re-ordering is accepted, retain/filter/drain between decision and apply is not. '
    '(R9) every value of the two scans that reconcile compares is fingerprint_path(<walked file>) - never a remembered fingerprint - and whether a walked file is recorded does not depend on a file time. R3 also: the copies that preserve the loser may be skipped only under a test that asks both of this run\'s scans about the copy\'s name (data and control dependence of the tested value); a skip decided from the archive alone is reported, one that consults both scans is not decided. Deliveries staged into a container and published in a loop over it are not decided by the per-call rules. Not decided: the no-loss statement over histories (follows from R1-R6 + C18 by the paper argument in DESIGN §7 C02); TOCTOU between scan and apply.')
ASSUMPTIONS = ['std::fs::copy/rename semantics', 'BTreeMap API semantics (get/contains_key/insert/remove/retain)']

REMOVERS = {'std::fs::remove_file', 'std::fs::remove_dir', 'std::fs::remove_dir_all', 'tokio::fs::remove_file', 'tokio::fs::remove_dir_all'}
LOOKERS = ('std::path::Path::exists', 'std::path::Path::try_exists', 'std::path::Path::symlink_metadata', 'std::path::Path::metadata',
           'std::fs::metadata', 'std::fs::symlink_metadata', 'meta::fingerprint_path', 'std::path::Path::is_file',
           'std::collections::BTreeMap::<K, V, A>::contains_key', 'std::collections::BTreeMap::<K, V, A>::get')


def deletes_only_on_delete_arms(ctx, F, rid):
    bs = Bisync(ctx, F, rid)
    cg, graph = bs.bisync_graph()
    sites = cg.call_sites(lambda c: c in REMOVERS, within=graph)
    fl = bs.afl
    seen_arms = set()
    for b, bb, c in sites:
        t = b.blocks[bb]['term']
        if is_staging_name(F, flow_of(b), t['args'][0]):
            ctx.ok(rid, '%s:%s:staging-cleanup' % (b.path.split('::{')[0].split('::')[-1], c.split('::')[-1]), 'removal of a reserved staging name (<path>.copia-tmp), not of a version', term_loc(b, bb))
            continue
        if b.path != APPLY:
            # staging cleanup of a reserved name is not a version removal
            ctx.bad(rid, '%s:%s' % (b.path, c), 'file removal in the bisync call graph outside apply\'s Delete arms', term_loc(b, bb))
            continue
        arms = bs.arm_of(bb)
        cls = bs.classify_path(t['args'][0])
        want = {'DeleteA': 'a', 'DeleteB': 'b'}
        arm = [a for a in arms if a in want]
        ok = len(arm) == 1 and cls[0] == 'live' and cls[1] == want[arm[0]]
        key = 'apply:%s:%s' % ('+'.join(arms) or 'unguarded', c.split('::')[-1])
        ctx.check(ok, rid, key, 'remove on %s of root_%s.join(rel)' % (arm[0] if arm else '?', cls[1]),
                  'remove_file in apply is not confined to the DeleteA/DeleteB arm on that side\'s reconciled path (arms %s, path %s)' % (arms, cls[:2]),
                  term_loc(b, bb))
        if ok:
            seen_arms.add(arm[0])
    for need in ('DeleteA', 'DeleteB'):
        if need not in seen_arms:
            ctx.bad(rid, 'apply:%s:exists' % need, 'the %s arm of apply removes nothing (or the removal is not recognisable)' % need, loc(bs.apply, bs.apply.lo))
    return bs


def run(ctx):
    F = ctx.F['cli']
    ctx.rule('C02.R1', 'remove_file in the bisync call graph: exactly the DeleteA/DeleteB arms of apply on that side\'s root.join(rel)', floor=2)
    ctx.rule('C02.R2', 'a copy onto a run-derived name (conflict-copy) is guarded by evidence about what lives there', floor=2)
    ctx.rule('C02.R3', 'BothChanged: the overwrite of the loser is guarded by the Ok edges of two copies of the loser (one per root)', floor=1)
    ctx.rule('C02.R4', 'side consistency: winner/loser tuples, DeleteVsModify source side, Propagate directions', floor=5)
    ctx.rule('C02.R5', 'the next archive derives from the loaded one only through a filter over both live scans', floor=1)
    ctx.rule('C02.R6', 'decision table: deletes only with same(survivor, base) (C18 engine)', floor=15)
    ctx.rule('C02.R7', 'every successful non-dry-run exit of run_bisync passes Archive::save (stale base entries are dropped there)', floor=1)
    bs = deletes_only_on_delete_arms(ctx, F, 'C02.R1')
    ctx.rule('C02.R8', 'the plan applied is exactly the value reconcile() returned (no filtering between decision and apply)', floor=1)
    ctx.attempt(bs.every_success_records, ctx, 'C02.R7')
    ctx.attempt(bs.plan_is_reconcile_result, ctx, 'C02.R8')
    ctx.rule('C02.R9', 'the two scans reconcile compares hold the fingerprint of the bytes on disk now: every value is fingerprint_path(<walked file>), never a remembered one', floor=2)
    from rules import bisync as _b
    ctx.attempt(_b.scan_is_content, ctx, F, 'C02.R9')
    fl = bs.afl
    cfg = fl.cfg
    copies = bs.copy_sites()
    if not copies and not bs.batched:
        ctx.missing('C02.R2', 'apply -> copy_atomic')
    BATCHED = ('apply stages its deliveries into a container and publishes them in a loop over it: which copy becomes visible before which is the '
               'order that container iterates in - the per-call rules do not decide it')
    if bs.batched:
        ctx.undecided('C02.R3', BATCHED)
    else:
        # ---- R2
        for cb, ct, src, dst in copies:
            arms = bs.arm_of(cb)
            if dst[0] == 'derived':
                # which side the copy lands on, by role not by variable name: the loser's content is the source of both
                # preservation copies, so "destination root == source root" is the loser's side, otherwise the winner's
                dl, sl = root_user_local(fl, b_arg(fl, ct, 1, 0)), root_user_local(fl, b_arg(fl, ct, 0, 0))
                same_side = dl is not None and dl == sl
                name = 'lose_root' if same_side else 'win_root'
                key = 'apply:%s:conflict-copy@%s' % ('+'.join(arms), name)
                guarded = False
                looked = set()       # which replica's scan was consulted ('a' / 'b'), or 'fs' for a look at the file system
                dst_sig = derived_sig(fl, dst[2])
                searched = set()
                for o in dst[2]:
                    if o.kind == 'call' and o.key == 'std::path::Path::join':
                        searched |= {str(x.key).split('::')[-1] for x in call_arg_origins(fl, o.bb, 1) if x.kind == 'call' and str(x.key).startswith('std::iter::Iterator::')}
                if not searched and chosen_by_bounded_search(fl, ct['args'][1]):
                    searched = {'bounded search with a fallback name'}
                if searched:
                    # `(0..).map(name).find(|c| free(c))`: the looks happen inside an iterator search that is not unfolded here
                    ctx.undecided('C02.R2', 'apply: the conflict-copy name is the result of an iterator search (%s): which scans it consults before accepting a name is not decided' % ', '.join(sorted(searched)))
                    continue
                for lb, lt in fl.calls(lambda c: c in LOOKERS):
                    args_o = set()
                    for a in lt['args']:
                        args_o |= fl.origins(a, mut_calls=True)
                    if derived_sig(fl, args_o) & dst_sig:
                        this = False
                        oc = fl.outcomes(lb)
                        if any(cfg.edges_guard(e, cb) for e in oc.values() if e):
                            guarded = this = True
                        # the look may be consumed by an Option/Result predicate (`.is_some_and(..)`, `.is_none()`, `.map_or(..)`):
                        # then the predicate's edges are the evidence
                        for ub, ut in fl.calls(lambda c: c.split('::')[-1] in ('is_some_and', 'is_some', 'is_none', 'is_none_or', 'map_or', 'is_ok', 'is_err', 'is_ok_and')):
                            if any(o.kind == 'call' and o.bb == lb for o in fl.origins(ut['args'][0])):
                                oc2 = fl.outcomes(ub)
                                if any(cfg.edges_guard(e, cb) for e in oc2.values() if e):
                                    guarded = this = True
                        if this:
                            m_o = fl.origins(lt['args'][0]) if lt['args'] else set()
                            looked.add('a' if bs.is_param(m_o, 'a') else 'b' if bs.is_param(m_o, 'b') else 'fs')
                # the copy lands on both replicas (one call per root): what is known about BOTH must be consulted - a look that
                # asks the second scan only when the first does not list the name misses an edit made on the second side only
                if guarded and 'fs' not in looked and looked != {'a', 'b'}:
                    guarded = False
                ctx.check(guarded, 'C02.R2', key, 'guarded by a look at the destination name on both replicas',
                          'conflict-copy is written with copy_atomic without looking at what already lives at the derived name: '
                          'an edited earlier conflict-copy with the same name is overwritten', term_loc(bs.apply, cb))
            elif dst[0] == 'other':
                ctx.bad('C02.R2', 'apply:%s:copy->unclassified' % '+'.join(arms),
                        'copy_atomic destination is neither root.join(rel) nor a recognised derived name', term_loc(bs.apply, cb))
        # ---- R3
        both = [c for c in copies if 'BothChanged' in bs.arm_of(c[0])]
        overwrites = [c for c in both if c[3][0] == 'live']
        if not overwrites:
            ctx.bad('C02.R3', 'apply:BothChanged:overwrite-exists', 'BothChanged arm does not write the winner onto the loser\'s path', loc(bs.apply, bs.apply.lo))
        for cb, ct, src, dst in overwrites:
            dsig = sig(dst[2])
            pres = [c for c in both if c[3][0] == 'derived' and sig(c[2][2]) == dsig]
            roots = {c[3][1] for c in pres}
            # per replica: the overwrite lies behind the Ok edge of a preserving step on that replica (several alternative steps -
            # a link with a copy as fall-back - count together: one of them has succeeded on every way to the overwrite)
            groots = set()
            for root in roots:
                edges = set()
                for c in pres:
                    if c[3][1] == root:
                        edges |= fl.outcomes(c[0]).get('Ok', set())
                if edges and cfg.edges_guard(edges, cb):
                    groots.add(root)
            if len(groots) < 2 and roots and len(roots) >= 2:
                # the preserving copies are skipped on some path: under which test?  If every copy that is missing from the guard
                # sits behind one edge of a test of a bool, the other edge is "nothing to stage again".  That can only be right when
                # the test looked at what BOTH replicas hold now under the copy's name (this run's scans): the archive describes the
                # end of the previous run.  A skip decided without both scans is reported; one that consults both is a statement
                # about values (which comparison, of what) - not decided here.
                skip_tests = []
                for sb in cfg.reachable():
                    st_ = bs.apply.blocks[sb]['term']
                    if st_['k'] != 'switch' or st_['on']['k'] == 'const' or st_['on']['p']['proj'] or bs.apply.local_ty(st_['on']['p']['l']) != 'bool':
                        continue
                    for tv, tb in [(tv, tb) for tv, tb in st_['targets']] + [('otherwise', st_['otherwise'])]:
                        e_ = {(sb, tb, tv)}
                        if all(cfg.edges_guard(e_, c[0]) for c in pres) and cfg.can_reach(sb, cb) and not cfg.edges_guard(e_, cb):
                            skip_tests.append((sb, st_))
                if skip_tests:
                    deps = set()
                    name_sig = set()
                    for c in pres:
                        name_sig |= derived_sig(fl, c[3][2])
                    for sb, st_ in skip_tests:
                        work, seen_ = [st_['on']], set()
                        # a bool built by control flow (`x == y && scans.iter().all(..)`) depends on the tests that pick its constant
                        work += [t2['on'] for _, t2 in fl.control_tests(st_['on'])]
                        while work and len(seen_) < 600:
                            cur = work.pop()
                            if cur['k'] == 'const':
                                continue
                            for o in fl.origins(cur, mut_calls=True):
                                k_ = (o.kind, str(o.key), o.bb)
                                if k_ in seen_:
                                    continue
                                seen_.add(k_)
                                if o.kind in ('call', 'mutcall') and o.bb is not None:
                                    targs_ = bs.apply.blocks[o.bb]['term'].get('args', [])
                                    if str(o.key) in LOOKERS and len(targs_) >= 2:
                                        # a look: which map, and is it asked about the copy's name?
                                        key_o = fl.origins(targs_[1], mut_calls=True)
                                        if derived_sig(fl, key_o) & name_sig:
                                            for role_ in ('a', 'b'):
                                                if bs.is_param(fl.origins(targs_[0]), role_):
                                                    deps.add(bs.roles.get(role_))
                                    work += [a for a in targs_ if a['k'] != 'const']
                                if o.kind == 'agg' and o.bb is not None:
                                    # an aggregate (the pair of scans, a struct, a closure with what it captured): its parts
                                    for st2 in bs.apply.blocks[o.bb]['stmts']:
                                        if st2['rv']['k'] == 'agg':
                                            work += [a for a in st2['rv']['ops'] if a['k'] != 'const']
                    scans_ = {bs.roles.get('a'), bs.roles.get('b')} - {None}
                    if len(scans_) == 2 and scans_ <= deps:
                        ctx.undecided('C02.R3', 'apply skips the preserving copies of a both-changed conflict under a test that consults both scans: that it holds only when both replicas already keep the loser under that name is not decided')
                        continue
                    ctx.bad('C02.R3', 'apply:BothChanged:preserve-skipped-without-both-scans',
                            'the copies that preserve the loser are skipped under a test that does not ask both of this run\'s scans about the copy\'s name (scans asked: %s of %s): '
                            'what an earlier run recorded says nothing about a copy the user has edited or removed since - the loser is overwritten with no copy left' % (
                                sorted(deps), sorted(scans_)), term_loc(bs.apply, skip_tests[0][0]))
                    continue
            ctx.check(len(groots) >= 2, 'C02.R3', 'apply:BothChanged:preserve-before-overwrite',
                      'overwrite guarded by Ok of loser copies on roots %s' % sorted(map(str, groots)),
                      'the loser is overwritten before it was preserved on both sides (preserving copies that guard the overwrite: roots %s of %s)' % (
                          sorted(map(str, groots)), sorted(map(str, roots))), term_loc(bs.apply, cb))
    # ---- R4
    if bs.batched:
        ctx.undecided('C02.R4', BATCHED)
    else:
        ctx.attempt(side_rules, ctx, bs, copies)
    # ---- R5
    ctx.attempt(archive_taint, ctx, bs)
    # ---- R10: every path is decided once (a merge pass that loses step decides a common path twice, as two one-sided ones:
    # the edit on one side is then overwritten by the old bytes of the other and deleted)
    ctx.rule('C02.R10', 'every path of the union is decided exactly once: a merge pass over the two scans compares their keys in the order the maps are sorted in', floor=1)
    from rules import C18 as _C18
    ctx.attempt(_C18.merge_order_for, ctx, F, 'C02.R10')
    # ---- R6
    from rules import C18
    leaves = C18.table_of(ctx, F, 'C02.R6')
    if leaves is not None:
        for v in C18.valuations(leaves):
            hits = C18.lookup(leaves, v)
            res = hits[0] if len(hits) == 1 else 'ambiguous'
            exp = C18.oracle(v)
            ok = (res == exp)
            ctx.check(ok, 'C02.R6', C18.vdesc(v), '-> %s' % res, 'decision %s at %s differs from the table (%s): a delete or overwrite may be unlicensed' % (res, C18.vdesc(v), exp),
                      'src/bin/copia/reconcile.rs (reconcile::reconcile_path)')


def b_arg(fl, ct, argi, join_arg):
    """operand `join_arg` of the Path::join that produced copy arg `argi`."""
    for o in fl.origins(ct['args'][argi]):
        if o.kind == 'call' and o.key == 'std::path::Path::join':
            return fl.body.blocks[o.bb]['term']['args'][join_arg]
    return ct['args'][argi]


def sig(os_):
    return frozenset((o.kind, o.key, o.bb, o.path) for o in os_)


def derived_sig(fl, os_):
    """Identity of a derived name: the to_owned/format calls it was built from."""
    out = set()
    for o in os_:
        if o.kind == 'call' and o.key == 'std::path::Path::join':
            for x in call_arg_origins(fl, o.bb, 1, mut_calls=True):
                if x.kind in ('call', 'mutcall') and x.key not in ('std::path::Path::join',):
                    out.add((x.kind, x.key, x.bb))
        elif o.kind in ('call', 'mutcall'):
            out.add((o.kind, o.key, o.bb))
    return {x for x in out if 'format' in x[1] or 'push' in x[1] or 'to_owned' in x[1] or 'short_hex' in x[1]}


def side_rules(ctx, bs, copies, direction=False):
    fl = bs.afl
    cfg = fl.cfg
    A = bs.apply
    # a delivery that takes its bytes from a DONOR - a file other than the peer's copy of this path (a sibling the scan saw with the
    # wanted hash): the scan is a snapshot, earlier actions of the same run rewrite files, so the donor has to be hashed at the time
    # of use.  No content check of any kind on the way = the copy delivers whatever the donor holds now (violation); with one,
    # whether the check is the right one is in the values (NO-VERDICT).  Donor copies are then left out of the direction rules.
    F_ = bs.F if hasattr(bs, 'F') else None
    donors = [c for c in copies if c[3][0] == 'live' and c[2][0] == 'other' and any(a in bs.arm_of(c[0]) for a in ('PropagateAtoB', 'PropagateBtoA', 'DeleteVsModify'))]
    if donors and F_ is not None:
        hashed = False
        for xb in [A] + [n for n in F_.nested(A.path.split('::{')[0]) if n is not A] + [bd for p_, bd in F_.bodies.items() if bd.file == A.file and '::{closure' in p_]:
            if flow_of(xb).calls(lambda c: c.endswith('fingerprint_path') or c in ('blake3::hash', 'blake3::Hasher::finalize')):
                hashed = True
        if hashed:
            ctx.undecided('C02.R4', 'apply can deliver from a local donor file (found through an index of the scan) after hashing something at the time of use: that the donor is the one hashed and the digest the wanted one is not decided')
        else:
            ctx.bad('C02.R4', 'apply:unverified-donor', 'apply delivers a path by copying ANOTHER file of the receiving side that the scan saw with the wanted hash, and never hashes it at the time of use: '
                    'an earlier action of the same run may have rewritten that file - the delivered bytes are then not the version the plan propagates, while the archive records the wanted hash', term_loc(A, donors[0][0]))
        copies = [c for c in copies if c not in donors]
    # Propagate arms
    for arm, s, d in (('PropagateAtoB', 'a', 'b'), ('PropagateBtoA', 'b', 'a')):
        cs = [c for c in copies if arm in bs.arm_of(c[0])]
        # (several call sites are fine when they are alternatives of one delivery - file vs symlink, checked vs unchecked -
        # as long as every one of them goes the right way)
        ok = len(cs) >= 1 and all(c[2][:2] == ('live', s) and c[3][:2] == ('live', d) for c in cs)
        ctx.check(ok, 'C02.R4', 'apply:%s:direction' % arm, 'copy root_%s/rel -> root_%s/rel' % (s, d),
                  '%s does not copy exactly root_%s.join(rel) onto root_%s.join(rel): %s' % (arm, s, d, [(c[2][:2], c[3][:2]) for c in cs]),
                  term_loc(A, cs[0][0]) if cs else loc(A, A.lo))
    # DeleteVsModify: copy from the side whose map contains rel
    dvm = [c for c in copies if 'DeleteVsModify' in bs.arm_of(c[0])]
    seen = set()
    for cb, ct, src, dst in dvm:
        ok = False
        if src[0] == 'live' and dst[0] == 'live' and src[1] != dst[1]:
            for kb, kt in fl.calls_to('std::collections::BTreeMap::<K, V, A>::contains_key', 'std::collections::BTreeMap::<K, V, A>::get'):
                m = fl.origins(kt['args'][0])
                k = fl.origins(kt['args'][1])
                if bs.is_param(m, src[1]) and bs.is_param(k, 'rel'):
                    oc = fl.outcomes(kb)
                    e = oc.get('true') or oc.get('Some')
                    if e and cfg.edges_guard(e, cb):
                        ok = True
        seen.add(src[1])
        ctx.check(ok, 'C02.R4', 'apply:DeleteVsModify:from-%s' % src[1], 'copy from side %s guarded by %s.contains_key(rel)' % (src[1], src[1]),
                  'DeleteVsModify copies %s -> %s without establishing that the source side holds the path' % (src[:2], dst[:2]), term_loc(A, cb))
    if seen != {'a', 'b'}:
        ctx.bad('C02.R4', 'apply:DeleteVsModify:both-sides', 'DeleteVsModify does not restore from both possible surviving sides (%s)' % sorted(map(str, seen)), loc(A, A.lo))
    # winner / loser: read per outcome of the digest comparison (independent of how the four values are kept)
    views = bs.winner_views()
    ok_t, detail = False, 'no single ordered comparison of the two sides\' digests found'
    if views:
        ok_t, detail = True, ''
        winners = set()
        for label, by_cmp, excl in views:
            with fl.restricted(excl):
                both = [c for c in bs.copy_sites() if 'BothChanged' in bs.arm_of(c[0])]
            over = [c for c in both if c[3][0] == 'live']
            pres = [c for c in both if c[3][0] == 'derived']
            if len({(c[2][:2], c[3][:2]) for c in over}) != 1 or over[0][2][0] != 'live' or over[0][2][1] not in ('a', 'b') or over[0][3][1] not in ('a', 'b') or over[0][2][1] == over[0][3][1]:
                ok_t, detail = False, 'on the %s edge the overwrite is not one copy root_X/rel -> root_Y/rel (%s)' % (label, [(c[2][:2], c[3][:2]) for c in over])
                continue
            X, Y = over[0][2][1], over[0][3][1]
            winners.add(X)
            if direction and X != by_cmp:
                ok_t, detail = False, 'on the %s edge side %s wins although the comparison favours side %s' % (label, X, by_cmp)
            # the fingerprints that go with the two roles: what is recorded at rel is the winner's, everything else the arm
            # records (the conflict copy) is the loser's - a swapped pair would later license a delete of the wrong content
            with fl.restricted(excl):
                for ib, it in fl.calls_to('std::collections::BTreeMap::<K, V, A>::insert'):
                    if 'BothChanged' not in bs.arm_of(ib) or not bs.is_param(fl.origins(it['args'][0]), 'common'):
                        continue
                    at_rel = bs.is_param(fl.origins(it['args'][1], mut_calls=True), 'rel')
                    vs = bs.fp_side(fl.origins(it['args'][2]))
                    if vs != ({X} if at_rel else {Y}):
                        ok_t, detail = False, 'on the %s edge the fingerprint recorded %s belongs to side %s, the %s is side %s' % (
                            label, 'at rel' if at_rel else 'for the conflict copy', sorted(vs), 'winner' if at_rel else 'loser', X if at_rel else Y)
            bad_pres = [c for c in pres if c[2][:2] != ('live', Y)]
            if bad_pres or not pres:
                ok_t, detail = False, 'on the %s edge the preserved copies do not hold the content that is overwritten (side %s): %s' % (label, Y, [c[2][:2] for c in pres])
        if ok_t and winners != {'a', 'b'}:
            ok_t, detail = False, 'the same side wins on both outcomes of the comparison (%s)' % sorted(winners)
    ctx.check(ok_t, 'C02.R4', 'apply:BothChanged:winner-tuple', ('greater digest wins; ' if direction else '') + 'winner / loser roots and fingerprints consistent on each edge of the comparison',
              'winner/loser selection is inconsistent: %s' % detail, loc(A, A.lo))


def archive_taint(ctx, bs):
    r = bs.rfl
    R = bs.run
    saves = r.calls_to('archive::Archive::save')
    if len(saves) != 1:
        ctx.missing('C02.R5', 'run_bisync -> Archive::save (exactly one)')
    sb, st = saves[0]
    # the `entries` field written before save
    ent = None
    for bi in r.cfg.reachable():
        for s in R.blocks[bi]['stmts']:
            pr = s['dst']['proj']
            if pr and isinstance(pr[-1], dict) and pr[-1].get('name') == 'entries':
                ent = (bi, s)
    if ent is None:
        ctx.missing('C02.R5', 'run_bisync: assignment to arc.entries')
    eo = r.origins(ent[1]['rv']['ops'][0], mut_calls=True)
    from_load = any(o.kind == 'call' and o.key == 'archive::Archive::load' for o in eo)
    if not from_load:
        ctx.ok('C02.R5', 'run_bisync:entries', 'next archive is rebuilt without the loaded entries', term_loc(R, sb))
        return
    # a retain over both live maps (= what reconcile got as its two scans) that dominates the save
    scan_keys = {}
    for rcb, rct in r.calls_to('reconcile::reconcile'):
        for side in (0, 1):
            scan_keys.setdefault(side, set()).update((x.kind, str(x.key), x.bb) for x in r.origins(rct['args'][side]) if x.kind == 'call')
    filt = False
    for cb, ct in r.calls(lambda c: c.endswith('::retain') or c.endswith('::extract_if')):
        tgt = r.origins(ct['args'][0], mut_calls=False)
        if not any(o.kind == 'call' and o.key == 'archive::Archive::load' for o in r.origins(ct['args'][0], mut_calls=True)) and \
           not any(o.kind == 'comb' for o in tgt):
            continue
        cl = [o for o in r.origins(ct['args'][1]) if o.kind == 'agg' and '::{closure' in str(o.key) and bs.F.body(str(o.key)) is not None]
        for c in cl:
            caps = set()
            for bi in r.cfg.reachable():
                for s in R.blocks[bi]['stmts']:
                    if s['rv']['k'] == 'agg' and s['rv'].get('ak') == 'closure' and norm(s['rv']['def']) == c.key:
                        for o in s['rv']['ops']:
                            ok_ = {(x.kind, str(x.key), x.bb) for x in r.origins(o) if x.kind == 'call'}
                            for side, keys in scan_keys.items():
                                if ok_ and ok_ <= keys:
                                    caps.add(side)
            if {0, 1} <= caps and r.cfg.dominates(cb, sb):
                filt = True
    ctx.check(filt, 'C02.R5', 'run_bisync:entries-unfiltered', 'loaded entries filtered by presence in a or b before save',
              'the next archive carries base entries for paths absent from both trees (no filter of the loaded entries over the two live scans): '
              'a path deleted on both sides and later recreated with its old content is deleted', term_loc(R, ent[0]))
