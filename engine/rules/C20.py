"""C20 — codecs round-trip and reject malformed input without crashing (DESIGN §7 C20)."""
from rules.common import *  # noqa: F401,F403
from rules import panics
from callgraph import callgraph_of
from terms import term_of, place_term, strip_payload
from flow import ENUMS

LEVEL = 'other'
EXPLANATION = (
    'Decides: (R1) FrameHeader::encode byte k -> field and decode field -> bytes are inverse tables (magic 0-3, little-endian length 4-7, type 8, '
    'version 9, little-endian flags 10-11; SIZE == 12); (R2) MessageType::from_u8 maps each discriminant to its variant and everything else to Err, '
    'Message::msg_type maps like-named variants with no wildcard; (R3) decode returns Ok only after validate Ok, validate implies magic == COPA, '
    'version == 1, length <= 16 MiB, and new() sets magic and version; (R4) write_message writes a header whose length is the length of the payload '
    'written next and rejects payloads above the bound; (R5) read_message sizes its buffer from a validated header only; (R6) only slice-based bincode '
    'decoding is used; (R7) no undischarged crate-local panic is reachable from the decoders or from copia delta|patch, and the asserting '
    'with_block_size constructors receive validated values only; (R8) every type crossing a codec implements both Serialize and Deserialize; (R9) in every body of both crates an allocation sized by a field of a decoded value (bincode / ciborium / serde_json / frame header) is dominated by a bound test or validator on that value (min(x, CONST) counts). '
    '(R10) every loop that fills a buffer from a reader in the decoders and CLI file readers leaves on the 0-byte outcome of the read (no spin at EOF). New code: a panic-capable site in a function that did not exist at the pinned commit, and surplus assertions that are all debug-only, are NO-VERDICT (unjudged), a site added to an existing function is a violation unless discharged. Two things are decided even there: an index computed from a field of a decoded structure that is never compared with the length of the indexed collection, and a debug assertion that relates two values taken straight from one decoded structure, are violations. R1 reads a field taken over from a crate constructor (`..Self::new(..)`) as that constructor\'s parameter or constant: a magic / version that is the constructor\'s own constant is not read from the header bytes. Not decided: value-level round-trip equality (serde/bincode/ciborium derive pairs are assumed inverse and to bound their own pre-allocation); hangs inside dependencies.')
ASSUMPTIONS = ['serde derive + bincode/ciborium encode/decode pairs are mutually inverse and bound their own pre-allocation by the input length']

CODEC_TYPES = {
    'lib': ['signature::Signature', 'signature::BlockSignature', 'delta::Delta', 'delta::DeltaOp', 'hash::StrongHash',
            'protocol::Message', 'protocol::MessageType'],
    'bin': ['wire::Request', 'wire::Response', 'reconcile::Fingerprint', 'reconcile::FileType', 'archive::Archive'],
}


def run(ctx):
    ctx.rule('C20.R1', 'FrameHeader encode/decode are inverse byte tables; SIZE == 12', floor=12)
    ctx.rule('C20.R2', 'from_u8 <-> discriminants; Message::msg_type maps like-named variants', floor=14)
    ctx.rule('C20.R3', 'decode Ok only after validate Ok; validate => magic, version, length <= MAX_PAYLOAD_SIZE; new() sets magic/version', floor=5)
    ctx.rule('C20.R4', 'write_message: header.length == payload.len() of the payload written next; rejects > MAX_PAYLOAD_SIZE', floor=2)
    ctx.rule('C20.R5', 'read_message: resize(header.length) only under validate Ok', floor=1)
    ctx.rule('C20.R6', 'only slice-based bincode::deserialize (no deserialize_from / from_reader on untrusted streams)', floor=2)
    ctx.rule('C20.R8', 'codec types implement both Serialize and Deserialize', floor=7)
    ctx.rule('C20.R10', 'no read loop on a hostile-input path can spin: a loop around read() leaves on the 0-byte (end of file) outcome', floor=1)
    ctx.rule('C20.R9', 'no allocation sized by a field of a value decoded from a file / frame without a bound test on that value', floor=1)
    for cfgname, F in ctx.F.items():
        r1(ctx, F)
        r2(ctx, F)
        r3(ctx, F)
        r4(ctx, F)
        r5(ctx, F)
        r6(ctx, F)
        r8(ctx, F)
    ctx.attempt(r9, ctx)
    ctx.attempt(announced_count_rule, ctx)
    ctx.attempt(r10, ctx)
    entries = ['protocol::FrameHeader::decode', 'protocol::FrameHeader::read_from', 'protocol::Message::decode',
               'protocol::Codec::read_message', 'run_delta', 'run_patch']
    ctx.attempt(panics.run_entries, ctx, 'C20.R7', entries, 'no undischarged crate-local panic reachable from the decoders / copia delta|patch; asserting constructors get validated values')


    # every asserting block-size constructor called from the CLI crate gets a validated value
    F = ctx.F.get('cli')
    if F is not None:
        cg = callgraph_of(F)
        n = 0
        for pf, argi in panics.PRECOND.items():
            for b, bb, c in cg.call_sites(lambda c: c == pf):
                if b.crate != 'bin':
                    continue
                n += 1
                top = b.path.split('::{')[0]
                ok = panics.precond_guarded(F, cg, b, bb, argi, 0)
                if ok is None:
                    ctx.undecided('C20.R7', '%s hands %s a value that a loader validated on a preamble of generic width decoded from the same bytes: that it is the same number is not decided' % (top, pf.split('::')[-1]))
                    continue
                ctx.check(ok, 'C20.R7', '%s:%s-unvalidated' % (top, pf.split('::')[-1]), 'argument validated before the asserting constructor',
                          '%s passes a value that was not validated to %s, which assert!s: a crafted input aborts the process' % (top, pf), term_loc(b, bb))
        if n < 4:
            ctx.missing('C20.R7', 'with_block_size call sites in the CLI crate (found %d, floor 4)' % n)


# ---------------------------------------------------------------- R10
READS = ('std::io::Read::read', 'tokio::io::AsyncReadExt::read', 'futures_util::AsyncReadExt::read')


def r10(ctx):
    """`copia delta|patch|signature` on hostile files must end: a loop that keeps calling read() until some counter derived from
    untrusted lengths is satisfied never ends when the file is shorter than announced (read returns Ok(0) for ever) - every
    such loop needs an exit on the zero-byte outcome (or read_exact, which fails at EOF)."""
    n = 0
    for cfgname, F in ctx.F.items():
        cg = callgraph_of(F)
        roots = [e for e in ('run_delta', 'run_patch', 'run_signature', 'async_sync::AsyncCopiaSync::patch', 'async_sync::AsyncCopiaSync::delta',
                             'async_sync::AsyncCopiaSync::signature', '<sync::CopiaSync as sync::Sync>::patch', '<sync::CopiaSync as sync::Sync>::delta',
                             'signature::Signature::generate', 'protocol::Codec::read_message') if F.body(e) is not None]
        for p_ in sorted(cg.reach(roots)):
            b = F.body(p_)
            if b is None or 'generated' in b.file or '::tests' in p_:
                continue
            fl = flow_of(b)
            cfg = fl.cfg
            loops = cfg.loops()
            if not loops:
                continue
            for rb, rt in fl.calls(lambda c: c in READS):
                inside = [h for h, blocks in loops.items() if rb in blocks]
                if not inside:
                    continue
                # the innermost loop around the read is the one that must give up at end of file (an outer loop is then
                # entered with "nothing read" and is judged by its own logic)
                inside = [min(inside, key=lambda h_: len(loops[h_]))]
                n += 1
                is_n = lambda os_: bool([o for o in os_ if o.kind != 'comb']) and all(o.kind == 'call' and o.bb == rb for o in os_ if o.kind != 'comb')
                z_e, nz_e = zero_test_edges(fl, is_n)
                ok = True
                for h in inside:
                    blocks = loops[h]
                    leaves = False
                    for (s_, t_, lab) in z_e:
                        if s_ in blocks and (t_ not in blocks or h not in cfg.reach(t_)):
                            leaves = True
                    if not leaves:
                        ok = False
                key = '%s:read-loop-ends-at-eof:%s' % (p_.split('::{')[0].split('::')[-1], cfgname)
                ctx.check(ok, 'C20.R10', key, 'the loop around read() has an exit on n == 0',
                          'a loop in %s keeps calling read() with no exit on the 0-byte outcome: when the file is shorter than the lengths the untrusted input announces '
                          '(a delta whose basis_size overstates the basis, a truncated file) read returns Ok(0) for ever and the command hangs instead of reporting an error'
                          % p_.split('::{')[0], term_loc(b, rb))
    if n == 0:
        ctx.missing('C20.R10', 'read loops on the hostile-input paths (found 0)')


# ---------------------------------------------------------------- R1
def byte_desc(t):
    """term of one encoded byte -> (field, j, endian)"""
    if t[0] == 'idx' and isinstance(t[2], int):
        base = t[1]
        if base[0] == 'field' and base[1][0] == 'param':
            return (base[2], t[2], None)
        if base[0] == 'call' and base[1] and (base[1].endswith('::to_le_bytes') or base[1].endswith('::to_be_bytes')):
            a = base[2][0]
            if a[0] == 'field' and a[1][0] == 'param':
                return (a[2], t[2], 'le' if base[1].endswith('to_le_bytes') else 'be')
    if t[0] == 'field' and t[1][0] == 'param':
        return (t[2], 0, None)
    if t[0] == 'cast' and t[1][0] == 'discr' and t[1][1][0] == 'field':
        return (t[1][1][2], 0, 'discr')
    return None


def r1(ctx, F):
    enc = F.body('protocol::FrameHeader::encode')
    dec = F.body('protocol::FrameHeader::decode')
    if enc is None or dec is None:
        ctx.missing('C20.R1', 'protocol::FrameHeader::encode/decode')
    efl, dfl = flow_of(enc), flow_of(dec)
    et = strip_payload(place_term(efl, {'l': 0, 'proj': []}, 0))
    size = F.consts.get('protocol::FrameHeader::SIZE', {}).get('val')
    if et[0] != 'array':
        # (not a violation: the layout is written in a way the table extraction does not read - e.g. filled by copy_from_slice)
        ctx.undecided('C20.R1', 'FrameHeader::encode does not return a byte array literal built element by element: layout table not extracted')
        return
    enc_table = {}
    for k, t in enumerate(et[1]):
        d = byte_desc(t)
        if d is None:
            ctx.bad('C20.R1', 'encode:byte%d' % k, 'byte %d of the encoded header is not a header field byte (%s)' % (k, str(t)[:80]), loc(enc, enc.lo))
            continue
        enc_table[k] = d
    # decode: the FrameHeader aggregate
    dec_fields = None
    for bi in dfl.cfg.reachable():
        for st in dec.blocks[bi]['stmts']:
            rv = st['rv']
            if rv['k'] == 'agg' and rv.get('adt') == 'protocol::FrameHeader':
                dec_fields = dict(zip(rv['fields'], [strip_payload(term_of(dfl, o)) for o in rv['ops']]))
    if dec_fields is None:
        ctx.missing('C20.R1', 'decode: FrameHeader{..} construction')

    def through_ctor(t):
        # `Self { flags, ..Self::new(kind, len) }`: a field taken over from what a crate constructor returned is that
        # constructor's field - one of its parameters (then the argument handed in here) or a constant of its own
        t0 = strip_payload(t)
        if t0[0] == 'field' and t0[1][0] == 'call' and F.body(t0[1][1]) is not None:
            cb_ = F.body(t0[1][1])
            cfl_ = flow_of(cb_)
            for bi_ in cfl_.cfg.reachable():
                for st_ in cb_.blocks[bi_]['stmts']:
                    rv_ = st_['rv']
                    if rv_['k'] == 'agg' and rv_.get('adt') == 'protocol::FrameHeader' and t0[2] in rv_.get('fields', []):
                        s_ = strip_payload(term_of(cfl_, rv_['ops'][rv_['fields'].index(t0[2])]))
                        if s_[0] == 'param' and 1 <= s_[1] <= len(t0[1][2]):
                            return strip_payload(t0[1][2][s_[1] - 1])
                        return s_
        return t
    dec_fields = {f_: through_ctor(t_) for f_, t_ in dec_fields.items()}
    dec_table = {}   # (field, j) -> (pos, endian)

    def buf_idx(t):
        t = strip_payload(t)
        if t[0] == 'idx' and t[1][0] == 'param' and isinstance(t[2], int):
            return t[2]
        return None
    for f, t in dec_fields.items():
        t = strip_payload(t)
        if t[0] == 'array':
            for j, e in enumerate(t[1]):
                dec_table[(f, j)] = (buf_idx(e), None)
        elif t[0] == 'call' and t[1] and (t[1].endswith('::from_le_bytes') or t[1].endswith('::from_be_bytes')):
            a = t[2][0]
            en = 'le' if t[1].endswith('from_le_bytes') else 'be'
            if a[0] == 'array':
                for j, e in enumerate(a[1]):
                    dec_table[(f, j)] = (buf_idx(e), en)
        elif t[0] == 'call' and t[1] in msg_type_decoders(F)[1]:
            dec_table[(f, 0)] = (buf_idx(t[2][0]), 'discr')
        elif buf_idx(t) is not None:
            dec_table[(f, 0)] = (buf_idx(t), None)
        else:
            ctx.bad('C20.R1', 'decode:%s' % f, 'decoded field %s is not read from header bytes (%s)' % (f, str(t)[:80]), loc(dec, dec.lo))
    for k in range(len(et[1])):
        if k not in enc_table:
            continue
        f, j, en = enc_table[k]
        d = dec_table.get((f, j))
        ok = d is not None and d[0] == k and d[1] == en
        ctx.check(ok, 'C20.R1', 'byte%d' % k, 'encode: byte %d = %s[%d]%s; decode reads it back' % (k, f, j, ' ' + en if en else ''),
                  'header byte %d is written as %s[%d] (%s) but decode reads %s[%d] from %s' % (k, f, j, en, f, j, d), loc(enc, enc.lo))
    ctx.check(size == 12 and len(et[1]) == 12 and len(dec_table) == 12, 'C20.R1', 'SIZE', 'SIZE == 12 == encoded bytes == decoded bytes',
              'header size mismatch: SIZE=%s, encode emits %d bytes, decode consumes %d' % (size, len(et[1]), len(dec_table)), loc(enc, enc.lo))
    # documented layout
    want = {0: ('magic', 0), 1: ('magic', 1), 2: ('magic', 2), 3: ('magic', 3), 4: ('length', 0), 5: ('length', 1), 6: ('length', 2),
            7: ('length', 3), 8: ('msg_type', 0), 9: ('version', 0), 10: ('flags', 0), 11: ('flags', 1)}
    lay = all(enc_table.get(k, (None, None, None))[:2] == v for k, v in want.items()) and \
        all(enc_table.get(k, (0, 0, 0))[2] == 'le' for k in (4, 5, 6, 7))
    ctx.check(lay, 'C20.R1', 'layout', 'magic 0-3 | LE length 4-7 | type 8 | version 9 | flags 10-11',
              'the encoded header layout differs from the documented one (magic first, little-endian length at 4..8)', loc(enc, enc.lo))


# ---------------------------------------------------------------- R2
def msg_type_decoders(F):
    """(functions that map a type byte to a MessageType by a switch on it, those plus the functions that hand their byte on
    to one of them): found by signature (one u8 in, Result/Option of MessageType out), not by name"""
    cands = {}
    for p_, b_ in list(F.bodies.items()) + list(getattr(F, 'inlined', {}).items()):
        if b_.kind != 'fn' or b_.argc != 1 or b_.local_ty(1) != 'u8' or '::tests' in p_:
            continue
        rt = b_.local_ty(0)
        if re.match(r'^std::(?:result::Result|option::Option)<(?:\w+::)*MessageType\b', rt):      # (wherever the type lives now)
            cands[p_] = b_
    tables = set()
    for p_, b_ in cands.items():
        fl_ = flow_of(b_)
        for bi in fl_.cfg.reachable():
            t = b_.blocks[bi]['term']
            if (b_.blocks[bi].get('from') or p_) != p_ and (b_.blocks[bi].get('from') or '') in cands:
                continue        # the switch of another decoder, spliced in for analysis: that one is the table
            if t['k'] == 'switch' and t['on']['k'] != 'const' and len(t['targets']) >= 2 and b_.local_ty(t['on']['p']['l']) == 'u8' and \
                    fl_.origins(t['on']) and all(o.kind == 'param' and o.key == 1 for o in fl_.origins(t['on'])):
                tables.add(p_)
    every = set(tables)
    for _ in range(3):
        for p_, b_ in cands.items():
            if p_ in every:
                continue
            fl_ = flow_of(b_)
            spliced = {blk.get('from') for blk in b_.blocks if blk.get('from') in every}
            if spliced:
                every.add(p_)
                continue
            conv = {'std::convert::TryFrom::try_from', 'std::convert::TryInto::try_into'} if any('TryFrom<u8>' in e_ for e_ in every) else set()
            cs = fl_.calls(lambda c: c in every or c in conv)      # (a call through the conversion trait an impl of which is a decoder)
            if cs and all(all(o.kind == 'param' and o.key == 1 for o in fl_.origins(ct['args'][0])) for _, ct in cs) and \
                    not any('MessageType' in str(st['rv'].get('adt', '')) for blk in b_.blocks for st in blk['stmts'] if st['rv']['k'] == 'agg'):
                every.add(p_)
    return sorted(tables), every


def r2(ctx, F):
    adt = F.adts.get('protocol::MessageType')
    tables, every = msg_type_decoders(F)
    if adt is None or not tables:
        ctx.missing('C20.R2', 'protocol::MessageType / a function mapping the type byte to it by a switch on the value')
    for tb_ in tables:
        r2_table(ctx, F, tb_, adt)
    m = F.body('protocol::Message::msg_type')
    madt = F.adts.get('protocol::Message')
    if m is None or madt is None:
        ctx.missing('C20.R2', 'protocol::Message::msg_type')
    r2_msg_type(ctx, F, m, madt, adt)


def r2_table(ctx, F, path, adt):
    b = F.body(path)
    fl = flow_of(b)
    cfg = fl.cfg
    discr = {v['discr']: v['name'] for v in adt['variants']}
    # the switch on the parameter
    table = {}
    otherwise = None
    for bi in cfg.reachable():
        t = b.blocks[bi]['term']
        if t['k'] == 'switch' and t['on']['k'] != 'const' and fl.origins(t['on']) and all(o.kind == 'param' and o.key == 1 for o in fl.origins(t['on'])) and b.local_ty(t['on']['p']['l']) == 'u8':
            for v, tgt in t['targets']:
                table[v] = tgt
            otherwise = t['otherwise']
    if not table:
        ctx.missing('C20.R2', 'from_u8: switch on the value')

    carriers = return_carriers(b)

    def result_of(tgt):
        # follow gotos to the block assigning the returned value
        seen = set()
        cur = tgt
        while cur not in seen:
            seen.add(cur)
            for st in b.blocks[cur]['stmts']:
                if st['dst']['l'] in carriers and not st['dst']['proj'] and st['rv']['k'] == 'agg' and st['rv'].get('vname') in ('Ok', 'Err'):
                    if st['rv']['vname'] == 'Ok':
                        tm = term_of(fl, st['rv']['ops'][0])
                        return ('Ok', tm[2] if tm[0] == 'adt' else '?')
                    return ('Err', None)
            t = b.blocks[cur]['term']
            if t['k'] in ('goto', 'call', 'drop') and t.get('target') is not None:
                cur = t['target']
            else:
                break
        return ('?', None)
    for v in range(0, 256):
        if v in discr or v in table:
            res = result_of(table.get(v, otherwise))
            exp = ('Ok', discr[v]) if v in discr else ('Err', None)
            ctx.check(res == exp, 'C20.R2', 'from_u8:%d' % v, '%d -> %s' % (v, res),
                      'MessageType::from_u8(%d) yields %s but the discriminant table says %s' % (v, res, exp), loc(b, b.lo))
    ctx.check(result_of(otherwise)[0] == 'Err', 'C20.R2', 'from_u8:other', 'every other byte -> Err',
              'MessageType::from_u8 accepts unknown type bytes', loc(b, b.lo))


def r2_msg_type(ctx, F, m, madt, adt):
    mfl = flow_of(m)
    names = [v['name'] for v in madt['variants']]
    arms = {}
    for bi in mfl.cfg.reachable():
        t = m.blocks[bi]['term']
        if t['k'] == 'switch':
            listed = {v: tgt for v, tgt in t['targets']}
            for i, n in enumerate(names):
                arms[n] = listed.get(i, t['otherwise'])
    for n, tgt in arms.items():
        got = None
        cur = tgt
        seen = set()
        while cur not in seen and got is None:
            seen.add(cur)
            for st in m.blocks[cur]['stmts']:
                if st['dst']['l'] == 0 and st['rv']['k'] == 'agg':
                    got = st['rv']['vname']
            t = m.blocks[cur]['term']
            if t['k'] == 'goto':
                cur = t['target']
            else:
                break
        ctx.check(got == n, 'C20.R2', 'msg_type:%s' % n, 'Message::%s -> MessageType::%s' % (n, got),
                  'Message::%s is framed with message type %s' % (n, got), loc(m, m.lo))
    if len(arms) < 7:
        ctx.missing('C20.R2', 'Message::msg_type: match over the 7 variants')


def validator_names(F):
    """FrameHeader::validate, and the private function validate hands its header to (`Ok(self.check()?)`) for code that asks
    that one directly"""
    v = F.body('protocol::FrameHeader::validate')
    vnames = {'protocol::FrameHeader::validate'}
    if v is not None:
        for blk in v.blocks:
            t_ = blk['term']
            if t_.get('inlined') and any(o.kind == 'param' and o.key == 1 for a in t_.get('inlined_args', [])[:1] if a['k'] != 'const' for o in flow_of(v).origins(a)):
                vnames.add(t_['inlined'])
    return sorted(vnames)


# ---------------------------------------------------------------- R3
def r3(ctx, F):
    v = F.body('protocol::FrameHeader::validate')
    d = F.body('protocol::FrameHeader::decode')
    n = F.body('protocol::FrameHeader::new')
    if v is None or d is None or n is None:
        ctx.missing('C20.R3', 'FrameHeader::validate/decode/new')
    dfl = flow_of(d)
    oks = ok_assign_blocks(d, 'Ok')
    vals = dfl.sites_of(*validator_names(F))
    good = bool(oks) and bool(vals) and all(any(dfl.guarded_by(ob, vb, 'Ok') for vb, _ in vals) for ob in oks)
    # the validated object is the returned one
    if good:
        for ob in oks:
            for st in d.blocks[ob]['stmts']:
                if st['dst']['l'] == 0 and st['rv']['k'] == 'agg':
                    ro = {(o.kind, o.key, o.bb) for o in dfl.origins(st['rv']['ops'][0])}
                    vo = set()
                    for vb, vt in vals:
                        vo |= {(o.kind, o.key, o.bb) for o in dfl.origins(vt['args'][0])}
                    good = good and bool(ro & vo)
    if not good and vals:
        # the same guarantee as a combinator: `header.validate().map(|()| header)` is Ok exactly when validate is
        rets = [(rb, kind, data) for (rb, kind, data) in ret_defs(d) if not (kind == 'call' and callee(data) == 'std::ops::FromResidual::from_residual')]
        via_map = bool(rets)
        for rb, kind, data in rets:
            if kind == 'assign' and data['k'] == 'agg' and data.get('vname') == 'Err':
                continue
            if not (kind == 'call' and callee(data) in ('std::result::Result::<T, E>::map', 'std::result::Result::<T, E>::and_then', 'std::result::Result::<T, E>::and')):
                via_map = False
                continue
            src = [o for o in dfl.origins(data['args'][0]) if o.kind != 'comb']
            if not (src and all(o.kind == 'call' and o.key == 'protocol::FrameHeader::validate' for o in src)):
                via_map = False
                continue
            # the closure hands back the validated header
            vo = set()
            for vb, vt in vals:
                vo |= {(o.kind, o.key, o.bb) for o in dfl.origins(vt['args'][0])}
            hands_back = False
            for o in dfl.origins(data['args'][1]):
                cb_ = F.body(o.key) if o.kind == 'agg' else None
                if cb_ is not None:
                    ro = [x for x in flow_of(cb_).origins(0) if x.kind != 'comb']
                    if ro and all(x.kind == 'upvar' for x in ro):
                        for blk in d.blocks:
                            for st in blk['stmts']:
                                rv = st['rv']
                                if rv['k'] == 'agg' and rv.get('ak') == 'closure' and norm(rv['def']) == cb_.path:
                                    for x in ro:
                                        co = {(y.kind, y.key, y.bb) for y in dfl.origins(rv['ops'][int(x.key)])}
                                        hands_back = hands_back or bool(co & vo)
            via_map = via_map and hands_back
        good = via_map
    ctx.check(good, 'C20.R3', 'decode:validate-guards-Ok', 'Ok(header) only after header.validate() returned Ok',
              'FrameHeader::decode can return a header that was not validated', loc(d, d.lo))
    vfl = flow_of(v)
    cfg = vfl.cfg
    voks = ok_assign_blocks(v, 'Ok')
    magic = F.consts.get('protocol::PROTOCOL_MAGIC', {})
    ver = F.consts.get('protocol::PROTOCOL_VERSION', {}).get('val')
    mx = F.consts.get('protocol::MAX_PAYLOAD_SIZE', {}).get('val')
    c_magic = c_ver = c_len = False
    for cb, ct in vfl.calls_to('std::cmp::PartialEq::eq', 'std::cmp::PartialEq::ne'):
        o0, o1 = vfl.origins(ct['args'][0]), vfl.origins(ct['args'][1])
        fld = lambda os_, f: bool(os_) and all(o.kind == 'param' and o.key == 1 and o.path == (f,) for o in os_)
        cst = lambda os_: bool(os_) and all(o.kind == 'const' for o in os_)
        if (fld(o0, 'magic') and cst(o1)) or (fld(o1, 'magic') and cst(o0)):
            cs = o1 if cst(o1) else o0
            if any('PROTOCOL_MAGIC' in str(o.key) or o.key == b'COPA' for o in cs):
                eq, ne = eq_edges(vfl, cb)
                c_magic = bool(eq) and all(cfg.edges_guard(eq, ob) for ob in voks)
    for bi in cfg.reachable():
        for st in v.blocks[bi]['stmts']:
            rv = st['rv']
            if rv['k'] != 'bin':
                continue
            oa, ob_ = vfl.origins(rv['ops'][0]), vfl.origins(rv['ops'][1])
            fld = lambda os_, f: bool(os_) and all(o.kind == 'param' and o.key == 1 and o.path == (f,) for o in os_)
            cv = lambda os_: [o.key for o in os_ if o.kind == 'const']
            oc = vfl.outcomes(None, st['dst']['l'])
            if rv['op'] in ('Eq', 'Ne') and ((fld(oa, 'version') and cv(ob_) == [ver]) or (fld(ob_, 'version') and cv(oa) == [ver])):
                e = oc.get('true' if rv['op'] == 'Eq' else 'false', set())
                c_ver = bool(e) and all(cfg.edges_guard(e, okb) for okb in voks)
            if rv['op'] in ('Gt', 'Le') and fld(oa, 'length') and cv(ob_) == [mx]:
                e = oc.get('false' if rv['op'] == 'Gt' else 'true', set())
                c_len = bool(e) and all(cfg.edges_guard(e, okb) for okb in voks)
            if rv['op'] in ('Lt', 'Ge') and fld(ob_, 'length') and cv(oa) == [mx]:
                e = oc.get('false' if rv['op'] == 'Lt' else 'true', set())
                c_len = bool(e) and all(cfg.edges_guard(e, okb) for okb in voks)
    ctx.check(c_magic, 'C20.R3', 'validate:magic', 'Ok only if magic == PROTOCOL_MAGIC', 'validate accepts a header with wrong magic', loc(v, v.lo))
    ctx.check(c_ver and ver == 1, 'C20.R3', 'validate:version', 'Ok only if version == PROTOCOL_VERSION (1)', 'validate accepts a header with a wrong version', loc(v, v.lo))
    ctx.check(c_len and mx == 16 * 1024 * 1024, 'C20.R3', 'validate:length', 'Ok only if length <= MAX_PAYLOAD_SIZE (16 MiB)',
              'validate accepts a header whose length exceeds the 16 MiB payload bound (MAX_PAYLOAD_SIZE=%s)' % mx, loc(v, v.lo))
    nfl = flow_of(n)
    tm = strip_payload(place_term(nfl, {'l': 0, 'proj': []}, 0))
    good = tm[0] == 'adt' and 'magic' in tm[3]
    if good:
        fm = dict(zip(tm[3], tm[4]))
        good = fm['magic'][0] == 'const' and 'PROTOCOL_MAGIC' in str(fm['magic'][1]) and fm['version'] == ('const', ver) and fm['length'][0] == 'param' and fm['msg_type'][0] == 'param'
    ctx.check(good, 'C20.R3', 'new', 'new() = {magic: PROTOCOL_MAGIC, version: PROTOCOL_VERSION, length: payload_len, msg_type}',
              'FrameHeader::new does not set COPA / version 1 / the given length', loc(n, n.lo))


# ---------------------------------------------------------------- R4/R5
def r4(ctx, F):
    b = work_body(F, 'protocol::Codec::write_message', ['protocol::FrameHeader::new'])
    if b is None:
        ctx.missing('C20.R4', 'protocol::Codec::write_message')
    fl = flow_of(b)
    cfg = fl.cfg
    news = fl.calls_to('protocol::FrameHeader::new')
    writes = fl.calls(lambda c: c == 'std::io::Write::write_all')
    nb, nt = news[0]
    lo = fl.origins(nt['args'][1])
    # length = try_from(payload.len())
    pay = set()
    for o in lo:
        if o.kind == 'call' and o.key == 'std::convert::TryFrom::try_from':
            for x in call_arg_origins(fl, o.bb, 0):
                if x.kind == 'call' and x.key.endswith('::len'):
                    pay |= {(y.kind, y.key, y.bb) for y in call_arg_origins(fl, x.bb, 0)}
    wrote = False
    for wb, wt in writes:
        wo = {(o.kind, o.key, o.bb) for o in fl.origins(wt['args'][1])}
        if pay and wo == pay and cfg.dominates(nb, wb):
            wrote = True
    hdr = fl.calls_to('protocol::FrameHeader::write_to')
    ctx.check(bool(pay) and wrote and bool(hdr), 'C20.R4', 'write_message:length=payload.len()', 'header length is u32::try_from(payload.len()) of the payload written after it',
              'write_message frames a payload with a length that is not the length of the bytes it writes', term_loc(b, nb))
    mx = F.consts.get('protocol::MAX_PAYLOAD_SIZE', {}).get('val')
    bounded = False
    for bi in cfg.reachable():
        for st in b.blocks[bi]['stmts']:
            rv = st['rv']
            if rv['k'] == 'bin' and rv['op'] in ('Gt', 'Le'):
                oa, ob_ = fl.origins(rv['ops'][0]), fl.origins(rv['ops'][1])
                if {(o.kind, o.key, o.bb) for o in oa} == {(o.kind, o.key, o.bb) for o in lo} and [o.key for o in ob_ if o.kind == 'const'] == [mx]:
                    oc = fl.outcomes(None, st['dst']['l'])
                    e = oc.get('false' if rv['op'] == 'Gt' else 'true', set())
                    if e and cfg.edges_guard(e, nb):
                        bounded = True
    ctx.check(bounded, 'C20.R4', 'write_message:bound', 'payload_len <= MAX_PAYLOAD_SIZE guards the header', 'write_message emits frames larger than the readers accept', term_loc(b, nb))


def r5(ctx, F):
    ALLOC = ('std::vec::Vec::<T, A>::resize', 'std::vec::from_elem', 'std::vec::Vec::<T>::with_capacity', 'std::vec::Vec::<T, A>::reserve')
    b = work_body(F, 'protocol::Codec::read_message', list(ALLOC))
    if b is None:
        ctx.missing('C20.R5', 'protocol::Codec::read_message (buffer sizing)')
    fl = flow_of(b)
    allocs = fl.calls(lambda c: c in ALLOC)
    reads = fl.calls_to('protocol::FrameHeader::read_from', 'protocol::FrameHeader::decode')
    vals = fl.calls_to('protocol::FrameHeader::validate')
    for ab, at in allocs:
        so = fl.origins(at['args'][1] if callee(at).endswith(('resize', 'from_elem')) else at['args'][0])
        if all(o.kind == 'const' for o in so):
            continue
        from_hdr = bool(so) and all(o.path[-1:] == ('length',) for o in so if o.kind != 'const')
        guarded = any(fl.guarded_by(ab, rb, 'Ok') for rb, _ in reads)
        # or: validate() Ok on the same header object
        for vb, vt in vals:
            vo = {(o.kind, o.key, o.bb) for o in fl.origins(vt['args'][0])}
            if vo and vo == {(o.kind, o.key, o.bb) for o in so if o.kind != 'const'} and fl.guarded_by(ab, vb, 'Ok'):
                guarded = True
        ctx.check(from_hdr and guarded, 'C20.R5', 'read_message:%s' % callee(at).split('::')[-1], 'sized by header.length of a header returned Ok by read_from (which validates)',
                  'read_message sizes its buffer from an unvalidated length', term_loc(b, ab))
    # read_from -> decode (validates)
    rf = F.body('protocol::FrameHeader::read_from')
    rfl = flow_of(rf)
    oks = [bb for bb, kind, data in ret_defs(rf) if kind == 'call' and callee(data) == 'protocol::FrameHeader::decode']
    other_ok = ok_assign_blocks(rf, 'Ok')
    if other_ok:
        # Ok(header) built in read_from itself is as good when it sits behind validate's Ok edge on that very header
        vs_ = rfl.sites_of(*validator_names(F))
        still = []
        for ob in other_ok:
            ro = set()
            for st in rf.blocks[ob]['stmts']:
                if st['rv']['k'] == 'agg' and st['rv'].get('vname') == 'Ok' and st['rv']['ops']:
                    ro |= {(o.kind, str(o.key), o.bb) for o in rfl.origins(st['rv']['ops'][0]) if o.kind != 'comb'}
            if not any(rfl.guarded_by(ob, vb, 'Ok') and ro and ro <= {(o.kind, str(o.key), o.bb) for o in rfl.origins(vt['args'][0]) if o.kind != 'comb'} for vb, vt in vs_ if vt['args']):
                still.append(ob)
        if not still and vs_:
            oks = oks or other_ok
        other_ok = still
    ctx.check(bool(oks) and not other_ok, 'C20.R5', 'read_from:via-decode', 'read_from returns decode(&buf) (validated)', 'FrameHeader::read_from can return a header without going through decode/validate', loc(rf, rf.lo))


def r6(ctx, F):
    cg = callgraph_of(F)
    bad = cg.call_sites(lambda c: c in ('bincode::deserialize_from', 'bincode::deserialize_from_custom', 'bincode::config::Options::deserialize_from'))
    ctx.check(not bad, 'C20.R6', 'no-deserialize_from:%s' % F.cfg, 'no stream-based bincode decoding',
              'bincode::deserialize_from is used in %s: stream decoding pre-allocates from untrusted length prefixes' % [b.path for b, _, _ in bad], None)
    sl = cg.call_sites(lambda c: c == 'bincode::deserialize')
    for b, bb, c in sl:
        ctx.ok('C20.R6', '%s:bincode::deserialize(slice)' % b.path.split('::{')[0], 'slice-based')


def r8(ctx, F):
    for crate, types in CODEC_TYPES.items():
        if crate not in F.crates:
            continue
        for ty in types:
            tr = {i['trait'] for i in F.impls if i['self'] == ty and i['crate'] == crate}
            ser = any(t.endswith('Serialize') for t in tr)
            de = any('Deserialize' in t for t in tr)
            if ty not in F.adts:
                ctx.missing('C20.R8', 'type %s' % ty)
            ctx.check(ser and de, 'C20.R8', ty, 'Serialize + Deserialize', '%s does not implement both Serialize and Deserialize (%s)' % (ty, sorted(tr)), None)


ALLOC_SIZED = {
    'std::vec::Vec::<T>::with_capacity': 0, 'std::vec::Vec::<T, A>::with_capacity_in': 0, 'std::vec::from_elem': 1,
    'std::vec::Vec::<T, A>::resize': 1, 'std::vec::Vec::<T, A>::reserve': 1, 'std::vec::Vec::<T, A>::reserve_exact': 1,
    'std::string::String::with_capacity': 0, 'std::collections::HashMap::<K, V>::with_capacity': 0,
    'std::collections::VecDeque::<T>::with_capacity': 0, 'bytes::BytesMut::with_capacity': 0,
}
DECODERS = ('bincode::deserialize', 'bincode::deserialize_from', 'ciborium::from_reader', 'serde_json::from_slice', 'serde_json::from_reader',
            'protocol::FrameHeader::decode', 'protocol::FrameHeader::read_from', 'protocol::Message::decode')


CLAMPS = ('min', 'clamp', 'cautious', 'saturating_sub', 'checked_div')


def announced_count_rule(ctx):
    """A hand-written serde visitor sees `SeqAccess::size_hint()` / `MapAccess::size_hint()`: for bincode that is the raw length
    prefix of the untrusted input.  serde's own collection visitors clamp it before reserving; one that hands it to
    `Vec::with_capacity` / `reserve` as it is lets a few bytes of input ask for any amount of memory (capacity overflow = panic,
    or an allocation far beyond the 16 MiB bound) before a single element has been read.  Decided per use of a size_hint in the
    crate: the announced count reaches an allocation size only through a clamp (`min` / `clamp` / serde's `cautious`), directly
    or inside the crate function / closure it is handed to."""
    rid = 'C20.R11'
    ctx.rule(rid, 'an element count announced by the input (serde size_hint) sizes an allocation only through a clamp', floor=0)
    ALLOC = ('with_capacity', 'reserve', 'reserve_exact', 'from_elem', 'resize', 'with_capacity_in')

    def clamped_fn(F, path, depth=0):
        """a crate fn / closure whose allocations take their size only through a clamp: True / False (allocates from its
        parameter unclamped) / None (does not allocate from it)"""
        b = F.body(path)
        if b is None or depth > 2:
            return None
        fl = flow_of(b)
        verdict = None
        for cb, ct in fl.calls(lambda c: c.split('::')[-1] in ALLOC):
            so = set()
            for a in ct['args']:
                if a['k'] != 'const' and 'usize' in b.local_ty(a['p']['l']):
                    so |= set(fl.origins(a, mut_calls=True))
            from_param = any(o.kind in ('param', 'upvar') for o in so)
            via_clamp = any(o.kind in ('call', 'comb') and str(o.key).split('::')[-1] in CLAMPS for o in so)
            via_fn = [str(o.key) for o in so if o.kind == 'call' and F.body(str(o.key)) is not None]
            if via_clamp or any(_has_clamp(F, f) for f in via_fn):
                verdict = True if verdict is None else verdict
            elif from_param:
                return False
        return verdict

    def _has_clamp(F, path):
        b = F.body(path)
        return b is not None and bool(flow_of(b).calls(lambda c: c.split('::')[-1] in CLAMPS))

    for cfgname, F in ctx.F.items():
        for path, b in F.bodies.items():
            if 'generated_contracts' in b.file:
                continue
            fl = flow_of(b)
            hints = [(cb, ct) for cb, ct in fl.calls(lambda c: c.endswith('Access::size_hint')) if cb in fl.cfg.reachable()]
            for hb, ht in hints:
                top = path.split('::{')[0].split('::')[-1] if '<' not in path else re.sub(r"^<([\w:]+).*>::(\w+)$", r'\1::\2', path).split('::', 1)[-1]
                key = '%s:size_hint' % top
                bad = None
                decided = False
                for bi in fl.cfg.reachable():
                    t = b.blocks[bi]['term']
                    if t['k'] != 'call' or bi == hb:
                        continue
                    c = callee(t) or ''
                    uses_hint = any(a['k'] != 'const' and any(o.kind == 'call' and o.bb == hb for o in fl.origins(a)) for a in t['args'])
                    if not uses_hint:
                        continue
                    short = c.split('::')[-1]
                    if short in ALLOC:
                        so = set()
                        for a in t['args']:
                            if a['k'] != 'const':
                                so |= set(fl.origins(a, mut_calls=True))
                        decided = True
                        if not any(o.kind in ('call', 'comb') and str(o.key).split('::')[-1] in CLAMPS for o in so):
                            bad = bad or (bi, 'handed to %s as it is' % short)
                    for a in t['args']:
                        # a function item / closure the hint is mapped through
                        fn = a.get('fn') if a['k'] == 'const' else None
                        if fn and fn.split('::')[-1].split('<')[0] in ALLOC:
                            decided = True
                            bad = bad or (bi, 'mapped through %s' % fn.split('::')[-1])
                        elif fn and F.body(fn) is not None:
                            v = clamped_fn(F, fn)
                            decided = decided or v is not None
                            if v is False:
                                bad = bad or (bi, 'mapped through %s, which allocates from it unclamped' % fn.split('::')[-1])
                        elif a['k'] != 'const':
                            for o in fl.origins(a):
                                if o.kind == 'agg' and F.body(str(o.key)) is not None:
                                    v = clamped_fn(F, str(o.key))
                                    decided = decided or v is not None
                                    if v is False:
                                        bad = bad or (bi, 'mapped through a closure that allocates from it unclamped')
                if bad:
                    ctx.bad(rid, key, '%s sizes an allocation by the element count the INPUT announces (SeqAccess::size_hint, %s): for bincode that is the raw length prefix - '
                            'a short hostile input panics with capacity overflow or reserves far more than the 16 MiB bound before any element is read' % (top, bad[1]), term_loc(b, bad[0]))
                elif decided:
                    ctx.ok(rid, key, 'the announced count reaches an allocation only through a clamp', term_loc(b, hb))


def r9(ctx):
    """ALLOC: in every body of both crates, an allocation whose size operand derives from a field of a decoded value
    (bincode / ciborium / serde_json / the frame-header decoder) must be edge-guarded by a comparison of that same value."""
    n_sites = 0
    for cfgname, F in ctx.F.items():
        for body in F.bodies.values():
            if 'generated_contracts' in body.file:
                continue
            fl = flow_of(body)
            decs = {cb for cb, ct in fl.calls(lambda c: c in DECODERS)}
            if not decs:
                continue
            for ab, at in fl.calls(lambda c: c in ALLOC_SIZED):
                CONV = ('std::convert::TryFrom::try_from', 'std::convert::TryInto::try_into', 'std::convert::Into::into', 'std::convert::From::from',
                        'std::cmp::Ord::min', 'std::cmp::min')
                so, work, seen_ = set(), [at['args'][ALLOC_SIZED[callee(at)]]], set()
                while work:
                    for o in fl.origins(work.pop()):
                        k_ = (o.kind, o.key, o.bb)
                        if k_ in seen_:
                            continue
                        seen_.add(k_)
                        if o.kind == 'call' and o.key in CONV[4:] and any(a_['k'] == 'const' for a_ in body.blocks[o.bb]['term']['args']):
                            continue      # min(x, CONST): bounded by construction
                        if o.kind == 'call' and o.key in CONV[:4]:
                            work.extend(body.blocks[o.bb]['term']['args'][:1])     # numeric conversions keep the value
                        else:
                            so.add(o)
                tainted = [o for o in so if o.kind == 'call' and o.bb in decs]
                if not tainted:
                    continue
                n_sites += 1
                ssig = {(o.kind, o.key, o.bb, tuple(o.path)) for o in tainted}
                guarded = False
                for bi in fl.cfg.reachable():
                    for st in body.blocks[bi]['stmts']:
                        rv = st['rv']
                        if rv['k'] == 'bin' and rv['op'] in ('Lt', 'Le', 'Gt', 'Ge') and not st['dst']['proj']:
                            for op_ in rv['ops']:
                                if {(o.kind, o.key, o.bb, tuple(o.path)) for o in fl.origins(op_)} & ssig:
                                    oc = fl.outcomes(None, st['dst']['l'])
                                    if any(es and fl.cfg.edges_guard(es, ab) for es in oc.values()):
                                        guarded = True
                # a validator call on the same value whose Ok edge guards the allocation (FrameHeader::validate, Delta::validate ...)
                for vb, vt in fl.calls(lambda c: c.split('::')[-1].startswith('validate')):
                    if fl.guarded_by(ab, vb, 'Ok'):
                        # the validated value is the size itself or an object that contains it (access path is a prefix)
                        for a_ in vt['args']:
                            for o in fl.origins(a_):
                                for (k, key, bb, pth) in ssig:
                                    if (o.kind, o.key, o.bb) == (k, key, bb) and tuple(o.path) == tuple(pth)[:len(o.path)]:
                                        guarded = True
                top = body.path.split('::{')[0]
                ctx.check(guarded, 'C20.R9', '%s:%s(%s)' % (top, callee(at).split('::')[-1], '.'.join(sorted({'.'.join(o.path) for o in tainted}))[:40]),
                          'allocation size compared with a bound before use',
                          '%s reserves memory sized by a field of a decoded (untrusted) value without testing it against a bound: a crafted file / frame '
                          'makes the process abort on allocation failure or capacity overflow' % top, term_loc(body, ab))
    if n_sites == 0:
        ctx.missing('C20.R9', 'an allocation sized from a decoded value (read_message resize)')
