"""C18 — the three-way reconcile decision is exactly the documented table (DESIGN §7 C18)."""
import itertools
import os
import re

from rules.common import *  # noqa: F401,F403
import dd
import extract

CONFIGS = ['cli']
LEVEL = 'proof'
EXHAUSTIVE = True
EXPLANATION = (
    'Decides the property: (R1) the decision DAG of reconcile_path is extracted from its MIR by abstract interpretation over the atoms '
    '{a/b/base present, same(a,b), same(a,base), same(b,base)} and compared with the table of the property statement on every '
    'consistent valuation (15 classes = presence pattern x equality partition; exhaustive). (R3) Mirror symmetry and "no Delete without a base" '
    'are read off the extracted function. Fingerprint::same is decided to be blake3== AND ftype== (R2), and fingerprints flow only into '
    '`same` (data independence: any other use is reported). reconcile() is checked to iterate keys(a) U keys(b), look each side up with the '
    'same path, take the base per C07.R4, reach reconcile_path for every path of the union before the next iteration (no fast path that skips the decision), and push exactly the non-Noop actions (R4). reconcile may be written as a loop or as a filter_map chain; the walked union must be sorted and duplicate-free (sort+dedup or an ordered set). The decision-DAG engine reads closures called by name, Option::filter and Option == Option, so a table written with helper closures is decided per field. (X1) The Lean mirror is evaluated on the same valuations as a '
    'cross-check (informational). (R5) = C07.R4 under this property: the base value handed to reconcile_path is None or exists only behind trust_base == true, in every body of reconcile (loop, closures, a variable that is the base behind the trust test and an empty map otherwise).')
ASSUMPTIONS = ['derived PartialEq on [u8;32] and on FileType is structural equality',
               'MIR of the analysed functions is loop-free (otherwise: no verdict)']

VOCAB = {'reconcile::Fingerprint::same': lambda args: dd.atom2('same', args[0], args[1])}


def extract_table(F):
    eng = dd.DD(F, VOCAB)
    leaves = eng.run('reconcile::reconcile_path', [dd.Opt('a'), dd.Opt('b'), dd.Opt('z')])
    return leaves, eng


SAME_FIELDS = ('blake3', 'ftype')      # Fingerprint equality of the property statement: content digest AND entry type


def field_mode(leaves):
    """fields compared directly in the decision function (equality helper written out): tuple of field names, or None when
    every comparison goes through the `same` vocabulary"""
    fs = set()
    for asg, _ in leaves or []:
        for atom in asg:
            if atom[0] == 'eq':
                for x in atom[1:]:
                    if '.' in str(x):
                        fs.add(str(x).split('.', 1)[1])
    if not fs:
        return None
    return tuple(sorted(set(SAME_FIELDS) | fs))


def _partitions(items):
    if not items:
        yield []
        return
    first, rest = items[0], items[1:]
    for p in _partitions(rest):
        for i in range(len(p)):
            yield p[:i] + [[first] + p[i]] + p[i + 1:]
        yield [[first]] + p


def valuations(leaves=None):
    """All consistent total valuations: presence x equality partition of present values.  When the function compares
    fingerprint fields itself, the partition is taken per field and same(x, y) is the conjunction over SAME_FIELDS."""
    names = ['a', 'b', 'z']
    fields = field_mode(leaves)
    out = []
    for pres in itertools.product([True, False], repeat=3):
        present = [n for n, p in zip(names, pres) if p]
        if not fields:
            for part in _partitions(present):
                cls = {n: i for i, blk in enumerate(part) for n in blk}
                v = {('has', n): p for n, p in zip(names, pres)}
                for x, y in itertools.combinations(present, 2):
                    v[('same', x, y)] = cls[x] == cls[y]
                out.append(v)
            continue
        for combo in itertools.product(list(_partitions(present)), repeat=len(fields)):
            v = {('has', n): p for n, p in zip(names, pres)}
            clss = [{n: i for i, blk in enumerate(part) for n in blk} for part in combo]
            for x, y in itertools.combinations(present, 2):
                for f, cls in zip(fields, clss):
                    v[('eq', '%s.%s' % (x, f), '%s.%s' % (y, f))] = cls[x] == cls[y]
                v[('same', x, y)] = all(cls[x] == cls[y] for f, cls in zip(fields, clss) if f in SAME_FIELDS)
            out.append(v)
    return out


def oracle(v):
    """The table of the property statement."""
    ha, hb, hz = v[('has', 'a')], v[('has', 'b')], v[('has', 'z')]
    s = lambda x, y: v[('same',) + tuple(sorted([x, y]))]
    if not ha and not hb:
        return 'Noop'
    if ha and hb:
        if s('a', 'b'):
            return 'Noop' if (hz and s('a', 'z')) else 'ConvergeIdentical'
        a_ch = (not hz) or not s('a', 'z')
        b_ch = (not hz) or not s('b', 'z')
        if a_ch and not b_ch:
            return 'PropagateAtoB'
        if b_ch and not a_ch:
            return 'PropagateBtoA'
        return 'Conflict(BothChanged)'
    if ha:
        if not hz:
            return 'PropagateAtoB'
        return 'DeleteA' if s('a', 'z') else 'Conflict(DeleteVsModify)'
    if not hz:
        return 'PropagateBtoA'
    return 'DeleteB' if s('b', 'z') else 'Conflict(DeleteVsModify)'


def lookup(leaves, v):
    hits = []
    for asg, val in leaves:
        ok = True
        for atom, truth in asg.items():
            if atom not in v:
                # atom about an absent value: unreachable combination
                ok = False
                break
            if v[atom] != truth:
                ok = False
                break
        if ok:
            hits.append(dd.show(val))
    return hits


def vdesc(v):
    pres = ''.join(n if v[('has', n)] else '-' for n in 'abz')
    eqs = ','.join('%s%s%s' % (k[1], '=' if t else '!=', k[2]) for k, t in sorted(v.items()) if k[0] == 'same')
    fld = ','.join('%s%s%s' % (k[1], '=' if t else '!=', k[2].split('.', 1)[0]) for k, t in sorted(v.items()) if k[0] == 'eq')
    return '%s[%s]' % (pres, eqs) + ('{%s}' % fld if fld else '')


MIRROR = {'PropagateAtoB': 'PropagateBtoA', 'PropagateBtoA': 'PropagateAtoB', 'DeleteA': 'DeleteB', 'DeleteB': 'DeleteA'}


def swap(v):
    m = {'a': 'b', 'b': 'a', 'z': 'z'}
    out = {}
    for k, t in v.items():
        if k[0] == 'has':
            out[('has', m[k[1]])] = t
        elif k[0] == 'same':
            x, y = sorted([m[k[1]], m[k[2]]])
            out[('same', x, y)] = t
        else:
            ren = lambda q: m[q.split('.', 1)[0]] + '.' + q.split('.', 1)[1]
            x, y = sorted([ren(k[1]), ren(k[2])])
            out[(k[0], x, y)] = t
    return out


def table_of(ctx, F, rid):
    try:
        leaves, eng = extract_table(F)
    except dd.DataDependence as e:
        ctx.bad(rid, 'reconcile_path:data-independence',
                'reconcile_path uses a fingerprint other than through Fingerprint::same: %s' % e, None)
        return None
    except dd.Undecided as e:
        from verdict import NoVerdict
        raise NoVerdict('undecided: reconcile_path %s' % e)
    return leaves


def no_delete_without_base(ctx, F, rid):
    leaves = table_of(ctx, F, rid)
    if leaves is None:
        return
    for v in valuations(leaves):
        if v[('has', 'z')]:
            continue
        hits = lookup(leaves, v)
        res = hits[0] if len(hits) == 1 else 'ambiguous:%s' % hits
        exp = oracle(v)
        ctx.check(res == exp and not res.startswith('Delete'), rid, 'no-base:' + vdesc(v), '-> %s' % res,
                  'with no base, reconcile_path(%s) yields %s (expected %s; never a delete)' % (vdesc(v), res, exp), 'src/bin/copia/reconcile.rs (reconcile::reconcile_path)')


def run(ctx):
    F = ctx.F['cli']
    ctx.rule('C18.R1', 'reconcile_path equals the documented table on every consistent valuation', floor=15)
    ctx.rule('C18.R2', 'Fingerprint::same == (blake3 == blake3) AND (ftype == ftype); fingerprints flow only into `same`', floor=1)
    ctx.rule('C18.R3', 'mirror symmetry; no Delete* without a base', floor=15)
    ctx.rule('C18.R4', 'reconcile: union of both key sets, every path decided by reconcile_path, same path for every lookup, pushes exactly the non-Noop actions', floor=5)
    ctx.rule('C18.X1', 'cross-check: Lean mirror lean/BidirectionalReconcile.lean agrees on every valuation (informational)')
    where = 'src/bin/copia/reconcile.rs (reconcile::reconcile_path)'
    leaves = table_of(ctx, F, 'C18.R2')
    if leaves is None:
        return
    ctx.note('decision DAG: %d leaves explored' % len(leaves))
    table = {}
    vals = valuations(leaves)
    for v in vals:
        hits = lookup(leaves, v)
        res = hits[0] if len(hits) == 1 else 'ambiguous:%s' % hits
        table[vdesc(v)] = res
        exp = oracle(v)
        ctx.check(res == exp, 'C18.R1', vdesc(v), '-> %s' % res,
                  'reconcile_path(%s) yields %s, the documented table says %s' % (vdesc(v), res, exp), where)
    for v in vals:
        r1 = table[vdesc(v)]
        r2 = table[vdesc(swap(v))]
        sym = MIRROR.get(r1, r1) == r2
        nodel = v[('has', 'z')] or not r1.startswith('Delete')
        ctx.check(sym and nodel, 'C18.R3', vdesc(v), 'mirror(%s) == %s' % (r1, r2),
                  'reconcile_path is not mirror-symmetric or deletes without a base at %s: %s vs swapped %s' % (vdesc(v), r1, r2), where)
    ctx.attempt(same_rule, ctx, F)
    ctx.attempt(reconcile_rule, ctx, F)
    # "with every base ignored when the base is untrusted": the base value handed to reconcile_path is None, or exists only behind
    # trust_base == true - in every body of reconcile, whatever shape the walk has (= C07.R4, run under this property)
    ctx.rule('C18.R5', 'reconcile: the base value handed to reconcile_path is None or exists only behind trust_base == true (= C07.R4)', floor=1)
    from rules import C07
    ctx.attempt(C07.r4, RidProxy(ctx, {'C07.R4': 'C18.R5'}), F)
    ctx.attempt(lean_crosscheck, ctx, vals, table)


RAW_VIEWS = ('as_os_str', 'as_encoded_bytes', 'to_string_lossy', 'to_str', 'as_bytes', 'as_str', 'display', 'to_string', 'into_os_string')


def merge_order_raw(F, type_paths):
    """(body, bb) of a comparison of two paths as raw bytes / strings inside the methods of a hand-written merge iterator"""
    for tp in type_paths:
        base = re.sub(r'<.*$', '', str(tp))
        for pth, hb in list(F.bodies.items()) + list(getattr(F, 'inlined', {}).items()):
            flat = re.sub(r"<[^<>]*>", '', pth)
            if base.split('::')[-1] not in flat or '::tests' in pth:
                continue
            hfl = flow_of(hb)
            for cb_, ct_ in hfl.calls(lambda c: c in ('std::cmp::Ord::cmp', 'std::cmp::PartialOrd::partial_cmp', 'std::cmp::PartialOrd::lt', 'std::cmp::PartialOrd::le',
                                                     'std::cmp::PartialOrd::gt', 'std::cmp::PartialOrd::ge')):
                tys = ' '.join(hb.local_ty(a['p']['l']) for a in ct_['args'] if a['k'] != 'const')
                if not ('Path' in tys or 'OsStr' in tys or 'str' in tys or '[u8]' in tys):
                    continue
                raw = 'Path' not in tys or any(o.kind == 'call' and str(o.key).split('::')[-1] in RAW_VIEWS for a in ct_['args'] if a['k'] != 'const' for o in hfl.origins(a))
                if raw:
                    return (hb, cb_)
    return None


def merge_order_for(ctx, F, rid):
    """the same statement as a rule of its own (run under C06 / C02): a hand-written iterator of the reconcile module that
    merges the two scans must compare their keys as paths"""
    types_ = sorted({re.sub(r'<.*$', '', i['self']) for i in F.impls if i['trait'].startswith('std::iter::Iterator') and i['self'].startswith('reconcile::')})
    if not types_:
        rb = work_body(F, 'reconcile::reconcile', ['reconcile::reconcile_path']) or F.body('reconcile::reconcile')
        if rb is not None:
            for xb in [rb] + [x for x in F.nested('reconcile::reconcile') if x.path != rb.path]:
                xfl = flow_of(xb)
                peeks = xfl.calls(lambda c: c.endswith('::peekable') or c.endswith('::peek'))
                for cb_, ct_ in xfl.calls(lambda c: c in ('std::cmp::Ord::cmp', 'std::cmp::PartialOrd::partial_cmp', 'std::cmp::PartialOrd::lt', 'std::cmp::PartialOrd::le',
                                                         'std::cmp::PartialOrd::gt', 'std::cmp::PartialOrd::ge')):
                    tys = ' '.join(xb.local_ty(a['p']['l']) for a in ct_['args'] if a['k'] != 'const')
                    if ('Path' in tys or 'OsStr' in tys) and ('Path' not in tys or any(o.kind == 'call' and str(o.key).split('::')[-1] in RAW_VIEWS for a in ct_['args'] if a['k'] != 'const' for o in xfl.origins(a))):
                        ctx.bad(rid, 'reconcile:merge-order', 'reconcile merges the two scans and compares their keys as raw bytes / strings (the maps iterate in Path order, where `report/draft.md` < `report.txt`): '
                                'around such a pair a path present on both sides is decided twice - an edit is overwritten by the old bytes and then deleted, a divergent pair loses one version', term_loc(xb, cb_))
                        return
                    if ('Path' in tys or 'OsStr' in tys) and peeks:
                        ctx.undecided(rid, 'reconcile merges the two scans itself (keys compared as paths): that every path is decided exactly once is not decided')
                        return
        ctx.ok(rid, 'reconcile:no-merge-pass', 'reconcile looks every path of the union up in both scans (no merge pass)', None)
        return
    raw = merge_order_raw(F, types_)
    if raw is not None:
        ctx.bad(rid, 'reconcile:merge-order', 'reconcile walks the two scans in one merge pass and compares the heads as raw bytes / strings (the maps iterate in Path order, where `notes/list.md` < `notes.txt`): '
                'around such a pair a path present on both sides is decided twice - a divergent edit is taken for delete-vs-modify and one version is lost, the recorded state is not the tree '
                'that was left, and which directory is named first changes the outcome', term_loc(raw[0], raw[1]))
    else:
        ctx.undecided(rid, 'reconcile walks a hand-written iterator (%s): that every path is decided exactly once is not decided' % types_[0])


def same_rule(ctx, F):
    b = F.body('reconcile::Fingerprint::same')
    if b is None:
        # no equality helper: reconcile_path compares the fields itself, and C18.R1 has judged those comparisons on every
        # per-field valuation (a digest match with a type mismatch is "not the same" in the table)
        leaves_ = table_of(ctx, F, 'C18.R2')
        fm = field_mode(leaves_)
        if fm:
            ctx.ok('C18.R2', 'same:table', 'fingerprint equality is written out in reconcile_path over the fields %s and judged by the table' % (fm,), None)
            return
        ctx.missing('C18.R2', 'reconcile::Fingerprint::same')
    eng = dd.DD(F, {})
    try:
        leaves = eng.run('reconcile::Fingerprint::same', [dd.Sym('x'), dd.Sym('y')])
    except (dd.Undecided, dd.DataDependence) as e:
        ctx.bad('C18.R2', 'same:shape', 'Fingerprint::same is not a pure conjunction of field equalities: %s' % e, loc(b, b.lo))
        return
    a_b = ('eq', 'x.blake3', 'y.blake3')
    a_f = ('eq', 'x.ftype', 'y.ftype')
    ok = True
    detail = []
    for vb in (True, False):
        for vf in (True, False):
            v = {a_b: vb, a_f: vf}
            res = None
            for asg, val in leaves:
                if all(k in v and v[k] == t for k, t in asg.items()):
                    if val[0] == 'const':
                        res = bool(val[1])
                    elif val[0] == 'bool':
                        r = dd.eval_formula(val[1], v)
                        res = r if r in (True, False) else None
            detail.append('blake3%s,ftype%s->%s' % ('=' if vb else '!=', '=' if vf else '!=', res))
            if res != (vb and vf):
                ok = False
    atoms = set()
    for asg, val in leaves:
        atoms |= set(asg.keys())
        if val[0] == 'bool':
            def coll(f):
                if isinstance(f, tuple):
                    if f[0] == 'atom':
                        atoms.add(f[1])
                    else:
                        for x in f[1:]:
                            coll(x)
            coll(val[1])
    ok = ok and atoms <= {a_b, a_f}
    ctx.check(ok, 'C18.R2', 'same:table', '; '.join(detail),
              'Fingerprint::same is not (blake3 == blake3) && (ftype == ftype): %s; atoms %s' % ('; '.join(detail), sorted(atoms)), loc(b, b.lo))


def reconcile_rule(ctx, F):
    b = F.body('reconcile::reconcile')
    if b is None:
        ctx.missing('C18.R4', 'reconcile::reconcile')
    fl = flow_of(b)
    cfg = fl.cfg
    a_i, b_i = param_index(b, 'a') or 1, param_index(b, 'b') or 2
    # the iterated collection derives from keys(a) and keys(b)
    nexts = fl.calls_to('std::iter::Iterator::next')
    rp = fl.calls_to('reconcile::reconcile_path')
    if not rp and chain_form(ctx, F, b, fl, a_i, b_i):
        return
    if not rp or not nexts:
        ctx.missing('C18.R4', 'reconcile loop / reconcile_path call')
    it_o = set()
    for nb, nt in nexts:
        it_o |= fl.origins(nt['args'][0], mut_calls=False)
    keys_of = set()
    for o in it_o:
        if o.kind == 'call' and o.key == 'std::iter::Iterator::collect':
            pass
    # follow: collect(chain(keys(a), keys(b))) through order-only adaptors
    PASS = ('std::iter::Iterator::chain', 'std::iter::Iterator::collect', 'std::iter::IntoIterator::into_iter',
            'std::iter::Iterator::cloned', 'std::iter::Iterator::copied', 'std::iter::Iterator::next')
    restricting = []

    def deep(os_, depth=0):
        out = set()
        for o in os_:
            if o.kind == 'call' and o.bb is not None and depth < 8:
                t = b.blocks[o.bb]['term']
                if o.key.endswith('::keys'):
                    for x in fl.origins(t['args'][0]):
                        if x.kind == 'param':
                            out.add(x.key)
                elif o.key in PASS:
                    for a in t['args']:
                        out |= deep(fl.origins(a), depth + 1)
                else:
                    restricting.append(o.key)
        return out
    srcs = deep(it_o)
    # a hand-written iterator (a crate type with its own `impl Iterator`, e.g. a merge of the two sorted key streams): what it
    # yields is decided by its `next`, which these rules do not read
    custom_iter = sorted({o.key for o in it_o if o.kind == 'call' and F.body(str(o.key)) is not None and
                          any(i['trait'].startswith('std::iter::Iterator') and re.sub(r'<.*$', '', i['self']) in re.sub(r'<.*$', '', F.body(str(o.key)).local_ty(0)) for i in F.impls)})
    custom_iter += sorted({callee_resolved(nt) for nb, nt in nexts if callee_resolved(nt) and F.body(callee_resolved(nt)) is not None})
    # .. or a value of such a type built in place (its constructor spliced in)
    for o in it_o:
        if o.kind == 'agg' and any(i['trait'].startswith('std::iter::Iterator') and re.sub(r'<.*$', '', i['self']) == re.sub(r'::[^:]+$', '', str(o.key)) for i in F.impls):
            custom_iter.append(re.sub(r'::[^:]+$', '', str(o.key)))
    # .. or the merge pass written out in reconcile itself: two peekable walks whose heads are compared
    inline_merge = None
    if not custom_iter:
        for xb in [b] + [x for x in F.nested('reconcile::reconcile') if x.path != b.path]:
            xfl = flow_of(xb)
            for cb_, ct_ in xfl.calls(lambda c: c in ('std::cmp::Ord::cmp', 'std::cmp::PartialOrd::partial_cmp', 'std::cmp::PartialOrd::lt', 'std::cmp::PartialOrd::le',
                                                     'std::cmp::PartialOrd::gt', 'std::cmp::PartialOrd::ge')):
                tys = ' '.join(xb.local_ty(a['p']['l']) for a in ct_['args'] if a['k'] != 'const')
                if 'Path' in tys or 'OsStr' in tys:
                    raw_ = 'Path' not in tys or any(o.kind == 'call' and str(o.key).split('::')[-1] in RAW_VIEWS for a in ct_['args'] if a['k'] != 'const' for o in xfl.origins(a))
                    if inline_merge is None or raw_:
                        inline_merge = (xb, cb_, raw_)
        if inline_merge is not None and fl.calls(lambda c: c.endswith('::peekable') or c.endswith('::peek')):
            custom_iter = ['a merge pass over both scans']
    if custom_iter:
        raw = merge_order_raw(F, custom_iter) if inline_merge is None else ((inline_merge[0], inline_merge[1]) if inline_merge[2] else None)
        if raw is not None:
            rb_, rbb_ = raw
            ctx.bad('C18.R4', 'reconcile:merge-order', 'reconcile walks the two scans in one merge pass and compares the heads as raw bytes / strings: the maps iterate in Path (component) '
                    'order, where `notes/list.md` < `notes.txt`, the bytes say the opposite - around such a pair the pass loses step and a path present on both sides is decided twice, '
                    'once as "only A" and once as "only B" (a divergent edit is taken for delete-vs-modify, an untouched file for a delete)', term_loc(rb_, rbb_))
        else:
            ctx.undecided('C18.R4', 'reconcile walks a hand-written iterator (%s): that it yields every path of both sides exactly once, in order, is not decided' % custom_iter[0])
    ctx.check(custom_iter or (srcs == {a_i, b_i} and not restricting), 'C18.R4', 'reconcile:union', 'loop ranges over keys(a) U keys(b)',
              'reconcile does not iterate over the full union of both sides\' paths (key sources: params %s; restricting adaptors: %s)' % (
                  sorted(srcs), sorted(set(restricting))), loc(b, b.lo))
    for cb, ct in rp:
        good = True
        why = []
        pvar = None
        for i, side in (() if custom_iter else ((0, a_i), (1, b_i))):
            os_ = fl.origins(ct['args'][i])
            gets = [o for o in os_ if o.kind == 'call' and o.key.endswith('::get')]
            if len(gets) != len(os_) or not gets:
                good = False
                why.append('arg %d is not a map lookup' % i)
                continue
            for g in gets:
                m = call_arg_origins(fl, g.bb, 0)
                k = call_arg_origins(fl, g.bb, 1)
                if not all(x.kind == 'param' and x.key == side for x in m):
                    good = False
                    why.append('arg %d looked up in the wrong map' % i)
                kk = frozenset((x.kind, x.key, x.bb) for x in k)
                if pvar is None:
                    pvar = kk
                elif kk != pvar:
                    good = False
                    why.append('sides looked up with different paths')
                if not all(x.kind == 'call' and x.key == 'std::iter::Iterator::next' for x in k):
                    good = False
                    why.append('lookup key is not the loop variable')
        ctx.check(good, 'C18.R4', 'reconcile:lookups', 'reconcile_path(a.get(p), b.get(p), z) with the loop variable p',
                  'reconcile calls reconcile_path with wrong operands: %s' % '; '.join(why), term_loc(b, cb))
        # push iff act != Noop: the test is `act != Action::Noop` / `==`, or a `match` on the action itself
        pushes = fl.calls_to('std::vec::Vec::<T, A>::push')
        # (several copies of the loop - one per base source, say - each have their own push: the one of this iteration)
        heads_ = set(cfg.loops().keys())
        near_ = cfg.reach(cb, cut_blocks=[h_ for h_ in heads_ if h_ != cb])
        if any(pb in near_ for pb, _ in pushes):
            pushes = [(pb, pt) for pb, pt in pushes if pb in near_]
        cmp_ok = False
        tests = []      # (edges on which act is Noop, edges on which it is not)
        for eb, et in fl.calls_to('std::cmp::PartialEq::ne', 'std::cmp::PartialEq::eq'):
            o0, o1 = fl.origins(et['args'][0]), fl.origins(et['args'][1])
            is_act = lambda os_: bool(os_) and all(o.kind == 'call' and o.key == 'reconcile::reconcile_path' for o in os_)
            is_noop = lambda os_: bool(os_) and all(o.kind == 'agg' and o.key == 'reconcile::Action::Noop' for o in os_)
            if (is_act(o0) and is_noop(o1)) or (is_act(o1) and is_noop(o0)):
                tests.append(eq_edges(fl, eb))
        oc_ = fl.outcomes(cb)
        if 'Noop' in oc_:
            other = set()
            for k_, es in oc_.items():
                if k_ != 'Noop':
                    other |= set(es)
            tests.append((set(oc_['Noop']), other - set(oc_['Noop'])))
        for eq, ne in tests:
            if pushes and ne and all(cfg.edges_guard(ne, pb) for pb, _ in pushes):
                # and on the not-Noop edge the push is unavoidable before the next iteration
                heads = set(cfg.loops().keys())
                unavoidable = True
                for (s, t, lab) in ne:
                    r = cfg.reach(t, cut_blocks=[pb for pb, _ in pushes])
                    if r & (heads | set(cfg.exits())):
                        unavoidable = False
                cmp_ok = cmp_ok or unavoidable
        ctx.check(cmp_ok, 'C18.R4', 'reconcile:push-iff-non-noop', 'out.push((p, act)) exactly on act != Noop',
                  'reconcile does not push exactly the non-Noop actions', term_loc(b, cb))
        for pb, pt in pushes:
            os_ = fl.origins(pt['args'][1])
            has_act = any(o.kind == 'call' and o.key == 'reconcile::reconcile_path' for o in os_)
            has_p = any(o.kind == 'call' and o.key == 'std::iter::Iterator::next' for o in os_)
            ctx.check(has_act and has_p, 'C18.R4', 'reconcile:pushed-pair', '(p.clone(), act)',
                      'the pushed pair is not (loop path, decided action)', term_loc(b, pb))
    # every path of the union is decided: no way from the loop variable back to the loop head (or out) that skips reconcile_path
    rp_blocks = [cb for cb, _ in rp]
    loop_nexts = [(nb, nt) for nb, nt in nexts if any(nb in blocks and any(cb in blocks for cb in rp_blocks) for h, blocks in cfg.loops().items())]
    skipped = None
    for nb, nt in loop_nexts:
        for (s_, t_, lab) in fl.outcomes(nb).get('Some', set()):
            r = cfg.reach(t_, cut_blocks=rp_blocks)
            if nb in r or (r & set(cfg.exits())):
                skipped = t_
    ctx.check(bool(loop_nexts) and skipped is None, 'C18.R4', 'reconcile:every-path-decided', 'each path of the union reaches reconcile_path before the next iteration',
              'reconcile can move on to the next path (or return) without asking reconcile_path about the current one: a path is dropped from the plan by something other than the documented table',
              term_loc(b, skipped) if skipped is not None else loc(b, b.lo))
    # sorted + deduped
    ctx.check(bool(custom_iter) or sorted_unique(b, fl, it_o), 'C18.R4', 'reconcile:sorted-dedup', 'paths sorted and deduplicated before the loop',
              'reconcile no longer sorts+dedups the union of paths (duplicate decisions for paths on both sides)', loc(b, b.lo))


PASS = ('std::iter::Iterator::chain', 'std::iter::Iterator::collect', 'std::iter::IntoIterator::into_iter',
        'std::iter::Iterator::cloned', 'std::iter::Iterator::copied', 'std::iter::Iterator::next')


def sorted_unique(b, fl, it_origins):
    """the walked collection is sorted and free of duplicates: sort + dedup calls, or it was collected into an ordered set"""
    srt = fl.calls(lambda c: 'sort' in c.split('::')[-1])
    ded = fl.calls(lambda c: c.endswith('::dedup'))
    if srt and ded:
        return True
    work, seen = list(it_origins), set()
    while work:
        o = work.pop()
        if o.kind != 'call' or o.bb is None or (o.key, o.bb) in seen:
            continue
        seen.add((o.key, o.bb))
        t = b.blocks[o.bb]['term']
        if o.key.endswith('::collect') or o.key.endswith('::from_iter'):
            if b.local_ty(t['dst']['l']).startswith('std::collections::BTreeSet<'):
                return True
        elif o.key in PASS:
            work.extend(fl.origins(t['args'][0], mut_calls=False))
    return False


def chain_form(ctx, F, b, fl, a_i, b_i):
    """`paths.into_iter().filter_map(|p| ..reconcile_path(a.get(p), b.get(p), z)..).collect()`: the closure body is the loop body.
    Same obligations (same keys) as the loop form.  -> False when the shape is not this one."""
    cfg = fl.cfg
    site = None
    for qb, qt in fl.calls(lambda c: c.split('::')[-1] == 'filter_map'):
        for o in fl.origins(qt['args'][1]):
            cb_ = F.body(o.key) if o.kind == 'agg' else None
            if cb_ is not None and flow_of(cb_).calls_to('reconcile::reconcile_path'):
                site = (qb, qt, o, cb_)
    if site is None:
        return False
    qb, qt, clo, cb_ = site
    cfl = flow_of(cb_)
    ccfg = cfl.cfg
    # captured variable i of the closure  ->  parameters of reconcile it refers to
    up = {}
    for st in b.blocks[clo.bb]['stmts']:
        rv = st['rv']
        if rv['k'] == 'agg' and rv.get('def') == clo.key:
            for i, op_ in enumerate(rv['ops']):
                up[i] = {x.key for x in fl.origins(op_) if x.kind == 'param'}
    restricting = []

    def deep(os_, depth=0, stop=None):
        out = set()
        for o in os_:
            if o.kind == 'call' and o.bb is not None and depth < 8:
                t = b.blocks[o.bb]['term']
                if stop is not None and o.bb == stop:
                    out.add('site')
                elif o.key.endswith('::keys'):
                    for x in fl.origins(t['args'][0]):
                        if x.kind == 'param':
                            out.add(x.key)
                elif o.key in PASS:
                    out |= deep(fl.origins(t['args'][0]), depth + 1, stop) | (deep(fl.origins(t['args'][1]), depth + 1, stop) if o.key.endswith('::chain') else set())
                else:
                    restricting.append(o.key)
        return out
    srcs = deep(fl.origins(qt['args'][0], mut_calls=False))
    ret_src = set()
    ret_src |= deep(fl.origins({'k': 'copy', 'p': {'l': 0, 'proj': []}}), stop=qb)
    ctx.check(srcs == {a_i, b_i} and ret_src == {'site'} and not restricting, 'C18.R4', 'reconcile:union', 'the plan is collected from a pass over keys(a) U keys(b)',
              'reconcile does not decide the full union of both sides\' paths (key sources: params %s; result from: %s; restricting adaptors: %s)' % (
                  sorted(map(str, srcs)), sorted(map(str, ret_src)), sorted(set(restricting))), loc(b, b.lo))
    rp = cfl.calls_to('reconcile::reconcile_path')
    pvar = lambda os_: bool(os_) and all(x.kind == 'param' and x.key == 2 for x in os_)
    for rb_, ct in rp:
        good, why = True, []
        for i, side in ((0, a_i), (1, b_i)):
            os_ = cfl.origins(ct['args'][i])
            gets = [o for o in os_ if o.kind == 'call' and o.key.endswith('::get')]
            if len(gets) != len(os_) or not gets:
                good = False
                why.append('arg %d is not a map lookup' % i)
                continue
            for g in gets:
                m = call_arg_origins(cfl, g.bb, 0)
                k = call_arg_origins(cfl, g.bb, 1)
                if not all(x.kind == 'upvar' and up.get(int(x.key)) == {side} for x in m) or not m:
                    good = False
                    why.append('arg %d looked up in the wrong map' % i)
                if not pvar(k):
                    good = False
                    why.append('lookup key is not the closure\'s path')
        ctx.check(good, 'C18.R4', 'reconcile:lookups', 'reconcile_path(a.get(p), b.get(p), z) with the closure\'s path p',
                  'reconcile calls reconcile_path with wrong operands: %s' % '; '.join(why), term_loc(cb_, rb_))
        # None exactly on Noop
        noop_e, other_e = set(), set()
        oc = cfl.outcomes(rb_)
        if 'Noop' in oc:
            noop_e = set(oc['Noop'])
            for k_, es in oc.items():
                if k_ != 'Noop':
                    other_e |= set(es)
        for eb, et in cfl.calls_to('std::cmp::PartialEq::ne', 'std::cmp::PartialEq::eq'):
            o0, o1 = cfl.origins(et['args'][0]), cfl.origins(et['args'][1])
            is_act = lambda os_: bool(os_) and all(o.kind == 'call' and o.key == 'reconcile::reconcile_path' for o in os_)
            is_noop = lambda os_: bool(os_) and all(o.kind == 'agg' and o.key == 'reconcile::Action::Noop' for o in os_)
            if (is_act(o0) and is_noop(o1)) or (is_act(o1) and is_noop(o0)):
                eq, ne = eq_edges(cfl, eb)
                noop_e, other_e = set(eq), set(ne)
        nones, somes = [], []
        for bi in ccfg.reachable():
            for st in cb_.blocks[bi]['stmts']:
                if st['dst']['l'] == 0 and not st['dst']['proj'] and st['rv']['k'] == 'agg':
                    (nones if st['rv'].get('vname') == 'None' else somes).append((bi, st))
        from_noop = set()
        for (s_, t_, lab) in noop_e:
            from_noop |= ccfg.reach(t_)
        from_other = set()
        for (s_, t_, lab) in other_e - noop_e:
            from_other |= ccfg.reach(t_)
        cmp_ok = bool(noop_e) and bool(nones) and bool(somes) and all(ccfg.edges_guard(noop_e, bi) for bi, _ in nones) and \
            not any(bi in from_noop for bi, _ in somes) and not any(bi in from_other for bi, _ in nones)
        ctx.check(cmp_ok, 'C18.R4', 'reconcile:push-iff-non-noop', 'the closure yields Some((p, act)) exactly on act != Noop',
                  'reconcile does not keep exactly the non-Noop actions', term_loc(cb_, rb_))
        for bi, st in somes:
            os_ = cfl.origins(st['rv']['ops'][0])
            has_act = any(o.kind == 'call' and o.key == 'reconcile::reconcile_path' for o in os_)
            has_p = any(o.kind == 'param' and o.key == 2 for o in os_) or any(
                o.kind == 'call' and o.key.endswith('::clone') and pvar(call_arg_origins(cfl, o.bb, 0)) for o in os_)
            ctx.check(has_act and has_p, 'C18.R4', 'reconcile:pushed-pair', '(p.clone(), act)',
                      'the kept pair is not (path, decided action)', loc(cb_, st.get('line', cb_.lo)))
    rp_blocks = [x for x, _ in rp]
    skipped = ccfg.reach(0, cut_blocks=rp_blocks) & set(ccfg.exits()) if 0 not in rp_blocks else set()
    ctx.check(not skipped, 'C18.R4', 'reconcile:every-path-decided', 'each path of the union reaches reconcile_path before the closure returns',
              'reconcile can drop or keep a path without asking reconcile_path about it: a path is dropped from the plan by something other than the documented table',
              loc(cb_, cb_.lo))
    ctx.check(sorted_unique(b, fl, fl.origins(qt['args'][0], mut_calls=False)), 'C18.R4', 'reconcile:sorted-dedup', 'paths sorted and deduplicated before the pass',
              'reconcile no longer sorts+dedups the union of paths (duplicate decisions for paths on both sides)', loc(b, b.lo))
    return True


# ---------------------------------------------------------------- Lean mirror (cross-check only)
LEAN_MAP = {'Noop': 'Noop', 'PropA': 'PropagateAtoB', 'PropB': 'PropagateBtoA', 'Converge': 'ConvergeIdentical',
            'DeleteA': 'DeleteA', 'DeleteB': 'DeleteB', 'Conflict': 'Conflict'}


def parse_lean(text):
    m = re.search(r'def reconcile\s*:[^\n]*\n(.*?)\n\s*\n', text, re.S)
    if not m:
        return None
    body = m.group(1)
    arms = []
    for chunk in re.split(r'\n\s*\|', '\n' + body):
        chunk = chunk.strip()
        if not chunk or '=>' not in chunk:
            continue
        pat, expr = chunk.split('=>', 1)
        pats = [p.strip() for p in pat.strip().lstrip('|').split(',')]
        if len(pats) != 3:
            return None
        arms.append((pats, expr.replace('\n', ' ').strip()))
    return arms


def eval_lean_expr(expr, env, v):
    toks = re.findall(r'Action\.\w+|if|then|else|\(|\)|=|\w+', expr)
    pos = [0]

    def peek():
        return toks[pos[0]] if pos[0] < len(toks) else None

    def take():
        t = toks[pos[0]]
        pos[0] += 1
        return t

    def parse():
        t = peek()
        if t == '(':
            take()
            r = parse()
            take()
            return r
        if t == 'if':
            take()
            x = take()
            take()  # '='
            y = take()
            take()  # then
            a = parse()
            take()  # else
            b = parse()
            xa, ya = env[x], env[y]
            cond = True if xa == ya else v[('same',) + tuple(sorted([xa, ya]))]
            return a if cond else b
        if t and t.startswith('Action.'):
            take()
            return t.split('.')[1]
        raise ValueError('lean parse: %r' % t)
    return parse()


def eval_lean(arms, v):
    for pats, expr in arms:
        env = {}
        ok = True
        for p, n in zip(pats, ['a', 'b', 'z']):
            has = v[('has', n)]
            if p == '_':
                continue
            if p == 'none':
                ok = ok and not has
            elif p.startswith('some'):
                ok = ok and has
                var = p.split()[1]
                if var != '_':
                    env[var] = n
            else:
                return None
        if ok:
            return eval_lean_expr(expr, env, v)
    return None


def lean_crosscheck(ctx, vals, table):
    p = os.path.join(extract.REPO, 'lean', 'BidirectionalReconcile.lean')
    try:
        arms = parse_lean(open(p).read())
    except OSError:
        arms = None
    if not arms:
        ctx.note('cross-check unavailable: lean/BidirectionalReconcile.lean could not be parsed; verdict rests on the oracle table alone')
        return
    dis = []
    n = 0
    for v in vals:
        try:
            r = eval_lean(arms, v)
        except (ValueError, KeyError, IndexError):
            ctx.note('cross-check unavailable: Lean arm not evaluable')
            return
        mine = table[vdesc(v)].split('(')[0]
        n += 1
        if LEAN_MAP.get(r) != mine:
            dis.append('%s: lean=%s code=%s' % (vdesc(v), r, mine))
    ctx.rules['C18.X1']['instances'] = n
    ctx.rules['C18.X1']['holding'] = n - len(dis)
    ctx.note('Lean mirror evaluated on %d valuations: %d disagreement(s) %s' % (n, len(dis), dis))
