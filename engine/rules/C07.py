"""C07 — a lost, damaged or foreign archive never causes a delete (DESIGN §7 C07)."""
from rules.common import *  # noqa: F401,F403
from callgraph import callgraph_of
import tables

CONFIGS = ['cli']
LEVEL = 'other'
EXPLANATION = (
    'Decides the mechanism end to end: (R1) Archive::load returns Some only under the Ok edges of fs::read and '
    'serde_json::from_slice and the true edges of format_version == FORMAT_VERSION and root_pair_hash == expected_pair; '
    '(R2) the only content read of an archive-derived path is that read, of the unmodified path (never .bak/.tmp), and load has one '
    'caller passing this run\'s pair hash; (R3) trust_base is exactly loaded.is_some() and reaches reconcile unchanged, base derives '
    'only from the loaded archive or an empty map; (R4) in reconcile the base lookup is guarded by trust_base and is the constant None '
    'otherwise, and that value is what reconcile_path receives; (R5) the decision DAG of reconcile_path never yields DeleteA/DeleteB '
    'when base is None (C18 engine); (R6) remove_file in the bisync graph occurs only on the DeleteA/DeleteB arms; (R7) every root-dependent value hashed into the pair key passes through canonicalize (the key names directories, not spellings). '
    'R7 also: an archive is loaded (or, loaded early, reaches reconcile) only where both roots were scanned Ok or shown to exist - a root that does not exist is not canonicalized and the key would be the path as typed; R2/R3 accept readers inside the archive module that go through Archive::load with this run\'s pair hash, and None as a source of the loaded value. R1 reads load written as inspect(..).ok(): the accept points are the Ok(archive) values that reach .ok(). Not decided: behaviour of serde_json on malformed input (assumed to return Err).')
ASSUMPTIONS = ['serde_json::from_slice returns Err for truncated / garbage / wrong-shape input',
               'std::fs::read returns Err for a missing file']


def run(ctx):
    F = ctx.F['cli']
    ip = ctx.interproc['cli']
    ctx.rule('C07.R1', 'Archive::load: every Some return guarded by read Ok, parse Ok, format_version==FORMAT_VERSION, root_pair_hash==expected_pair', floor=1)
    ctx.rule('C07.R2', 'archive-derived paths are content-read only by load (unmodified path); load has one caller with this run\'s pair', floor=2)
    ctx.rule('C07.R3', 'trust_base == loaded.is_some() reaches reconcile unchanged; base derives only from the loaded archive or empty', floor=2)
    ctx.rule('C07.R4', 'reconcile: the base value handed to reconcile_path is None or exists only behind trust_base == true; no other use of base', floor=1)
    ctx.rule('C07.R5', 'reconcile_path never yields DeleteA/DeleteB when base is absent (decision DAG)', floor=1)
    ctx.rule('C07.R6', 'remove_file in the bisync call graph only on DeleteA/DeleteB arms of apply', floor=2)
    ctx.rule('C07.R7', 'the pair key hashes the symlink-resolved (canonicalized) roots: it identifies directories, not spellings', floor=2)
    ctx.attempt(r1, ctx, F)
    ctx.attempt(r7, ctx, F)
    ctx.attempt(r2, ctx, F, ip)
    ctx.attempt(r3, ctx, F, ip)
    ctx.attempt(r4, ctx, F)
    from rules import C18
    ctx.attempt(C18.no_delete_without_base, ctx, F, 'C07.R5')
    from rules import C02
    ctx.attempt(C02.deletes_only_on_delete_arms, ctx, F, 'C07.R6')


def r1(ctx, F):
    b = F.body('archive::Archive::load')
    if b is None:
        ctx.missing('C07.R1', 'archive::Archive::load')
    fl = flow_of(b)
    cfg = fl.cfg
    somes = ok_assign_blocks(b, 'Some')
    via_ok = False
    if not somes:
        # `inspect(..).map_err(report).ok()`: the accepted archive is built as Ok(archive) and turned into Some by `.ok()`
        rets = [(rb, kind, data) for rb, kind, data in ret_defs(b)]
        if rets and all(kind == 'call' and callee(data) == 'std::result::Result::<T, E>::ok' for rb, kind, data in rets):
            for rb, kind, data in rets:
                for o in fl.origins(data['args'][0]):
                    # the Ok(..) values that reach `.ok()` (a re-wrapped parse result earlier in the chain is not one)
                    if o.kind == 'agg' and str(o.key).endswith('::Ok') and o.bb is not None and o.bb not in somes:
                        somes.append(o.bb)
                        via_ok = True
    if not somes:
        ctx.missing('C07.R1', 'Archive::load has no Some return')
    reads = fl.calls(lambda c: c in tables.FS_READERS)
    parses = fl.calls(lambda c: c.startswith('serde_json::from_'))
    fv = F.consts.get('archive::FORMAT_VERSION', {}).get('val')
    if fv is None:
        ctx.missing('C07.R1', 'const archive::FORMAT_VERSION')
    # comparisons
    fmt_true, pair_true = set(), set()
    for bi in cfg.reachable():
        for st in b.blocks[bi]['stmts']:
            rv = st['rv']
            if rv['k'] == 'bin' and rv['op'] in ('Eq', 'Ne'):
                oa, ob = fl.origins(rv['ops'][0]), fl.origins(rv['ops'][1])
                is_fv = lambda os_: bool(os_) and all(o.path[-1:] == ('format_version',) and o.kind == 'call' for o in os_)
                is_c = lambda os_: bool(os_) and all(o.kind == 'const' and o.key == fv for o in os_)
                if (is_fv(oa) and is_c(ob)) or (is_fv(ob) and is_c(oa)):
                    oc = fl.outcomes(None, st['dst']['l'])
                    fmt_true |= oc.get('true' if rv['op'] == 'Eq' else 'false', set())
    for cb, ct in fl.calls_to('std::cmp::PartialEq::eq', 'std::cmp::PartialEq::ne'):
        oa, ob = fl.origins(ct['args'][0]), fl.origins(ct['args'][1])
        is_rp = lambda os_: bool(os_) and all(o.path[-1:] == ('root_pair_hash',) and o.kind == 'call' for o in os_)
        is_ep = lambda os_: bool(os_) and all(o.kind == 'param' and o.key == 2 and not o.path for o in os_)
        if (is_rp(oa) and is_ep(ob)) or (is_rp(ob) and is_ep(oa)):
            eq, ne = eq_edges(fl, cb)
            pair_true |= eq
    for sb in somes:
        c_read = any(fl.guarded_by(sb, rb, 'Ok') for rb, _ in reads)
        c_parse = any(fl.guarded_by(sb, pb, 'Ok') for pb, _ in parses)
        c_fmt = bool(fmt_true) and cfg.edges_guard(fmt_true, sb)
        c_pair = bool(pair_true) and cfg.edges_guard(pair_true, sb)
        # the returned archive is the parsed one, parsed from the bytes read from `path`
        ret_o = set()
        for st in b.blocks[sb]['stmts']:
            if (st['dst']['l'] == 0 or (via_ok and st['rv'].get('vname') == 'Ok')) and st['rv']['k'] == 'agg':
                for o in st['rv']['ops']:
                    ret_o |= fl.origins(o)
        c_flow = bool(ret_o) and all(o.kind == 'call' and o.key.startswith('serde_json::from_') for o in ret_o)
        parse_in = set()
        for pb, pt in parses:
            parse_in |= fl.origins(pt['args'][0])
        c_flow2 = bool(parse_in) and all(o.kind == 'call' and o.key in tables.FS_READERS for o in parse_in)
        conds = [('fs::read Ok edge', c_read), ('serde_json parse Ok edge', c_parse),
                 ('format_version == FORMAT_VERSION(%s) true edge' % fv, c_fmt),
                 ('root_pair_hash == expected_pair true edge', c_pair),
                 ('returned value is the parsed archive', c_flow), ('parsed bytes are the bytes read', c_flow2)]
        ctx.check(all(c for _, c in conds), 'C07.R1', 'load:Some-return',
                  'Some guarded by read Ok, parse Ok, format and pair equality',
                  'Archive::load can return Some without: ' + ', '.join(n for n, c in conds if not c),
                  term_loc(b, sb), path=cfg.path(0, sb))


def r2(ctx, F, ip):
    cg = callgraph_of(F)
    # (a) reader calls inside archive.rs / bidir.rs
    n = 0
    for b in F.bodies_in_file('bin/copia/archive.rs') + F.bodies_in_file('bin/copia/bidir.rs'):
        fl = flow_of(b)
        for rb, rt in fl.calls(lambda c: c in tables.FS_READERS):
            c = callee(rt)
            pos = tables.FS_READERS[c]
            os_ = fl.origins(rt['args'][pos], interproc=ip, mut_calls=True)
            in_archive = b.file.endswith('archive.rs')
            derived = in_archive or any(o.kind == 'call' and o.key in ('archive::archive_path',) for o in os_)
            if not derived:
                continue
            n += 1
            top = b.path.split('::{')[0]
            if top == 'archive::Archive::load' and b.kind == 'fn':
                pure = bool(os_) and all(o.kind == 'param' and o.key == 1 and not o.path for o in os_)
                ctx.check(pure, 'C07.R2', 'load:%s' % c, 'reads exactly the `path` parameter',
                          'Archive::load reads a path other than the archive path itself (%s)' % sorted({'%s:%s' % (o.kind, o.key) for o in os_}),
                          term_loc(b, rb))
            elif in_archive and c == 'std::fs::File::open' and (top == 'archive::Archive::save' or any(o.kind == 'call' and o.key == 'std::path::Path::parent' for o in os_)):
                # the parent directory handle, used only for sync_all
                via_parent = any(o.kind == 'call' and o.key == 'std::path::Path::parent' for o in os_)
                ctx.check(via_parent, 'C07.R2', '%s:%s' % (top.split('::')[-1], c), 'opens the parent directory (for fsync), not archive content',
                          '%s opens an archive-derived file for reading' % top, term_loc(b, rb))
            else:
                ctx.bad('C07.R2', '%s:%s' % (top, c), 'archive-derived path is read outside Archive::load (fallback to .bak/.tmp or a second reader)',
                        term_loc(b, rb))
    # (b) callers of load: whatever file is read, it is accepted only for THIS run's pair (R1: load compares the stored pair with
    #     its second argument) - so that argument must be root_pair_hash(root_a, root_b) of run_bisync, directly or handed
    #     down through functions of the archive module
    callers = cg.call_sites(lambda c: c == 'archive::Archive::load')
    ctx.check(bool(callers) and all(b.path.split('::{')[0] == 'bidir::run_bisync' or b.path.startswith('archive::') for b, _, _ in callers), 'C07.R2', 'load:callers',
              'Archive::load is called from run_bisync and the archive module only',
              'Archive::load has callers %s (expected run_bisync or functions of the archive module)' % sorted({b.path for b, _, _ in callers}), None)

    def pair_ok(b, op, depth=0):
        """the operand is this run's pair hash"""
        fl = flow_of(b)
        os_ = [o for o in fl.origins(op) if o.kind != 'comb']
        if not os_ or depth > 3:
            return False
        for o in os_:
            if o.kind == 'call' and o.key == 'archive::root_pair_hash':
                a0 = call_arg_origins(fl, o.bb, 0)
                a1 = call_arg_origins(fl, o.bb, 1)
                if not (b.path.split('::{')[0] == 'bidir::run_bisync' and all(x.kind == 'param' and x.key == 1 for x in a0) and all(x.kind == 'param' and x.key == 2 for x in a1)):
                    return False
            elif o.kind == 'param' and b.path.startswith('archive::') and not [e for e in o.path if not e.startswith('@')]:
                sites = cg.call_sites(lambda c, _p=b.path.split('::{')[0]: c == _p)
                if not sites or not all(o.key - 1 < len(cb_.blocks[cbb]['term']['args']) and pair_ok(cb_, cb_.blocks[cbb]['term']['args'][o.key - 1], depth + 1) for cb_, cbb, _ in sites):
                    return False
            else:
                return False
        return True
    for b, bb, _ in callers:
        fl = flow_of(b)
        t = b.blocks[bb]['term']
        good = pair_ok(b, t['args'][1])
        if good and b.path.split('::{')[0] == 'bidir::run_bisync':
            o_path = fl.origins(t['args'][0])
            good = bool(o_path) and all(o.kind == 'call' and o.key == 'archive::archive_path' for o in o_path)
            for o in o_path:
                a0 = call_arg_origins(fl, o.bb, 0)
                good = good and all(x.kind == 'call' and x.key == 'archive::root_pair_hash' for x in a0)
        ctx.check(good, 'C07.R2', '%s:load-args' % b.path.split('::{')[0].split('::')[-1], 'load(.., &pair) with pair = root_pair_hash(root_a, root_b) of this run (and, in run_bisync, archive_path(&pair))',
                  'Archive::load is not called with this run\'s pair hash (and archive path)', term_loc(b, bb))


def r3(ctx, F, ip):
    b = F.body('bidir::run_bisync')
    if b is None:
        ctx.missing('C07.R3', 'bidir::run_bisync')
    fl = flow_of(b)
    rc = fl.calls_to('reconcile::reconcile')
    if not rc:
        ctx.missing('C07.R3', 'run_bisync -> reconcile::reconcile')
    for cb, ct in rc:
        o_trust = fl.origins(ct['args'][3])
        ok = bool(o_trust) and all(o.kind == 'call' and o.key == 'std::option::Option::<T>::is_some' for o in o_trust)
        if ok:
            for o in o_trust:
                a0 = [x for x in call_arg_origins(fl, o.bb, 0) if x.kind != 'comb' and not _is_none(x)]
                ok = ok and bool(a0) and all(_archive_source(F, x) for x in a0)
        ctx.check(ok, 'C07.R3', 'run_bisync:trust_base', 'trust_base == Archive::load(..).is_some(), passed unchanged',
                  'the trust flag given to reconcile is not exactly loaded.is_some(): %s' % sorted({'%s:%s' % (o.kind, o.key) for o in o_trust}),
                  term_loc(b, cb))
        o_base = fl.origins(ct['args'][2])
        allowed = lambda o: (o.kind == 'call' and o.key in ('archive::Archive::load', 'std::collections::BTreeMap::<K, V>::new',
                                                              'std::default::Default::default')) or _is_none(o) or _archive_source(F, o) \
            or o.kind == 'comb' or (o.kind == 'const' and isinstance(o.key, str) and o.key.startswith('fn:std::collections::BTreeMap')) \
            or (o.kind == 'agg' and '::{closure' in str(o.key) and F.body(str(o.key)) is not None)      # judged from its body below
        has_load = any(_archive_source(F, o) for o in o_base)
        bad = sorted({'%s:%s' % (o.kind, o.key) for o in o_base if not allowed(o)})
        # closures used to build base may only project the loaded archive
        for o in o_base:
            if o.kind == 'agg' and '::{closure' in str(o.key) and F.body(str(o.key)) is not None:
                cbody = F.body(o.key)
                if cbody is not None:
                    co = flow_of(cbody).origins(0)
                    for x in co:
                        if x.kind == 'call' and x.key not in ('std::collections::BTreeMap::<K, V>::new',):
                            bad.append('closure:%s' % x.key)
        ctx.check(has_load and not bad, 'C07.R3', 'run_bisync:base', 'base derives only from the loaded archive or an empty map',
                  'the base map given to reconcile has other sources: %s' % bad, term_loc(b, cb))


def _is_none(o):
    # None itself, the `?` of an Option (hands on None), and the Some(..) wrapper whose payload is listed separately
    return (o.kind == 'agg' and str(o.key).endswith(('option::Option::None', 'option::Option::Some'))) or \
        (o.kind == 'call' and o.key == 'std::ops::FromResidual::from_residual')


def _archive_source(F, o, depth=0):
    """the value is what Archive::load returned - directly, or through a function of the archive module that hands on nothing
    but results of Archive::load (a read-only recovery path: `interrupted_save` -> load(<sibling>, expected_pair))"""
    if o.kind != 'call':
        return False
    if o.key == 'archive::Archive::load':
        return True
    hb = F.body(str(o.key)) if depth < 3 else None
    if hb is None or not str(o.key).startswith('archive::'):
        return False
    ro = [x for x in flow_of(hb).origins(0) if x.kind not in ('comb', 'const') and not _is_none(x) and not (x.kind == 'agg' and str(x.key).endswith('option::Option::Some'))
          and not (x.kind == 'agg' and '::{closure' in str(x.key))]
    return bool(ro) and all(_archive_source(F, x, depth + 1) for x in ro)


def r4(ctx, F):
    top = F.body('reconcile::reconcile')
    if top is None:
        ctx.missing('C07.R4', 'reconcile::reconcile')
    trust = param_index(top, 'trust_base') or 4
    base = param_index(top, 'base') or 3
    n_rp = 0
    # the decision may sit in the fn body or in a closure of an iterator chain (filter_map): every nested body is judged,
    # `trust_base` / `base` being the fn's parameters or their captures
    for b in F.nested('reconcile::reconcile'):
        fl = flow_of(b)
        cfg = fl.cfg

        def is_slot(os_, slot):
            os_ = [o for o in os_ if o.kind != 'comb']
            return bool(os_) and all(fn_param_slot(F, b, o) == slot and o.kind in ('param', 'upvar') for o in os_)

        def mentions(os_, slot):
            return any(o.kind in ('param', 'upvar') and fn_param_slot(F, b, o) == slot for o in os_)
        tr_true = set()
        for sb, st in switch_blocks_on(fl, lambda os_: is_slot(os_, trust)):
            tr, fa = bool_edges(sb, st)
            tr_true |= tr
        gets = [(gb, gt) for gb, gt in fl.calls(lambda c: c.startswith('std::collections::BTreeMap') and not c.endswith('::keys') and not c.endswith('::len'))
                if gt['args'] and mentions(fl.origins(gt['args'][0]), base)]
        # (looking a path up in `base` is harmless by itself; what matters is which value reaches reconcile_path - judged below)
        # any other use of base (iteration etc.); handing it to a closure of this function is not a use - that closure is judged itself
        for bi in cfg.reachable():
            t = b.blocks[bi]['term']
            if t['k'] == 'call' and (bi, t) not in gets:
                for a in t['args']:
                    if a['k'] == 'const':
                        continue
                    os_ = fl.origins(a)
                    if any(o.kind == 'agg' and F.body(o.key) is not None for o in os_):
                        continue
                    if mentions(os_, base) and not (tr_true and cfg.edges_guard(tr_true, bi)):
                        ctx.bad('C07.R4', 'reconcile:%s(base)' % (callee(t) or 'call'), 'reconcile uses `base` outside the trust_base branch', term_loc(b, bi))
        for cb, ct in fl.calls_to('reconcile::reconcile_path'):
            n_rp += 1
            # definitions of the third operand: None, or a value that exists only behind trust_base == true
            seen_l = set()
            has_none = [False]
            why = []

            def z_ok(op_, depth=0):
                if op_['k'] == 'const' or depth > 8:
                    return False
                l = op_['p']['l']
                if (l, depth > 0) in seen_l:
                    return True
                seen_l.add((l, depth > 0))
                ds = fl.defs.get(l, [])
                if not ds:
                    # a parameter / capture handed in as is
                    why.append('the base operand is taken from outside without a trust test')
                    return False
                good = True
                for (dbb, idx, kind, data, dproj) in ds:
                    guarded = bool(tr_true) and cfg.edges_guard(tr_true, dbb)
                    if kind == 'assign':
                        rv = data
                        if rv['k'] == 'agg' and rv.get('vname') == 'None':
                            has_none[0] = True
                        elif rv['k'] == 'agg' and rv.get('vname') == 'Some':
                            if not guarded:
                                good = False
                                why.append('a Some(..) base value is built outside the trust_base == true branch')
                        elif rv['k'] in ('use', 'ref', 'cast') and (rv.get('ops') or [{}])[0].get('k') != 'const':
                            src = rv['ops'][0] if 'ops' in rv else {'k': 'copy', 'p': rv['p']}
                            good = z_ok(src, depth + 1) and good
                        else:
                            good = False
                            why.append('unrecognised definition of the base operand')
                    else:
                        c_ = callee(data) or ''
                        if guarded:
                            continue
                        if c_ in ('std::ops::Fn::call', 'std::ops::FnMut::call_mut', 'std::ops::FnOnce::call_once') and F.body(callee_resolved(data) or '') is not None:
                            # `let recorded = |p| trust_base.then(|| base.get(p).copied()).flatten(); .. recorded(p)`: the same
                            # obligation inside the closure - it can yield a Some only behind the true edge of its captured trust flag
                            cbody = F.body(callee_resolved(data))
                            cfl_ = flow_of(cbody)
                            ctrue = set()
                            for sb_, st_ in switch_blocks_on(cfl_, lambda os_: bool(os_) and all(o.kind == 'upvar' for o in os_ if o.kind != 'comb')):
                                caps_ok = True
                                for o in [o for o in cfl_.origins(st_['on']) if o.kind == 'upvar' and o.key is not None]:
                                    cap_ok = False
                                    for blk_ in b.blocks:
                                        for s2 in blk_['stmts']:
                                            rv2 = s2['rv']
                                            if rv2['k'] == 'agg' and rv2.get('ak') == 'closure' and norm(rv2['def']) == cbody.path and int(o.key) < len(rv2['ops']):
                                                cap_ok = cap_ok or is_slot(fl.origins(rv2['ops'][int(o.key)]), trust)
                                    caps_ok = caps_ok and cap_ok
                                if caps_ok:
                                    tr_, fa_ = bool_edges(sb_, st_)
                                    ctrue |= tr_
                            somes_ = [bi_ for bi_ in cfl_.cfg.reachable() for s2 in cbody.blocks[bi_]['stmts'] if s2['rv']['k'] == 'agg' and s2['rv'].get('vname') == 'Some'] + \
                                     [bi_ for bi_, t2 in cfl_.calls(lambda c2: c2.startswith('std::collections::BTreeMap') and c2.endswith('::get'))]
                            if ctrue and all(cfl_.cfg.edges_guard(ctrue, bi_) for bi_ in somes_):
                                has_none[0] = True
                                continue
                            good = False
                            why.append('the closure %s can yield a base entry without testing the trust flag it captured' % cbody.path.split('::')[-1])
                            continue
                        if c_.startswith('std::collections::BTreeMap') and c_.endswith('::get') and data['args'] and _gated_archive(F, b, data['args'][0], base, trust):
                            # `let archive = if trust_base { base } else { &empty }; .. archive.get(p)`: the map that is asked is the
                            # base only behind trust_base == true and an empty map otherwise - every lookup misses in safe mode
                            has_none[0] = True
                            continue
                        if c_.split('::')[-1] in ('copied', 'cloned', 'as_ref', 'map', 'filter', 'and_then', 'then', 'then_some'):
                            # Option combinators: the value exists only if their receiver / condition does
                            if c_.split('::')[-1] in ('then', 'then_some') and is_slot(fl.origins(data['args'][0]), trust):
                                continue        # trust_base.then(|| ..): Some only when trust_base
                            good = z_ok(data['args'][0], depth + 1) and good
                        else:
                            good = False
                            why.append('%s outside the trust_base == true branch' % c_.split('::')[-1])
                return good
            ok = z_ok(ct['args'][2])
            if ok and not has_none[0] and tr_true and cfg.edges_guard(tr_true, cb):
                has_none[0] = True      # this whole call sits behind trust_base == true (the untrusted case has a call of its own)
            ctx.check(ok and has_none[0], 'C07.R4', 'reconcile:z->reconcile_path', 'z is None, or a base value that exists only behind trust_base == true',
                      'the base value handed to reconcile_path can be a real base entry although trust_base is false (%s)' % ('; '.join(sorted(set(why))) or 'no None alternative'),
                      term_loc(b, cb))
    if not n_rp:
        ctx.missing('C07.R4', 'reconcile -> reconcile_path')


def _gated_archive(F, body, op, base, trust):
    """the map operand is a variable of reconcile (possibly captured) that is `base` only on the true edge of trust_base and a
    freshly made empty map on the other: origins = {the base parameter, BTreeMap::new / default}, and every assignment that
    copies the base parameter into it sits behind trust_base == true"""
    from rules import C04
    cos = [(pb, o) for pb, o in C04.capture_origins(F, body, op) if o.kind != 'comb']
    if not cos:
        return False
    has_base = has_empty = False
    for pb, o in cos:
        if o.kind in ('param', 'upvar') and fn_param_slot(F, pb, o) == base:
            has_base = True
        elif o.kind == 'call' and str(o.key).split('::')[-1] in ('new', 'default') and ('BTreeMap' in str(o.key) or 'Default' in str(o.key)) and not pb.blocks[o.bb]['term']['args']:
            has_empty = True
        else:
            return False
    if not (has_base and has_empty):
        return False
    # in the body that merges the two: every statement that takes the base parameter as is must be behind trust == true
    for pb in {pb for pb, o in cos}:
        pfl = flow_of(pb)
        tr_true = set()
        for sb, st in switch_blocks_on(pfl, lambda os_: bool([o for o in os_ if o.kind != 'comb']) and all(o.kind in ('param', 'upvar') and fn_param_slot(F, pb, o) == trust for o in os_ if o.kind != 'comb')):
            tr, fa = bool_edges(sb, st)
            tr_true |= tr
        if not tr_true:
            return False
        merged = False
        for bi in pfl.cfg.reachable():
            for st in pb.blocks[bi]['stmts']:
                rv = st['rv']
                if rv['k'] not in ('use', 'ref'):
                    continue
                src = rv['ops'][0] if rv['k'] == 'use' and rv.get('ops') else ({'k': 'copy', 'p': rv['p']} if rv['k'] == 'ref' else None)
                if src is None or src['k'] == 'const':
                    continue
                so = [o for o in pfl.origins(src) if o.kind != 'comb']
                if so and all(o.kind in ('param', 'upvar') and fn_param_slot(F, pb, o) == base for o in so):
                    # a copy of the base parameter: into the merged variable (whose origins also hold the empty map)?
                    do = [o for o in pfl.origins({'k': 'copy', 'p': {'l': st['dst']['l'], 'proj': []}}) if o.kind != 'comb']
                    if any(o.kind == 'call' for o in do):
                        merged = True
                        if not pfl.cfg.edges_guard(tr_true, bi):
                            return False
        if not merged:
            return False
    return True


RESOLVERS = ('std::fs::canonicalize', 'std::path::Path::canonicalize', 'tokio::fs::canonicalize', 'std::fs::read_link')


def value_includes_call(F, body, op, pred, depth=0, seen=None):
    """Some origin of the operand is the result of a call satisfying `pred` - followed through closure calls
    (Fn::call -> the closure body's return value) and nested closures."""
    if seen is None:
        seen = set()
    fl = flow_of(body)
    for o in fl.origins(op):
        k = (body.path, o.kind, o.key, o.bb)
        if k in seen:
            continue
        seen.add(k)
        if o.kind != 'call':
            continue
        if pred(o.key):
            return True
        t = body.blocks[o.bb]['term']
        if o.key in ('std::ops::Fn::call', 'std::ops::FnOnce::call_once', 'std::ops::FnMut::call_mut') and depth < 4:
            for c in fl.origins(t['args'][0]):
                cb = F.body(c.key) if c.kind == 'agg' else None
                if cb is not None and value_includes_call(F, cb, {'k': 'copy', 'p': {'l': 0, 'proj': []}}, pred, depth + 1, seen):
                    return True
        elif F.body(o.key) is not None and depth < 4:
            cb = F.body(o.key)
            if value_includes_call(F, cb, {'k': 'copy', 'p': {'l': 0, 'proj': []}}, pred, depth + 1, seen):
                return True
        else:
            # combinators taking a closure (unwrap_or_else, map, ...) and plain adapters: look at what they were given
            for a in t['args'][:1]:
                if depth < 6 and value_includes_call(F, body, a, pred, depth + 1, seen):
                    return True
    return False


def mentions_param(fl, op, depth=0, seen=None):
    """the operand's value depends on a parameter of the function (through any call argument)"""
    seen = set() if seen is None else seen
    for o in fl.origins(op, mut_calls=True):
        k = (o.kind, o.key, o.bb)
        if k in seen:
            continue
        seen.add(k)
        if o.kind in ('param', 'upvar'):
            return True
        if o.kind in ('call', 'mutcall') and o.bb is not None and depth < 8:
            for a in fl.body.blocks[o.bb]['term'].get('args', []):
                if a['k'] != 'const' and mentions_param(fl, a, depth + 1, seen):
                    return True
    return False


def r7(ctx, F):
    b = F.body('archive::root_pair_hash')
    if b is None:
        ctx.missing('C07.R7', 'archive::root_pair_hash')
    fl = flow_of(b)
    ups = fl.calls(lambda c: c.endswith('Hasher::update'))
    n = 0
    for ub, ut in ups:
        if not mentions_param(fl, ut['args'][1]):
            continue        # the separator: bytes that do not depend on either root
        n += 1
        ok = value_includes_call(F, b, ut['args'][1], lambda c: c in RESOLVERS)
        ctx.check(ok, 'C07.R7', 'root_pair_hash:update#%d' % n, 'hashed root passes through canonicalize',
                  'the archive key is computed from a root path that was not symlink-resolved (canonicalize): two different directories reached '
                  'through one spelling (a re-pointed symlink, a remounted path) share an archive, and the foreign base licenses deletes', term_loc(b, ub))
    if n < 2:
        ctx.missing('C07.R7', 'root_pair_hash: two hashed roots (found %d)' % n)
    roots_exist(ctx, F)


def roots_exist(ctx, F):
    """canonicalize resolves only what exists (root_pair_hash falls back to the path as typed otherwise): an archive may be
    loaded under a pair key (or, loaded early, reach reconcile) only where both roots are known to exist - behind the Ok edge of a scan of the root, or the true /
    Ok edge of an existence test of it (exists, metadata, canonicalize).  A root that can reach the load unproven makes
    `bisync /data mirror` from two working directories trust one archive."""
    b = work_body(F, 'bidir::run_bisync', ['archive::root_pair_hash'])
    if b is None:
        return
    fl = flow_of(b)
    loads = fl.calls_to('archive::Archive::load')
    keys = fl.calls_to('archive::root_pair_hash')
    if not loads or not keys:
        return
    EXIST_OK = ('meta::discover_local_fingerprints', 'std::fs::symlink_metadata', 'std::fs::metadata', 'std::fs::canonicalize', 'std::fs::read_dir')
    for kb, kt in keys:
        for ai in (0, 1):
            ao = [o for o in fl.origins(kt['args'][ai]) if o.kind != 'comb']
            if not ao or not all(o.kind == 'param' and not [e for e in o.path if not e.startswith('@')] for o in ao):
                ctx.undecided('C07.R7', 'run_bisync hands root_pair_hash a derived value for root %d: whether it identifies the directory is not decided' % (ai + 1))
                continue
            slots = {o.key for o in ao}
            ev = []      # edge sets that prove the root exists
            cgx = callgraph_of(F)

            def walks(c):
                # a crate function that lists the directory it is given (its Err on a missing root proves nothing was scanned)
                return F.body(c) is not None and bool(cgx.reaches_callee(c, lambda x: x == 'std::fs::read_dir')) and 'Result<' in F.body(c).local_ty(0)
            for sb, st in fl.calls(lambda c: c in EXIST_OK or c == 'std::path::Path::exists' or c == 'std::path::Path::is_dir' or c == 'std::path::Path::try_exists' or walks(c)):
                if not st['args'] or {o.key for o in fl.origins(st['args'][0]) if o.kind == 'param'} != slots:
                    continue
                oc = fl.outcomes(sb)
                e = oc.get('Ok') or oc.get('true')
                if e:
                    ev.append(e)
            recs = [rb for rb, _ in fl.calls_to('reconcile::reconcile')]
            for lb, lt in loads:
                ok = any(fl.cfg.edges_guard(e, lb) for e in ev) or _flag_implies(fl, lb, ev)
                # .. or the archive is loaded early and every use of it (reconcile) lies behind the proof
                ok = ok or (bool(recs) and all(any(fl.cfg.edges_guard(e, rb) for e in ev) for rb in recs))
                ctx.check(ok, 'C07.R7', 'run_bisync:archive-loaded-for-existing-root#%d' % (ai + 1), 'Archive::load is reachable only where this root was scanned or shown to exist',
                          'run_bisync loads (and may trust) an archive under a pair key computed from a root that is not known to exist (such a root is not '
                          'canonicalized: the key is the path as typed, and the same spelling from another working directory finds a foreign archive that licenses deletes)',
                          term_loc(b, lb))


def _flag_implies(fl, target, evidence):
    """`let seeding = !a.exists() || !b.exists(); if seeding { None } else { load }`: the target sits behind an edge of a switch
    on a bool local; every definition of that local that can produce the value of that edge is itself behind one of the
    `evidence` edge sets (or IS the negation / copy of the tested call whose outcome the evidence is)."""
    b = fl.body
    cfg = fl.cfg
    ev_calls = {}       # block of the existence call -> the value of its result on the evidence edge
    for e in evidence:
        for (s_, t_, lab) in e:
            ev_calls[s_] = lab
    for sb in cfg.reachable():
        t = b.blocks[sb]['term']
        if t['k'] != 'switch' or t['on']['k'] == 'const' or t['on']['p']['proj'] or b.local_ty(t['on']['p']['l']) != 'bool':
            continue
        v = t['on']['p']['l']
        for val in (0, 1):
            tgt = dict((tv, tb) for tv, tb in t['targets']).get(val, t['otherwise'])
            if not cfg.edges_guard({(sb, tgt, val)}, target) and not cfg.edges_guard({(sb, tgt, 'otherwise')}, target):
                continue
            if _defs_imply(fl, v, val, evidence, 0):
                return True
    return False


def _defs_imply(fl, v, val, evidence, depth):
    if depth > 4:
        return False
    b = fl.body
    cfg = fl.cfg
    ds = fl.defs.get(v, [])
    if not ds:
        return False
    for (bb, idx, kind, data, dproj) in ds:
        if dproj:
            return False
        behind = any(cfg.edges_guard(e, bb) for e in evidence)
        if kind == 'call':
            # the tested call itself: its own outcome edge is the evidence when val is the proving value
            oc = fl.outcomes(bb)
            e = oc.get('true') if val else None
            if e and any(e == x or e <= x for x in evidence):
                continue
            if behind:
                continue
            return False
        rv = data
        if rv['k'] == 'use' and rv['ops'][0]['k'] == 'const':
            c = rv['ops'][0].get('v')
            if c in (0, 1, True, False) and int(bool(c)) != val:
                continue        # this definition cannot produce the value
            if behind:
                continue
            return False
        if rv['k'] == 'un' and rv['op'] == 'Not' and rv['ops'][0]['k'] != 'const' and not rv['ops'][0]['p']['proj']:
            if behind or _defs_imply(fl, rv['ops'][0]['p']['l'], 1 - val, evidence, depth + 1):
                continue
            return False
        if rv['k'] == 'use' and rv['ops'][0]['k'] != 'const' and not rv['ops'][0]['p']['proj']:
            if behind or _defs_imply(fl, rv['ops'][0]['p']['l'], val, evidence, depth + 1):
                continue
            return False
        if behind:
            continue
        return False
    return True
