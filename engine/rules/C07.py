"""C07 — a lost, damaged or foreign archive never causes a delete (DESIGN §7 C07)."""
from rules.common import *  # noqa: F401,F403
from callgraph import callgraph_of
import tables

CONFIGS = ['cli']
LEVEL = 'other'
EXPLANATION = (
    'Decides the mechanism end to end: (R1) Archive::load returns Some only under the Ok edges of fs::read and '
    'serde_json::from_slice and the true edges of format_version == FORMAT_VERSION and root_pair_hash == expected_pair; '
    '(R2) the only content read of an archive-derived path is that read, of the unmodified path (never .bak/.tmp), and load has one '
    'caller passing this run\'s pair hash; (R3) trust_base is exactly loaded.is_some() and reaches reconcile unchanged, base derives '
    'only from the loaded archive or an empty map; (R4) in reconcile the base lookup is guarded by trust_base and is the constant None '
    'otherwise, and that value is what reconcile_path receives; (R5) the decision DAG of reconcile_path never yields DeleteA/DeleteB '
    'when base is None (C18 engine); (R6) remove_file in the bisync graph occurs only on the DeleteA/DeleteB arms; (R7) every root-dependent value hashed into the pair key passes through canonicalize (the key names directories, not spellings). '
    'Not decided: behaviour of serde_json on malformed input (assumed to return Err).')
ASSUMPTIONS = ['serde_json::from_slice returns Err for truncated / garbage / wrong-shape input',
               'std::fs::read returns Err for a missing file']


def run(ctx):
    F = ctx.F['cli']
    ip = ctx.interproc['cli']
    ctx.rule('C07.R1', 'Archive::load: every Some return guarded by read Ok, parse Ok, format_version==FORMAT_VERSION, root_pair_hash==expected_pair', floor=1)
    ctx.rule('C07.R2', 'archive-derived paths are content-read only by load (unmodified path); load has one caller with this run\'s pair', floor=2)
    ctx.rule('C07.R3', 'trust_base == loaded.is_some() reaches reconcile unchanged; base derives only from the loaded archive or empty', floor=2)
    ctx.rule('C07.R4', 'reconcile: the base value handed to reconcile_path is None or exists only behind trust_base == true; no other use of base', floor=1)
    ctx.rule('C07.R5', 'reconcile_path never yields DeleteA/DeleteB when base is absent (decision DAG)', floor=1)
    ctx.rule('C07.R6', 'remove_file in the bisync call graph only on DeleteA/DeleteB arms of apply', floor=2)
    ctx.rule('C07.R7', 'the pair key hashes the symlink-resolved (canonicalized) roots: it identifies directories, not spellings', floor=2)
    ctx.attempt(r1, ctx, F)
    ctx.attempt(r7, ctx, F)
    ctx.attempt(r2, ctx, F, ip)
    ctx.attempt(r3, ctx, F, ip)
    ctx.attempt(r4, ctx, F)
    from rules import C18
    ctx.attempt(C18.no_delete_without_base, ctx, F, 'C07.R5')
    from rules import C02
    ctx.attempt(C02.deletes_only_on_delete_arms, ctx, F, 'C07.R6')


def r1(ctx, F):
    b = F.body('archive::Archive::load')
    if b is None:
        ctx.missing('C07.R1', 'archive::Archive::load')
    fl = flow_of(b)
    cfg = fl.cfg
    somes = ok_assign_blocks(b, 'Some')
    if not somes:
        ctx.missing('C07.R1', 'Archive::load has no Some return')
    reads = fl.calls(lambda c: c in tables.FS_READERS)
    parses = fl.calls(lambda c: c.startswith('serde_json::from_'))
    fv = F.consts.get('archive::FORMAT_VERSION', {}).get('val')
    if fv is None:
        ctx.missing('C07.R1', 'const archive::FORMAT_VERSION')
    # comparisons
    fmt_true, pair_true = set(), set()
    for bi in cfg.reachable():
        for st in b.blocks[bi]['stmts']:
            rv = st['rv']
            if rv['k'] == 'bin' and rv['op'] in ('Eq', 'Ne'):
                oa, ob = fl.origins(rv['ops'][0]), fl.origins(rv['ops'][1])
                is_fv = lambda os_: bool(os_) and all(o.path[-1:] == ('format_version',) and o.kind == 'call' for o in os_)
                is_c = lambda os_: bool(os_) and all(o.kind == 'const' and o.key == fv for o in os_)
                if (is_fv(oa) and is_c(ob)) or (is_fv(ob) and is_c(oa)):
                    oc = fl.outcomes(None, st['dst']['l'])
                    fmt_true |= oc.get('true' if rv['op'] == 'Eq' else 'false', set())
    for cb, ct in fl.calls_to('std::cmp::PartialEq::eq', 'std::cmp::PartialEq::ne'):
        oa, ob = fl.origins(ct['args'][0]), fl.origins(ct['args'][1])
        is_rp = lambda os_: bool(os_) and all(o.path[-1:] == ('root_pair_hash',) and o.kind == 'call' for o in os_)
        is_ep = lambda os_: bool(os_) and all(o.kind == 'param' and o.key == 2 and not o.path for o in os_)
        if (is_rp(oa) and is_ep(ob)) or (is_rp(ob) and is_ep(oa)):
            eq, ne = eq_edges(fl, cb)
            pair_true |= eq
    for sb in somes:
        c_read = any(fl.guarded_by(sb, rb, 'Ok') for rb, _ in reads)
        c_parse = any(fl.guarded_by(sb, pb, 'Ok') for pb, _ in parses)
        c_fmt = bool(fmt_true) and cfg.edges_guard(fmt_true, sb)
        c_pair = bool(pair_true) and cfg.edges_guard(pair_true, sb)
        # the returned archive is the parsed one, parsed from the bytes read from `path`
        ret_o = set()
        for st in b.blocks[sb]['stmts']:
            if st['dst']['l'] == 0 and st['rv']['k'] == 'agg':
                for o in st['rv']['ops']:
                    ret_o |= fl.origins(o)
        c_flow = bool(ret_o) and all(o.kind == 'call' and o.key.startswith('serde_json::from_') for o in ret_o)
        parse_in = set()
        for pb, pt in parses:
            parse_in |= fl.origins(pt['args'][0])
        c_flow2 = bool(parse_in) and all(o.kind == 'call' and o.key in tables.FS_READERS for o in parse_in)
        conds = [('fs::read Ok edge', c_read), ('serde_json parse Ok edge', c_parse),
                 ('format_version == FORMAT_VERSION(%s) true edge' % fv, c_fmt),
                 ('root_pair_hash == expected_pair true edge', c_pair),
                 ('returned value is the parsed archive', c_flow), ('parsed bytes are the bytes read', c_flow2)]
        ctx.check(all(c for _, c in conds), 'C07.R1', 'load:Some-return',
                  'Some guarded by read Ok, parse Ok, format and pair equality',
                  'Archive::load can return Some without: ' + ', '.join(n for n, c in conds if not c),
                  term_loc(b, sb), path=cfg.path(0, sb))


def r2(ctx, F, ip):
    cg = callgraph_of(F)
    # (a) reader calls inside archive.rs / bidir.rs
    n = 0
    for b in F.bodies_in_file('bin/copia/archive.rs') + F.bodies_in_file('bin/copia/bidir.rs'):
        fl = flow_of(b)
        for rb, rt in fl.calls(lambda c: c in tables.FS_READERS):
            c = callee(rt)
            pos = tables.FS_READERS[c]
            os_ = fl.origins(rt['args'][pos], interproc=ip, mut_calls=True)
            in_archive = b.file.endswith('archive.rs')
            derived = in_archive or any(o.kind == 'call' and o.key in ('archive::archive_path',) for o in os_)
            if not derived:
                continue
            n += 1
            top = b.path.split('::{')[0]
            if top == 'archive::Archive::load' and b.kind == 'fn':
                pure = bool(os_) and all(o.kind == 'param' and o.key == 1 and not o.path for o in os_)
                ctx.check(pure, 'C07.R2', 'load:%s' % c, 'reads exactly the `path` parameter',
                          'Archive::load reads a path other than the archive path itself (%s)' % sorted({'%s:%s' % (o.kind, o.key) for o in os_}),
                          term_loc(b, rb))
            elif top == 'archive::Archive::save' and c == 'std::fs::File::open':
                # the parent directory handle, used only for sync_all
                via_parent = any(o.kind == 'call' and o.key == 'std::path::Path::parent' for o in os_)
                ctx.check(via_parent, 'C07.R2', 'save:%s' % c, 'opens the parent directory (for fsync), not archive content',
                          'Archive::save opens an archive-derived file for reading', term_loc(b, rb))
            else:
                ctx.bad('C07.R2', '%s:%s' % (top, c), 'archive-derived path is read outside Archive::load (fallback to .bak/.tmp or a second reader)',
                        term_loc(b, rb))
    # (b) callers of load
    callers = cg.call_sites(lambda c: c == 'archive::Archive::load')
    ctx.check(len(callers) == 1 and callers[0][0].path == 'bidir::run_bisync', 'C07.R2', 'load:single-caller',
              'one caller: bidir::run_bisync', 'Archive::load has callers %s (expected exactly bidir::run_bisync)' % sorted(b.path for b, _, _ in callers),
              None)
    for b, bb, _ in callers:
        fl = flow_of(b)
        t = b.blocks[bb]['term']
        o_path = fl.origins(t['args'][0])
        o_pair = fl.origins(t['args'][1])
        ok_path = bool(o_path) and all(o.kind == 'call' and o.key == 'archive::archive_path' for o in o_path)
        ok_pair = bool(o_pair) and all(o.kind == 'call' and o.key == 'archive::root_pair_hash' for o in o_pair)
        # root_pair_hash(root_a, root_b) of this run, and archive_path(&pair) of that pair
        good = ok_path and ok_pair
        if good:
            for o in o_pair:
                a0 = call_arg_origins(fl, o.bb, 0)
                a1 = call_arg_origins(fl, o.bb, 1)
                good = good and all(x.kind == 'param' and x.key == 1 for x in a0) and all(x.kind == 'param' and x.key == 2 for x in a1)
            for o in o_path:
                a0 = call_arg_origins(fl, o.bb, 0)
                good = good and all(x.kind == 'call' and x.key == 'archive::root_pair_hash' for x in a0)
        ctx.check(good, 'C07.R2', 'run_bisync:load-args', 'load(archive_path(&pair), &pair) with pair = root_pair_hash(root_a, root_b)',
                  'Archive::load is not called with this run\'s archive path and pair hash', term_loc(b, bb))


def r3(ctx, F, ip):
    b = F.body('bidir::run_bisync')
    if b is None:
        ctx.missing('C07.R3', 'bidir::run_bisync')
    fl = flow_of(b)
    rc = fl.calls_to('reconcile::reconcile')
    if not rc:
        ctx.missing('C07.R3', 'run_bisync -> reconcile::reconcile')
    for cb, ct in rc:
        o_trust = fl.origins(ct['args'][3])
        ok = bool(o_trust) and all(o.kind == 'call' and o.key == 'std::option::Option::<T>::is_some' for o in o_trust)
        if ok:
            for o in o_trust:
                a0 = call_arg_origins(fl, o.bb, 0)
                ok = ok and bool(a0) and all(x.kind == 'call' and x.key == 'archive::Archive::load' for x in a0)
        ctx.check(ok, 'C07.R3', 'run_bisync:trust_base', 'trust_base == Archive::load(..).is_some(), passed unchanged',
                  'the trust flag given to reconcile is not exactly loaded.is_some(): %s' % sorted({'%s:%s' % (o.kind, o.key) for o in o_trust}),
                  term_loc(b, cb))
        o_base = fl.origins(ct['args'][2])
        allowed = lambda o: (o.kind == 'call' and o.key in ('archive::Archive::load', 'std::collections::BTreeMap::<K, V>::new',
                                                              'std::default::Default::default')) \
            or o.kind == 'comb' or (o.kind == 'const' and isinstance(o.key, str) and o.key.startswith('fn:std::collections::BTreeMap')) \
            or (o.kind == 'agg' and str(o.key).startswith('bidir::run_bisync::{closure'))
        has_load = any(o.kind == 'call' and o.key == 'archive::Archive::load' for o in o_base)
        bad = sorted({'%s:%s' % (o.kind, o.key) for o in o_base if not allowed(o)})
        # closures used to build base may only project the loaded archive
        for o in o_base:
            if o.kind == 'agg' and str(o.key).startswith('bidir::run_bisync::{closure'):
                cbody = F.body(o.key)
                if cbody is not None:
                    co = flow_of(cbody).origins(0)
                    for x in co:
                        if x.kind == 'call' and x.key not in ('std::collections::BTreeMap::<K, V>::new',):
                            bad.append('closure:%s' % x.key)
        ctx.check(has_load and not bad, 'C07.R3', 'run_bisync:base', 'base derives only from the loaded archive or an empty map',
                  'the base map given to reconcile has other sources: %s' % bad, term_loc(b, cb))


def r4(ctx, F):
    top = F.body('reconcile::reconcile')
    if top is None:
        ctx.missing('C07.R4', 'reconcile::reconcile')
    trust = param_index(top, 'trust_base') or 4
    base = param_index(top, 'base') or 3
    n_rp = 0
    # the decision may sit in the fn body or in a closure of an iterator chain (filter_map): every nested body is judged,
    # `trust_base` / `base` being the fn's parameters or their captures
    for b in F.nested('reconcile::reconcile'):
        fl = flow_of(b)
        cfg = fl.cfg

        def is_slot(os_, slot):
            os_ = [o for o in os_ if o.kind != 'comb']
            return bool(os_) and all(fn_param_slot(F, b, o) == slot and o.kind in ('param', 'upvar') for o in os_)

        def mentions(os_, slot):
            return any(o.kind in ('param', 'upvar') and fn_param_slot(F, b, o) == slot for o in os_)
        tr_true = set()
        for sb, st in switch_blocks_on(fl, lambda os_: is_slot(os_, trust)):
            tr, fa = bool_edges(sb, st)
            tr_true |= tr
        gets = [(gb, gt) for gb, gt in fl.calls(lambda c: c.startswith('std::collections::BTreeMap') and not c.endswith('::keys') and not c.endswith('::len'))
                if mentions(fl.origins(gt['args'][0]), base)]
        # (looking a path up in `base` is harmless by itself; what matters is which value reaches reconcile_path - judged below)
        # any other use of base (iteration etc.); handing it to a closure of this function is not a use - that closure is judged itself
        for bi in cfg.reachable():
            t = b.blocks[bi]['term']
            if t['k'] == 'call' and (bi, t) not in gets:
                for a in t['args']:
                    if a['k'] == 'const':
                        continue
                    os_ = fl.origins(a)
                    if any(o.kind == 'agg' and F.body(o.key) is not None for o in os_):
                        continue
                    if mentions(os_, base) and not (tr_true and cfg.edges_guard(tr_true, bi)):
                        ctx.bad('C07.R4', 'reconcile:%s(base)' % (callee(t) or 'call'), 'reconcile uses `base` outside the trust_base branch', term_loc(b, bi))
        for cb, ct in fl.calls_to('reconcile::reconcile_path'):
            n_rp += 1
            # definitions of the third operand: None, or a value that exists only behind trust_base == true
            seen_l = set()
            has_none = [False]
            why = []

            def z_ok(op_, depth=0):
                if op_['k'] == 'const' or depth > 8:
                    return False
                l = op_['p']['l']
                if (l, depth > 0) in seen_l:
                    return True
                seen_l.add((l, depth > 0))
                ds = fl.defs.get(l, [])
                if not ds:
                    # a parameter / capture handed in as is
                    why.append('the base operand is taken from outside without a trust test')
                    return False
                good = True
                for (dbb, idx, kind, data, dproj) in ds:
                    guarded = bool(tr_true) and cfg.edges_guard(tr_true, dbb)
                    if kind == 'assign':
                        rv = data
                        if rv['k'] == 'agg' and rv.get('vname') == 'None':
                            has_none[0] = True
                        elif rv['k'] == 'agg' and rv.get('vname') == 'Some':
                            if not guarded:
                                good = False
                                why.append('a Some(..) base value is built outside the trust_base == true branch')
                        elif rv['k'] in ('use', 'ref', 'cast') and (rv.get('ops') or [{}])[0].get('k') != 'const':
                            src = rv['ops'][0] if 'ops' in rv else {'k': 'copy', 'p': rv['p']}
                            good = z_ok(src, depth + 1) and good
                        else:
                            good = False
                            why.append('unrecognised definition of the base operand')
                    else:
                        c_ = callee(data) or ''
                        if guarded:
                            continue
                        if c_.split('::')[-1] in ('copied', 'cloned', 'as_ref', 'map', 'filter', 'and_then', 'then', 'then_some'):
                            # Option combinators: the value exists only if their receiver / condition does
                            if c_.split('::')[-1] in ('then', 'then_some') and is_slot(fl.origins(data['args'][0]), trust):
                                continue        # trust_base.then(|| ..): Some only when trust_base
                            good = z_ok(data['args'][0], depth + 1) and good
                        else:
                            good = False
                            why.append('%s outside the trust_base == true branch' % c_.split('::')[-1])
                return good
            ok = z_ok(ct['args'][2])
            ctx.check(ok and has_none[0], 'C07.R4', 'reconcile:z->reconcile_path', 'z is None, or a base value that exists only behind trust_base == true',
                      'the base value handed to reconcile_path can be a real base entry although trust_base is false (%s)' % ('; '.join(sorted(set(why))) or 'no None alternative'),
                      term_loc(b, cb))
    if not n_rp:
        ctx.missing('C07.R4', 'reconcile -> reconcile_path')


RESOLVERS = ('std::fs::canonicalize', 'std::path::Path::canonicalize', 'tokio::fs::canonicalize', 'std::fs::read_link')


def value_includes_call(F, body, op, pred, depth=0, seen=None):
    """Some origin of the operand is the result of a call satisfying `pred` - followed through closure calls
    (Fn::call -> the closure body's return value) and nested closures."""
    if seen is None:
        seen = set()
    fl = flow_of(body)
    for o in fl.origins(op):
        k = (body.path, o.kind, o.key, o.bb)
        if k in seen:
            continue
        seen.add(k)
        if o.kind != 'call':
            continue
        if pred(o.key):
            return True
        t = body.blocks[o.bb]['term']
        if o.key in ('std::ops::Fn::call', 'std::ops::FnOnce::call_once', 'std::ops::FnMut::call_mut') and depth < 4:
            for c in fl.origins(t['args'][0]):
                cb = F.body(c.key) if c.kind == 'agg' else None
                if cb is not None and value_includes_call(F, cb, {'k': 'copy', 'p': {'l': 0, 'proj': []}}, pred, depth + 1, seen):
                    return True
        elif F.body(o.key) is not None and depth < 4:
            cb = F.body(o.key)
            if value_includes_call(F, cb, {'k': 'copy', 'p': {'l': 0, 'proj': []}}, pred, depth + 1, seen):
                return True
        else:
            # combinators taking a closure (unwrap_or_else, map, ...) and plain adapters: look at what they were given
            for a in t['args'][:1]:
                if depth < 6 and value_includes_call(F, body, a, pred, depth + 1, seen):
                    return True
    return False


def mentions_param(fl, op, depth=0, seen=None):
    """the operand's value depends on a parameter of the function (through any call argument)"""
    seen = set() if seen is None else seen
    for o in fl.origins(op, mut_calls=True):
        k = (o.kind, o.key, o.bb)
        if k in seen:
            continue
        seen.add(k)
        if o.kind in ('param', 'upvar'):
            return True
        if o.kind in ('call', 'mutcall') and o.bb is not None and depth < 8:
            for a in fl.body.blocks[o.bb]['term'].get('args', []):
                if a['k'] != 'const' and mentions_param(fl, a, depth + 1, seen):
                    return True
    return False


def r7(ctx, F):
    b = F.body('archive::root_pair_hash')
    if b is None:
        ctx.missing('C07.R7', 'archive::root_pair_hash')
    fl = flow_of(b)
    ups = fl.calls(lambda c: c.endswith('Hasher::update'))
    n = 0
    for ub, ut in ups:
        if not mentions_param(fl, ut['args'][1]):
            continue        # the separator: bytes that do not depend on either root
        n += 1
        ok = value_includes_call(F, b, ut['args'][1], lambda c: c in RESOLVERS)
        ctx.check(ok, 'C07.R7', 'root_pair_hash:update#%d' % n, 'hashed root passes through canonicalize',
                  'the archive key is computed from a root path that was not symlink-resolved (canonicalize): two different directories reached '
                  'through one spelling (a re-pointed symlink, a remounted path) share an archive, and the foreign base licenses deletes', term_loc(b, ub))
    if n < 2:
        ctx.missing('C07.R7', 'root_pair_hash: two hashed roots (found %d)' % n)
