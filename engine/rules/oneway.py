"""Shared anchors of the one-way sync rules (C04, C09, C14, C15): effect classification of callees
(file-system mutators, mutating / read-only spawns) and the delivery bodies."""
from rules.common import *  # noqa: F401,F403
from callgraph import callgraph_of
import shell
import shtemplate
import tables

RUN_REC = 'incremental::run_sync_recursive'
RUN_LOCAL = 'incremental::run_local'
RUN_REMOTE = 'incremental::run_remote'


class Effects:
    """Classifies crate-local bodies by the external effects they can reach."""

    def __init__(self, F):
        self.F = F
        self.cg = callgraph_of(F)
        self.tpl = shtemplate.Templates(F)
        self._direct = {}
        self._reach = {}

    def direct(self, path):
        """{'fs': [(bb, callee)], 'spawn_mut': [(bb, desc)], 'spawn_ro': [(bb, desc)]} of one body."""
        if path in self._direct:
            return self._direct[path]
        b = self.F.body(path)
        out = {'fs': [], 'spawn_mut': [], 'spawn_ro': []}
        if b is not None:
            fl = flow_of(b)
            for bb, t in fl.calls(lambda c: c in tables.FS_MUTATORS):
                c = callee(t)
                if c.endswith('OpenOptions::open'):
                    # mutating only when opened for writing
                    chain = [callee(t2) for _, t2 in fl.calls(lambda c2: c2.startswith(c.rsplit('::', 1)[0] + '::'))]
                    if not any(x.endswith(('::write', '::append', '::create', '::truncate', '::create_new')) for x in chain):
                        continue
                out['fs'].append((bb, c))
            for cmd in shell.commands(b):
                prog = cmd.program_const()
                if prog == 'ssh':
                    items = []
                    for (ab, aop) in cmd.args[1:]:
                        if items:
                            items.append(' ')
                        items.extend(self.tpl.template_of_operand(b, aop))
                    pieces, holes = shtemplate.flatten(items)
                    words, probs = shell.tokenize(pieces)
                    mut = any(shell.is_mutating(cw) for _, cw in shell.split_commands(words))
                    (out['spawn_mut'] if mut else out['spawn_ro']).append((cmd.new_bb, shtemplate.render(items)))
                elif isinstance(prog, str) and prog in ('hostname', 'uname', 'whoami'):
                    out['spawn_ro'].append((cmd.new_bb, prog))
                else:
                    out['spawn_mut'].append((cmd.new_bb, 'spawn of %s' % (prog if isinstance(prog, str) else 'a computed program')))
        self._direct[path] = out
        return out

    def reach_effects(self, path):
        """Union of direct effects over every body reachable from `path`."""
        if path in self._reach:
            return self._reach[path]
        out = {'fs': [], 'spawn_mut': [], 'spawn_ro': []}
        for p in self.cg.reach([path]):
            d = self.direct(p)
            for k in out:
                out[k].extend((p, bb, x) for bb, x in d[k])
        self._reach[path] = out
        return out

    def is_mutating(self, path):
        e = self.reach_effects(path)
        return bool(e['fs'] or e['spawn_mut'])

    def effect_sites(self, body):
        """[(bb, kind, what)] in `body`: calls to mutating crate-local fns, direct fs mutators, mutating spawns,
        and creation of closures/coroutines whose bodies mutate (spawned tasks)."""
        out = []
        fl = flow_of(body)
        d = self.direct(body.path)
        for bb, c in d['fs']:
            out.append((bb, 'fs', c))
        for bb, desc in d['spawn_mut']:
            out.append((bb, 'spawn', desc))
        for bi in fl.cfg.reachable():
            blk = body.blocks[bi]
            t = blk['term']
            if t['k'] == 'call' and callee(t) != 'std::future::Future::poll':
                c = callee_resolved(t) or callee(t)
                if c in self.F.bodies and c != body.path and self.is_mutating(c):
                    out.append((bi, 'call', c))
            for st in blk['stmts']:
                rv = st['rv']
                if rv['k'] == 'agg' and rv.get('ak') in ('closure', 'coroutine'):
                    dp = norm(rv['def'])
                    if dp in self.F.bodies and self.is_mutating(dp):
                        out.append((bi, 'task', dp))
        return out


def dry_run_false_edges(fl):
    out = set()
    for sb, st in switch_blocks_on(fl, lambda os_: bool(os_) and all(o.path[-1:] == ('dry_run',) for o in os_)):
        tr, fa = bool_edges(sb, st)
        out |= fa
    return out
