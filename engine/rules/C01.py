"""C01 — delta round-trip reconstructs the source byte-for-byte (DESIGN §7 C01)."""
from rules.common import *  # noqa: F401,F403
from rules.scan import Scan, ENGINES, confirming_lookups, data_param, returns_block_index, lookup_data_arg, lookup_weak_arg
from callgraph import callgraph_of
from terms import term_of, place_term, strip_payload

LEVEL = 'other'
EXPLANATION = (
    'Decides necessary conditions of the round trip, not the byte equality: (R1) every emitted copy is reachable only through the Some edge of a lookup that '
    'confirms candidates with BLAKE3 of exactly the window source[pos..pos+block_size], its length is that block_size and its offset derives from the matched '
    'block index (the set of confirming lookups is computed from their bodies); (R2) accounting: each loop iteration emits exactly one of {copy, literal byte}, the '
    'cursor advances by the copy length resp. by 1, the literal byte is source[pos] before the advance, and the tail [pos..] is emitted whenever pos < len; (R3) the '
    'delta header carries source_data.len(), signature.file_size and the BLAKE3 of the whole source, and that object is returned; (R4) only the two delta functions '
    'emit ops; the single-file command and the CLI chain call these engines; the three signature producers hash zero-based sequential chunks of block_size; (R5) '
    'push_copy merges only contiguous copies with a checked length; (R6) both engines satisfy the same rule vector; (R7) the CLI writes and reads back the same '
    'types. (R9) in both patch engines the bytes written for a copy op are read_exact into a buffer of the length of the op after seek(Start(op.offset)), in the engine or in the helper that does the read; a helper that elides the seek by a remembered position must set that position from the seek target; (R8) sync_files publishes either a whole write of the patched output or, when the destination is assembled from a copy of the old file plus partial writes, a file that passed set_len on every path to the rename except under an edge that has just found the two lengths equal (that the assembled bytes equal the output is NO-VERDICT). patch reproduce-or-reject is C05. Not decided: equality of the reconstructed bytes; that every copy lies inside the basis (needs the value fact that only '
    'full blocks match).')
ASSUMPTIONS = ['BLAKE3 collision freeness', 'bincode/serde round-trip of Signature and Delta']


def run(ctx):
    ctx.rule('C01.R1', 'confirmed copy: push_copy only under the Some edge of a BLAKE3-confirming lookup on source[pos..pos+block_size]', floor=2)
    ctx.rule('C01.R2', 'accounting: one of {copy, literal byte} per iteration; cursor advance == emitted length; tail emitted', floor=8)
    ctx.rule('C01.R3', 'header: source len, basis size, BLAKE3 of the whole source; returned object is that delta', floor=2)
    ctx.rule('C01.R4', 'one matcher: only the two delta fns emit ops; commands use the engines; signature producers agree', floor=6)
    ctx.rule('C01.R5', 'push_copy merges only contiguous copies with checked length', floor=1)
    ctx.rule('C01.R6', 'sibling agreement: sync and async engines have the same verdict vector', floor=1)
    ctx.rule('C01.R7', 'CLI file chain: bincode serialize/deserialize agree on Signature / Delta', floor=2)
    ctx.rule('C01.R9', 'patch, copy arm: the bytes written for Copy{offset, len} are read_exact into a buffer of that length after seek(Start(offset)) - in the engine or in the helper that reads', floor=2)
    ctx.rule('C01.R8', 'single-file sync: every file sync_files creates holds exactly the source bytes it read or the whole buffer patch() produced', floor=2)
    for cfgname, F in ctx.F.items():
        conf = confirming_lookups(F)
        verdicts = {}
        undecided_engine = False
        for fn, tag in ENGINES:
            if not F.nested(fn):
                if tag == 'async' and cfgname == 'default':
                    continue
                ctx.missing('C01.R1', fn)
            sc = Scan(ctx, F, fn, tag, 'C01.R1')
            if sc.state_machine:
                ctx.undecided('C01.R1', '%s: the scan loop dispatches on a state variable %s assigned inside the loop: the per-iteration path rules do not apply' % (tag, sc.state_machine))
                undecided_engine = True
                continue
            sub = _Rec(ctx)
            r1(sub, F, sc, conf)
            r2(sub, F, sc)
            r3(sub, F, sc)
            verdicts[tag] = sub.vector
            undecided_engine = undecided_engine or getattr(sub, 'und', False)
        if len(verdicts) == 2 and undecided_engine:
            ctx.undecided('C01.R6', 'sibling agreement (%s): one engine has a shape the scan rules do not read, so the two verdict vectors are not comparable' % cfgname)
        elif len(verdicts) == 2:
            a, b = verdicts['sync'], verdicts['async']
            diff = sorted(k for k in set(a) | set(b) if a.get(k) != b.get(k))
            ctx.check(not diff, 'C01.R6', 'sibling-agreement:%s' % cfgname, '%d rule instances agree' % len(a),
                      'the sync and async delta engines disagree on %s' % diff, None)
        r4(ctx, F, cfgname)
        r5(ctx, F)
        ctx.attempt(r9, ctx, F, cfgname)
        if 'bin' in F.crates:
            r7(ctx, F)
        if F.nested('async_sync::AsyncCopiaSync::sync_files'):
            r8(ctx, F, cfgname)


def r9(ctx, F, cfgname):
    from rules import C05
    for fn, tag in C05.ENGINES:
        if not F.nested(fn):
            continue
        b = work_body(F, fn, C05.WRITE)
        if b is None:
            ctx.missing('C01.R9', fn + ' (no write_all call found)')
        fl = flow_of(b)
        C05._r4(ctx, F, b, fl, fn, '%s:%s' % (tag, cfgname), fl.calls(lambda c: c in C05.WRITE), 'C01.R9')


class _Rec:
    """records the per-engine verdict vector while forwarding to ctx"""

    def __init__(self, ctx):
        self.ctx = ctx
        self.vector = {}

    def check(self, cond, rid, key, ok_detail, bad_msg, loc=None, path=None):
        tagless = key.split(':', 1)[1] if ':' in key else key
        self.vector[(rid, tagless)] = bool(cond)
        return self.ctx.check(cond, rid, key, ok_detail, bad_msg, loc, path)

    def bad(self, rid, key, msg, loc=None, path=None):
        tagless = key.split(':', 1)[1] if ':' in key else key
        self.vector[(rid, tagless)] = False
        self.ctx.bad(rid, key, msg, loc, path)

    def ok(self, rid, key, detail='', loc=None):
        self.ctx.ok(rid, key, detail, loc)

    def missing(self, rid, sym):
        self.ctx.missing(rid, sym)

    def undecided(self, rid, what):
        self.und = True
        self.ctx.undecided(rid, what)


def norm_add(t):
    """('add', a, b) for AddWithOverflow(..).0 and Add(..)"""
    t = strip_payload(t)
    if t[0] == 'field' and t[2] == '0' and t[1][0] == 'bin' and t[1][1] in ('AddWithOverflow',):
        return ('add', t[1][2], t[1][3])
    if t[0] == 'bin' and t[1] == 'Add':
        return ('add', t[2], t[3])
    return t


def is_bs_term(t):
    t = strip_payload(t)
    while t[0] == 'cast':
        t = t[1]
    return t[0] == 'field' and t[2] == 'block_size'


def r1(ctx, F, sc, conf):
    fl, b, tag = sc.fl, sc.b, sc.tag
    for pb, pt in sc.copies:
        guards = []
        for lb, lt in sc.lookups:
            c = callee(lt)
            if fl.guarded_by(pb, lb, 'Some'):
                guards.append((lb, lt, c))
        ok = False
        unread = None
        why = 'no lookup Some edge guards the copy'
        for lb, lt, c in guards:
            good, reason = conf.get(c, (False, 'unknown lookup'))
            if good is None:
                unread = '%s: %s' % (c.split('::')[-1], reason)
                continue
            if not good:
                why = '%s does not confirm candidates with the strong hash (%s)' % (c.split('::')[-1], reason)
                continue
            # data argument = source[pos .. pos + block_size]
            data_arg = lookup_data_arg(F, lt)
            rd = sc.range_desc(data_arg)
            if not rd or not rd[0] or rd[1] != 'Range':
                why = 'the confirmed data is not a range of the source'
                continue
            start, end = rd[2].get('start'), norm_add(rd[2].get('end'))
            win = end[0] == 'add' and strip_payload(end[1]) == strip_payload(start) and is_bs_term(end[2])
            if not win:
                why = 'the confirmed window is not source[pos..pos+block_size]'
                continue
            # copy length = block_size (cast), offset derives from sig.index of this lookup
            len_t = strip_payload(sc.term(pt['args'][2]))
            len_ok = is_bs_term(len_t)
            off_o = fl.origins(pt['args'][1])
            idx_ok = any(o.kind == 'call' and o.bb == lb and (o.path[-1:] == ('index',) or returns_block_index(F, c)) for o in off_o)
            if not idx_ok and any(o.kind == 'call' and o.bb == lb for o in off_o):
                # `lookup(..).map(|sig| sig.index)`: the projection sits in the closure handed to the combinator
                for o in off_o:
                    cb_ = F.body(o.key) if o.kind == 'agg' else None
                    if cb_ is not None:
                        ro = [x for x in flow_of(cb_).origins(0) if x.kind != 'comb']
                        if ro and all(x.kind == 'param' and tuple(x.path)[-1:] == ('index',) for x in ro):
                            idx_ok = True
            if not len_ok:
                why = 'copy length is not the block size of the confirmed window'
                continue
            if not idx_ok:
                why = 'copy offset does not derive from the matched block index'
                continue
            ok = True
        if not ok and unread:
            ctx.undecided('C01.R1', '%s: the copy is behind a lookup whose confirmation could not be read (%s)' % (tag, unread))
            continue
        if not ok and not guards:
            # no Some edge of a lookup leads here - but the copy's offset may still be computed from what a confirming lookup
            # returned, handed through combinators the edge rules do not follow (`gate.then(|| lookup).flatten()`): not decided
            off_o = fl.origins(pt['args'][1])
            via = [callee(lt) for lb, lt in sc.lookups if any(o.kind == 'call' and o.bb == lb for o in off_o) and conf.get(callee(lt), (False,))[0]]
            if not via and off_o and all('offset' in o.path and o.kind in ('call', 'param', 'upvar') for o in off_o if o.kind != 'comb'):
                # `match op { DeltaOp::Copy { offset, len } => out.push_copy(offset, len) }`: an operation computed elsewhere is
                # appended again (stitching the parts of a split scan): where it was confirmed is not this site
                ctx.undecided('C01.R1', '%s: a copy operation computed elsewhere is re-emitted (offset = field of an existing DeltaOp::Copy)' % tag)
                continue
            if via:
                ctx.undecided('C01.R1', '%s: the copy takes its offset from %s, but not under an edge the rule follows' % (tag, via[0].split('::')[-1]))
                continue
        ctx.check(ok, 'C01.R1', '%s:push_copy' % tag, 'guarded by a confirming lookup on source[pos..pos+block_size]; len = block_size; offset <- sig.index',
                  'a copy is emitted without BLAKE3 confirmation of exactly the bytes it stands for: %s' % why, term_loc(b, pb))


def r2(ctx, F, sc):
    fl, b, tag, cfg = sc.fl, sc.b, sc.tag, sc.cfg
    head = sc.head
    blocks = sc.body_blocks
    emit_c = [pb for pb, _ in sc.copies if pb in blocks]
    emit_l = [lb for lb, _ in sc.lit_bytes if lb in blocks]
    # exactly one emission per iteration
    entry_succ = [t for t, lab in cfg.succ[head] if t in blocks]
    r = set()
    for s in blocks:
        pass
    # from the loop body (after the condition) the back edge is unreachable without passing an emission
    back_srcs = [s for (s, t) in cfg.back_edges() if t == head]
    reach_wo = cfg.reach(head, cut_blocks=set(emit_c) | set(emit_l))
    exhaustive = not any(s in reach_wo for s in back_srcs)
    exclusive = True
    for x in emit_c + emit_l:
        for y in emit_c + emit_l:
            if x != y:
                # x reaches y without passing the head
                rr = set()
                for s, _ in cfg.succ[x]:
                    rr |= cfg.reach(s, cut_blocks=[head])
                if y in rr:
                    exclusive = False
    if len(emit_c) != 1 or len(emit_l) != 1:
        # another loop shape (emissions in helpers, several scan loops): the per-iteration accounting is not read from it
        ctx.undecided('C01.R2', '%s: the scan loop does not have the one-copy / one-literal-byte shape (copies=%d, literal bytes=%d): accounting not decided' % (tag, len(emit_c), len(emit_l)))
        return
    ctx.check(exhaustive and exclusive and len(emit_c) == 1 and len(emit_l) == 1, 'C01.R2', '%s:one-emission-per-iteration' % tag,
              'every iteration emits exactly one of {push_copy, push_literal_byte}',
              'an iteration of the scan loop can emit nothing or two ops (exhaustive=%s, exclusive=%s, copies=%d, literal bytes=%d): lengths would not sum to the source size'
              % (exhaustive, exclusive, len(emit_c), len(emit_l)), term_loc(b, head))
    # cursor
    pos_cands = sc.pos_local()
    # the cursor is the start of the lookup window
    pos = None
    for lb, lt in sc.lookups:
        c = callee(lt)
        da = lookup_data_arg(F, lt)
        rd = sc.range_desc(da) if da is not None else None
        if rd and rd[1] == 'Range':
            st = strip_payload(rd[2]['start'])
            if st[0] == 'phi' and st[1] in pos_cands:
                pos = st[1]
    if pos is None:
        ctx.undecided('C01.R2', '%s: cannot identify the scan cursor (start of the confirmed window)' % tag)
        return
    assigns = []
    for bi in blocks:
        for st in b.blocks[bi]['stmts']:
            if st['dst']['l'] == pos and not st['dst']['proj']:
                rv_ = st['rv']
                if rv_['k'] == 'use':
                    t_ = term_of(fl, rv_['ops'][0])
                elif rv_['k'] == 'bin':
                    # without overflow checks (release flags) `pos += n` is a plain Add assigned to the cursor itself
                    t_ = ('bin', rv_['op'], term_of(fl, rv_['ops'][0]), term_of(fl, rv_['ops'][1]))
                else:
                    t_ = ('other',)
                assigns.append((bi, norm_add(t_)))
    # the copy path = blocks reachable only through the Some edge of a lookup; everything else in the loop is the literal path
    some_e = set()
    for lb, lt in sc.lookups:
        some_e |= fl.outcomes(lb).get('Some', set())
    on_copy_path = lambda bi: bool(some_e) and cfg.edges_guard(some_e, bi)
    adv_c = [(bi, t) for bi, t in assigns if on_copy_path(bi)]
    adv_l = [(bi, t) for bi, t in assigns if not on_copy_path(bi)]
    other = []
    if emit_c and not on_copy_path(emit_c[0]):
        other = assigns
    ok_c = len(adv_c) == 1 and adv_c[0][1][0] == 'add' and strip_payload(adv_c[0][1][1]) == ('phi', pos) and is_bs_term(adv_c[0][1][2])
    ok_l = len(adv_l) == 1 and adv_l[0][1][0] == 'add' and strip_payload(adv_l[0][1][1]) == ('phi', pos) and strip_payload(adv_l[0][1][2]) == ('const', 1)
    ctx.check(ok_c, 'C01.R2', '%s:advance-after-copy' % tag, 'pos += block_size once after a copy',
              'after a copy the cursor does not advance by exactly the copy length (%s)' % [t for _, t in adv_c], term_loc(b, emit_c[0]) if emit_c else None)
    ctx.check(ok_l, 'C01.R2', '%s:advance-after-literal' % tag, 'pos += 1 once after a literal byte',
              'after a literal byte the cursor does not advance by exactly 1 (%s)' % [t for _, t in adv_l], term_loc(b, emit_l[0]) if emit_l else None)
    ctx.check(not other, 'C01.R2', '%s:no-other-cursor-write' % tag, 'no other assignment to the cursor in the loop',
              'the cursor is also modified elsewhere in the loop', term_loc(b, other[0][0]) if other else None)
    # literal byte = source[pos] read before the advance
    lit_ok = False
    for lb, lt in sc.lit_bytes:
        rd = sc.range_desc(lt['args'][1])
        if not (rd and rd[0] and rd[1] == 'elem'):
            continue
        it = strip_payload(rd[2]['i'])
        if it == ('phi', pos):
            # source[pos] read before the advance
            lit_ok = all(cfg.dominates(rd[3], bi) for bi, _ in adv_l)
        else:
            # source[pos - 1] read after the advance
            sub = it
            if sub[0] == 'field' and sub[2] == '0' and sub[1][0] == 'bin' and sub[1][1] == 'SubWithOverflow':
                sub = ('sub', sub[1][2], sub[1][3])
            elif sub[0] == 'bin' and sub[1] == 'Sub':
                sub = ('sub', sub[2], sub[3])
            if sub[0] == 'sub' and strip_payload(sub[1]) == ('phi', pos) and strip_payload(sub[2]) == ('const', 1):
                lit_ok = all(cfg.dominates(bi, rd[3]) for bi, _ in adv_l) and bool(adv_l)
    ctx.check(lit_ok, 'C01.R2', '%s:literal-byte-is-source[pos]' % tag, 'push_literal_byte(source[pos]) with the pre-increment pos',
              'the literal byte emitted is not source[pos] (before the advance)', term_loc(b, emit_l[0]) if emit_l else None)
    # loop condition pos + block_size <= len (any spelling: `<=`, `>=` with swapped operands, a negated `>` that breaks)
    def is_pos_plus_bs(op_):
        lhs = norm_add(term_of(fl, op_))
        return lhs[0] == 'add' and strip_payload(lhs[1]) == ('phi', pos) and is_bs_term(lhs[2])

    def is_src_len(op_):
        os_ = [o for o in fl.origins(op_) if o.kind != 'comb']
        return bool(os_) and all(o.kind == 'call' and o.key.endswith('::len') and sc.is_src(call_arg_origins(fl, o.bb, 0)) for o in os_)

    def is_pos(op_):
        return strip_payload(term_of(fl, op_)) == ('phi', pos)
    le_e = order_edges(fl, is_pos_plus_bs, is_src_len)
    cond_ok = bool(le_e) and all(cfg.edges_guard(le_e, x) for x in emit_c + emit_l)
    ctx.check(cond_ok, 'C01.R2', '%s:loop-condition' % tag, 'emissions only while pos + block_size <= source.len()',
              'the scan loop is not guarded by pos + block_size <= source.len()', term_loc(b, head))
    # tail
    tail_ok = False
    for tb, tt in sc.lits:
        if tb in blocks:
            continue
        rd = sc.range_desc(tt['args'][1])
        tail_slice = bool(rd and rd[0] and rd[1] == 'RangeFrom' and strip_payload(rd[2]['start']) == ('phi', pos))
        if not tail_slice:
            # the same bytes spelled source.split_at(pos).1
            for o in fl.origins(tt['args'][1]):
                if o.kind == 'call' and o.key.endswith('::split_at') and tuple(o.path)[-1:] == ('1',):
                    t_ = b.blocks[o.bb]['term']
                    if sc.is_src(fl.origins(t_['args'][0])) and is_pos(t_['args'][1]):
                        tail_slice = True
        if tail_slice:
            lt_e = order_edges(fl, is_pos, is_src_len, strict=True)
            for bi in sorted({e[0] for e in lt_e}):
                for _once in (1,):
                    if True:
                        te = {e for e in lt_e if e[0] == bi}
                        if te and cfg.edges_guard(te, tb):
                            # unavoidable on the true edge
                            un = True
                            for (s, t, lab) in te:
                                if set(cfg.exits()) & cfg.reach(t, cut_blocks=[tb]):
                                    un = False
                            # and the test is reached on every loop exit
                            exits_ok = True
                            for s in blocks:
                                for t, lab in cfg.succ[s]:
                                    if t not in blocks and t not in error_blocks(b):
                                        if set(cfg.exits()) & cfg.reach(t, cut_blocks=[bi]) and not cfg.reach(t) <= set():
                                            exits_ok = exits_ok and (bi in cfg.reach(t))
                            tail_ok = un and exits_ok
    ctx.check(tail_ok, 'C01.R2', '%s:tail' % tag, 'push_literal(&source[pos..]) whenever pos < len after the loop',
              'the bytes after the last full window are not emitted as literals on every path', term_loc(b, head))
    # early exits: empty source -> no ops; empty table -> whole source literal
    whole = False
    for tb, tt in sc.lits:
        if tb not in blocks and sc.is_src(fl.origins(tt['args'][1])) and not sc.range_desc(tt['args'][1]):
            whole = True
    ctx.check(whole, 'C01.R2', '%s:empty-signature-all-literal' % tag, 'empty table: push_literal(&source_data) (whole source)',
              'with an empty signature the whole source is not emitted as one literal', term_loc(b, head))


def r3(ctx, F, sc):
    fl, b, tag = sc.fl, sc.b, sc.tag
    hs = [(hb, ht) for hb, ht in sc.headers if callee(ht) == 'delta::Delta::with_checksum']
    if len(hs) != 1:
        ctx.bad('C01.R3', '%s:header' % tag, 'the delta is not created by exactly one Delta::with_checksum', term_loc(b, b.lo if False else sc.head))
        return
    hb, ht = hs[0]
    size_o = fl.origins(ht['args'][1])
    size_ok = bool(size_o) and all(o.kind == 'call' and o.key.endswith('::len') and sc.is_src(call_arg_origins(fl, o.bb, 0)) for o in size_o)
    basis_o = fl.origins(ht['args'][2])
    basis_ok = bool(basis_o) and all(o.path[-1:] == ('file_size',) and o.kind in ('param', 'upvar') for o in basis_o)
    hash_o = fl.origins(ht['args'][3])
    hash_ok = bool(hash_o)
    for o in hash_o:
        if not (o.kind == 'call' and o.key == 'hash::StrongHash::compute'):
            hash_ok = False
            continue
        t = b.blocks[o.bb]['term']
        if not sc.is_src(fl.origins(t['args'][0])) or sc.range_desc(t['args'][0]):
            hash_ok = False
    bs_ok = is_bs_term(strip_payload(sc.term(ht['args'][0])))
    ctx.check(size_ok and basis_ok and hash_ok and bs_ok, 'C01.R3', '%s:header-fields' % tag,
              'with_checksum(block_size, source_data.len(), signature.file_size, BLAKE3(whole source_data))',
              'the delta header does not describe the source (source size: %s, basis size: %s, checksum of the whole source: %s, block size: %s)' % (size_ok, basis_ok, hash_ok, bs_ok),
              term_loc(b, hb))
    # every Ok return carries that object; every emission goes into it
    oks = ok_assign_blocks(b, 'Ok')
    ret_ok = bool(oks)
    for ob in oks:
        for st in b.blocks[ob]['stmts']:
            if st['dst']['l'] == 0 and st['rv']['k'] == 'agg':
                ro = fl.origins(st['rv']['ops'][0])
                ret_ok = ret_ok and bool(ro) and all(o.kind == 'call' and o.bb == hb for o in ro)
    em_ok = True
    for eb, et in sc.copies + sc.lit_bytes + sc.lits:
        eo = fl.origins(et['args'][0])
        em_ok = em_ok and bool(eo) and all(o.kind == 'call' and o.bb == hb for o in eo)
    ctx.check(ret_ok and em_ok, 'C01.R3', '%s:one-delta-object' % tag, 'ops are pushed into, and Ok returns, the delta created by with_checksum',
              'the returned delta is not the object the ops were pushed into', term_loc(b, hb))


def r4(ctx, F, cfgname):
    cg = callgraph_of(F)
    emitters = set()
    for b_, bb, c in cg.call_sites(lambda c: c in ('delta::Delta::push_copy', 'delta::Delta::push_literal', 'delta::Delta::push_literal_byte')):
        if b_.file.endswith('src/delta.rs'):
            continue
        emitters.add(b_.path.split('::{')[0])
    for path, b_ in F.bodies.items():
        if b_.file.endswith('src/delta.rs') or 'generated_contracts' in b_.file:
            continue
        for blk in b_.blocks:
            for st in blk['stmts']:
                rv = st['rv']
                if rv['k'] == 'agg' and rv.get('adt') == 'delta::DeltaOp':
                    emitters.add(path.split('::{')[0])
            t = blk['term']
            if t['k'] == 'call' and callee(t) in ('delta::DeltaOp::copy', 'delta::DeltaOp::literal', 'delta::DeltaOp::literal_from_slice'):
                emitters.add(path.split('::{')[0])
    want = {fn for fn, tag in ENGINES if F.nested(fn)}
    ctx.check(emitters == want, 'C01.R4', 'emitters:%s' % cfgname, 'ops are emitted only by %s' % sorted(want),
              'delta ops are emitted outside the two delta engines: %s' % sorted(emitters - want), None)
    # commands use the engines
    if F.nested('async_sync::AsyncCopiaSync::sync_files'):
        g = cg.reach(['async_sync::AsyncCopiaSync::sync_files'])
        need = {'signature::Signature::generate', '<sync::CopiaSync as sync::Sync>::delta', '<sync::CopiaSync as sync::Sync>::patch'}
        ctx.check(need <= g, 'C01.R4', 'sync_files:uses-engine:%s' % cfgname, 'sync_files -> Signature::generate, CopiaSync::delta, CopiaSync::patch',
                  'sync_files no longer goes through the library engine (missing %s)' % sorted(need - g), None)
    if 'bin' in F.crates:
        for cmd, need in (('run_signature', 'async_sync::AsyncCopiaSync::signature'), ('run_delta', 'async_sync::AsyncCopiaSync::delta'),
                          ('run_patch', 'async_sync::AsyncCopiaSync::patch'), ('single_sync::run_sync', 'async_sync::AsyncCopiaSync::sync_files')):
            g = cg.reach([cmd])
            ctx.check(need in g, 'C01.R4', '%s:uses-engine' % cmd, '%s -> %s' % (cmd, need), '%s does not call %s' % (cmd, need), None)
    # signature producers
    n = 0
    for b_, bb, c in cg.call_sites(lambda c: c == 'signature::BlockSignature::compute'):
        if 'generated_contracts' in b_.file:
            continue
        fl = flow_of(b_)
        t = b_.blocks[bb]['term']
        idx_t = strip_payload(term_of(fl, t['args'][0]))
        data_o = fl.origins(t['args'][1])
        top = b_.path.split('::{')[0]
        n += 1
        if b_.kind == 'closure':
            # |(i, chunk)| compute(i as u32, chunk): closure over enumerate() of (par_)chunks(block_size)
            while idx_t[0] == 'cast':
                idx_t = idx_t[1]
            # the index is the enumerate() counter itself (tuple field 0 of the closure argument), with no arithmetic on it
            io = [o for o in fl.origins(t['args'][0]) if o.kind != 'comb']
            ok = bool(io) and all(o.kind == 'param' and tuple(o.path)[-1:] == ('0',) for o in io) and bool(data_o) and all(o.kind == 'param' for o in data_o)
            parent = F.body(b_.parent)
            pfl = flow_of(parent)
            chunkers = pfl.calls(lambda c2: c2.endswith('::chunks') or c2.endswith('::par_chunks'))
            enums = pfl.calls(lambda c2: c2.endswith('::enumerate'))
            usize_params = [i for i in range(1, parent.argc + 1) if parent.local_ty(i) == 'usize']
            bs_ok = bool(chunkers) and len(usize_params) == 1 and all(all(o.kind == 'param' and o.key == usize_params[0] for o in pfl.origins(ct['args'][1])) for cb, ct in chunkers)
            # the chunked slice is the whole input, cut once: block i starts at i * block_size only then (a windowed loop that
            # restarts the chunking shifts every later block whenever the window is not a multiple of the block size)
            ploops = pfl.cfg.loops()
            once = all(not any(cb in blocks for blocks in ploops.values()) for cb, ct in chunkers)
            whole = all(any(o.kind == 'mutcall' and o.key.endswith('::read_to_end') for o in pfl.origins(ct['args'][0], mut_calls=True)) or
                        all(o.kind == 'param' for o in pfl.origins(ct['args'][0])) for cb, ct in chunkers)
            ok = ok and once and whole
            ctx.check(ok and bs_ok and len(enums) >= len(chunkers), 'C01.R4', 'signature-producer:%s' % b_.path.split('::')[-1] + ':' + cfgname,
                      'compute(enumerate index, chunk) over chunks(block_size)',
                      'a signature producer in %s does not hash zero-based sequential chunks of block_size' % top, term_loc(b_, bb))
        elif [o for o in fl.origins(t['args'][0]) if o.kind != 'comb'] and all(
                o.kind == 'call' and o.key == 'std::iter::Iterator::next' and tuple(o.path)[-1:] == ('0',) for o in fl.origins(t['args'][0]) if o.kind != 'comb'):
            # `for (i, chunk) in data.chunks(block_size).enumerate()` (or the iterator chain unfolded into that loop): the same
            # obligations as the closure form, the chunking being in this body
            chunkers = fl.calls(lambda c2: c2.endswith('::chunks') or c2.endswith('::par_chunks'))
            enums = fl.calls(lambda c2: c2.endswith('::enumerate'))
            usize_params = [i for i in range(1, b_.argc + 1) if b_.local_ty(i) == 'usize']
            bs_ok = bool(chunkers) and len(usize_params) == 1 and all(all(o.kind == 'param' and o.key == usize_params[0] for o in fl.origins(ct['args'][1])) for cb, ct in chunkers)
            loops_ = fl.cfg.loops()
            once = all(not any(cb in blocks for blocks in loops_.values()) for cb, ct in chunkers)
            whole = all(any(o.kind == 'mutcall' and o.key.endswith('::read_to_end') for o in fl.origins(ct['args'][0], mut_calls=True)) or
                        all(o.kind == 'param' for o in fl.origins(ct['args'][0])) for cb, ct in chunkers)
            nexts_ = {o.bb for o in fl.origins(t['args'][0]) if o.kind == 'call'}
            src_ok = all(any(o.kind == 'call' and (o.key.endswith('::chunks') or o.key.endswith('::par_chunks')) for o in iterated_collection(fl, nb_)) for nb_ in nexts_)
            data_ok = bool(data_o) and all(o.kind == 'call' and o.key == 'std::iter::Iterator::next' and o.bb in nexts_ and tuple(o.path)[-1:] == ('1',) for o in data_o if o.kind != 'comb')
            ctx.check(bs_ok and once and whole and src_ok and data_ok and len(enums) >= len(chunkers), 'C01.R4', 'signature-producer:%s' % 'closure#0' + ':' + cfgname,
                      'compute(enumerate index, chunk) over chunks(block_size)',
                      'a signature producer in %s does not hash zero-based sequential chunks of block_size' % top, term_loc(b_, bb))
        else:
            # async fill loop: index counter starts at 0, +1 per block; data = buffer[..bytes_read]
            ok_idx = idx_t[0] == 'phi'
            inc_ok = False
            init_ok = False
            if ok_idx:
                for (dbb, didx, kind, data, dproj) in fl.defs.get(idx_t[1], []):
                    if kind == 'assign' and data['k'] == 'use' and data['ops'][0]['k'] == 'const' and data['ops'][0].get('v') == 0:
                        init_ok = True
                    if kind == 'call' and callee(data).endswith('saturating_add') and any(o.kind == 'const' and o.key == 1 for o in fl.origins(data['args'][1])):
                        inc_ok = fl.cfg.dominates(bb, dbb)
                    if kind == 'assign' and data['k'] == 'use' and data['ops'][0]['k'] != 'const':
                        tt = strip_payload(term_of(fl, data['ops'][0]))
                        if tt[0] == 'field' and tt[1][0] == 'bin' and tt[1][1] == 'AddWithOverflow':
                            inc_ok = fl.cfg.dominates(bb, dbb)
                        if tt[0] == 'call' and tt[1].endswith('saturating_add') and tt[2][1] == ('const', 1) and strip_payload(tt[2][0]) == ('phi', idx_t[1]):
                            inc_ok = fl.cfg.dominates(bb, dbb)
            # the fill loop exits only when the buffer is full or read returned 0
            reads = fl.calls(lambda c2: c2.endswith('AsyncReadExt::read') or c2 == 'std::io::Read::read')
            fill_ok = False
            for rb, rt in reads:
                loops = fl.cfg.loops()
                inner = [h for h, blocks in loops.items() if rb in blocks and bb not in blocks]
                if inner:
                    fill_ok = True
            ctx.check(ok_idx and init_ok and inc_ok and fill_ok, 'C01.R4', 'signature-producer:async-fill-loop:' + cfgname,
                      'index counts 0,1,2..; buffer filled by an inner read loop', 'the async signature producer does not index blocks 0,1,2,.. over fully filled buffers (init=%s, inc=%s, fill loop=%s)' % (init_ok, inc_ok, fill_ok),
                      term_loc(b_, bb))
    want_n = 3 if F.nested('async_sync::AsyncCopiaSync::signature') else 2
    if n < want_n:
        ctx.missing('C01.R4', 'BlockSignature::compute call sites (found %d, want %d)' % (n, want_n))


def r5(ctx, F):
    b = F.body('delta::Delta::push_copy')
    if b is None:
        ctx.missing('C01.R5', 'delta::Delta::push_copy')
    fl = flow_of(b)
    cfg = fl.cfg
    # the in-place update `*prev_len = new_len`
    upd = None
    for bi in cfg.reachable():
        for st in b.blocks[bi]['stmts']:
            if st['dst']['proj'] and st['dst']['proj'][0] == 'deref' and b.local_name(st['dst']['l']) and 'u32' in b.local_ty(st['dst']['l']):
                upd = (bi, st)
    if upd is None:
        ctx.bad('C01.R5', 'push_copy:merge', 'push_copy no longer merges in place (or the merge is not recognisable)', loc(b, b.lo))
        return
    bi, st = upd
    chk = fl.calls(lambda c: c.endswith('::checked_add'))
    g_chk = any(fl.guarded_by(bi, cb, 'Some') for cb, _ in chk)
    new_from_chk = any(o.kind == 'call' and o.key.endswith('::checked_add') for o in fl.origins(st['rv']['ops'][0]))
    g_eq = False
    for b2 in cfg.reachable():
        for s2 in b.blocks[b2]['stmts']:
            rv = s2['rv']
            if rv['k'] == 'bin' and rv['op'] in ('Eq', 'Ne'):
                from rules.C01 import norm_add as _na
                # prev_offset + prev_len == offset, either operand order, `==` (true edge) or `!=` (false edge)
                for x_, y_ in ((rv['ops'][0], rv['ops'][1]), (rv['ops'][1], rv['ops'][0])):
                    lhs = _na(term_of(fl, x_))
                    rhs_o = fl.origins(y_)
                    if lhs[0] == 'add' and any(o.kind == 'param' and b.local_ty(o.key) == 'u64' for o in rhs_o):
                        oc = fl.outcomes(None, s2['dst']['l'])
                        eq_e = oc.get('true' if rv['op'] == 'Eq' else 'false')
                        if eq_e and cfg.edges_guard(eq_e, bi):
                            g_eq = True
                        # decide-then-act: the written value is the payload of a checked_add that itself ran only on the
                        # contiguous edge (the payload of an Option exists on its Some paths only, so the update inherits both guards)
                        vo = [o for o in fl.origins(st['rv']['ops'][0]) if o.kind != 'comb']
                        if eq_e and vo and all(o.kind == 'call' and o.key.endswith('::checked_add') and o.bb is not None and cfg.edges_guard(eq_e, o.bb) for o in vo):
                            g_eq = True
    vo_ = [o for o in fl.origins(st['rv']['ops'][0]) if o.kind != 'comb']
    if vo_ and all(o.kind == 'call' and o.key.endswith('::checked_add') for o in vo_):
        g_chk = True        # only the Some payload of checked_add is ever written
    ctx.check(g_chk and new_from_chk and g_eq, 'C01.R5', 'push_copy:merge-guards', 'merge only if prev_offset + prev_len == offset and checked_add is Some',
              'push_copy merges copies that are not contiguous or lets the merged length wrap (contiguity guard: %s, checked_add: %s)' % (g_eq, g_chk and new_from_chk), loc(b, b.lo))
    # otherwise a new op is pushed
    pushes = fl.calls(lambda c: c.endswith('Vec::<T, A>::push'))
    ctx.check(bool(pushes), 'C01.R5', 'push_copy:push-otherwise', 'non-mergeable copy is appended', 'push_copy drops copies it cannot merge', loc(b, b.lo))


def r8(ctx, F, cfgname):
    """`copia sync SRC DST` (AsyncCopiaSync::sync_files): what it leaves at the destination is exactly the source bytes.
    Today every file it creates is written in one piece from the source buffer or from the buffer patch() filled.  When the new
    file instead starts as a copy of the OLD destination, its length is the old one until it is set: every path from that copy to
    the publishing rename must pass a `set_len` (a necessary condition - without it a source that is a proper prefix of the old
    destination keeps the old tail).  Any other way of assembling the file is outside the model (NO-VERDICT)."""
    import tables
    cg = callgraph_of(F)
    graph = {p for p in cg.reach(['async_sync::AsyncCopiaSync::sync_files']) if F.body(p) is not None and F.body(p).file.endswith('src/async_sync.rs')}
    n = 0
    for p in sorted(graph):
        b = F.body(p)
        if '::tests' in p:
            continue
        fl = flow_of(b)
        cfg = fl.cfg
        renames = [rb for rb, _ in fl.calls(lambda c: c.endswith('fs::rename'))]
        setlens = [sb for sb, _ in fl.calls(lambda c: c.endswith('File::set_len'))]
        for cb, ct in fl.calls(lambda c: c in tables.CONTENT_CREATORS or c.endswith('OpenOptions::write')):
            c = callee(ct)
            key = 'sync_files:%s:%s' % (c.split('::')[-1], cfgname)
            if c.endswith('fs::write'):
                n += 1
                do = [o for o in fl.origins(ct['args'][1], mut_calls=True) if o.kind not in ('comb',)]
                from_patch = any(o.kind == 'mutcall' and o.key.endswith('::patch') for o in do)
                from_read = any(o.kind == 'call' and o.key.endswith('fs::read') for o in do)
                whole = not any(o.kind == 'call' and (o.key in ('std::ops::Index::index', 'std::ops::IndexMut::index_mut') or 'split_at' in o.key) for o in do)
                ctx.check((from_patch or from_read) and whole, 'C01.R8', key, 'write(path, <whole source buffer | whole patch output>)',
                          'sync_files writes a file from something else than the complete source buffer / the complete buffer patch() produced', term_loc(b, cb))
            elif c.endswith('fs::copy'):
                n += 1
                # pre-populated with another file: its length must be set on every way to the rename
                # (a way around set_len is fine where the two lengths were just found equal: `if .. || old.len() != new.len()`)
                same_len_edges = set()
                for bi in cfg.reachable():
                    for st_ in b.blocks[bi]['stmts']:
                        rv_ = st_['rv']
                        if rv_['k'] == 'bin' and rv_['op'] in ('Eq', 'Ne'):
                            lens = [any(o.kind == 'call' and str(o.key).endswith('::len') for o in fl.origins(x)) or
                                    any(o.kind == 'op' and o.key == 'PtrMetadata' for o in fl.origins(x)) for x in rv_['ops']]
                            if all(lens):
                                oc_ = fl.outcomes(None, st_['dst']['l'])
                                same_len_edges |= oc_.get('true' if rv_['op'] == 'Eq' else 'false', set())
                leak = None
                for rb in renames:
                    if rb in cfg.reach(cb, cut_blocks=setlens, cut_edges=list(same_len_edges)):
                        leak = rb
                ctx.check(bool(renames) and leak is None, 'C01.R8', key, 'a file that starts as a copy gets its length set before it is published',
                          'sync_files starts the new destination as a copy of an existing file and can publish it without ever setting its length: when the source is '
                          'shorter than that file (e.g. a proper prefix of the old destination) the old tail survives', term_loc(b, cb))
                if leak is None:
                    ctx.undecided('C01.R8', 'sync_files assembles the destination from a copy plus partial writes: that the result equals the source is not decided')
            elif c.endswith('OpenOptions::open'):
                continue
            else:
                ctx.undecided('C01.R8', 'sync_files builds a file with %s: outside the model' % c)
    if n < 2:
        ctx.missing('C01.R8', 'sync_files: file writes (found %d)' % n)


def r7(ctx, F):
    pairs = {'signature::Signature': ['run_signature', 'run_delta'], 'delta::Delta': ['run_delta', 'run_patch']}
    for ty, fns in pairs.items():
        ser = de = None
        for fn in fns:
            for body in F.nested(fn):
                fl = flow_of(body)
                for cb, ct in fl.calls_to('bincode::serialize'):
                    if last_generic(callee_args(ct)) == ty.split('::')[-1]:
                        ser = (body, cb)
                for cb, ct in fl.calls_to('bincode::deserialize'):
                    if last_generic(callee_args(ct)) == ty.split('::')[-1]:
                        de = (body, cb)
        if ser is not None and de is None:
            # the read side may sit in a generic loader (`read_artifact::<T>` -> bincode::deserialize::<T>): which type it decodes
            # is fixed at its call sites, not in its body - read from the call's generic arguments; else not decided
            gen = None
            for p_, xb in F.bodies.items():
                if xb.crate != 'bin':
                    continue
                xfl = flow_of(xb)
                for cb, ct in xfl.calls_to('bincode::deserialize'):
                    if '/#' in callee_args(ct) or re.fullmatch(r'\[?[A-Z]\w?\]?', callee_args(ct).strip()):
                        gen = p_.split('::{')[0]
            if gen is not None:
                inst = False
                for fn in fns:
                    for body in F.nested(fn):
                        for cb, ct in flow_of(body).calls_to(gen):
                            if last_generic(callee_args(ct)) == ty.split('::')[-1]:
                                inst = True
                if inst:
                    ctx.ok('C01.R7', 'bincode:%s' % ty.split('::')[-1], 'written with bincode::serialize::<%s>, read through the generic loader %s::<%s>' % (ty, gen, ty.split('::')[-1]), None)
                else:
                    ctx.undecided('C01.R7', 'the CLI reads %s back through a generic loader (%s): which type each call site decodes is not decided' % (ty.split('::')[-1], gen))
                continue
        ctx.check(ser is not None and de is not None, 'C01.R7', 'bincode:%s' % ty.split('::')[-1], 'written with bincode::serialize::<%s>, read with bincode::deserialize::<%s>' % (ty, ty),
                  'the CLI does not read back %s with the codec/type it was written with (serialize found: %s, deserialize found: %s)' % (ty, ser is not None, de is not None), None)


def callee_args(t):
    return norm(t['func'].get('fn_args', ''))


def last_generic(args):
    """last top-level generic argument of a `[a, b<c, d>]` list, reduced to its final path segment"""
    a = args.strip()
    if a.startswith('[') and a.endswith(']'):
        a = a[1:-1]
    depth = 0
    cur = ''
    parts = []
    for ch in a:
        if ch in '<([':
            depth += 1
        elif ch in '>)]':
            depth -= 1
        if ch == ',' and depth == 0:
            parts.append(cur.strip())
            cur = ''
        else:
            cur += ch
    parts.append(cur.strip())
    last = parts[-1]
    if any(c in last for c in '<(['):
        return last
    return last.split('::')[-1]
