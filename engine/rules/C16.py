"""C16 — the delta is at least as small as textbook greedy rsync (DESIGN §7 C16)."""
from rules.common import *  # noqa: F401,F403
from rules.scan import Scan, ENGINES, confirming_lookups, data_param, returns_block_index, lookup_data_arg, lookup_weak_arg
from rules import C17
from rules.C01 import norm_add, is_bs_term
from terms import term_of, strip_payload

LEVEL = 'other'
EXPLANATION = (
    'Decides the preconditions under which the scan IS the textbook greedy scan: (R1) the signature-side producer (RollingChecksum::new(..).digest() in '
    'BlockSignature::compute) and the scan-side producers (FastRollingChecksum new/roll/digest) are each certified by the C17 arithmetic analysis to equal the same '
    'definition for every window <= 65536, so equal bytes give equal weak hashes; (R2) SignatureTable::from_signature inserts every block under its own weak hash; '
    '(R3) window invariant: the rolling state is slid by roll(source[pos], source[pos+block_size]) with the pre-increment pos under pos+block_size < len, re-created from '
    'source[pos..pos+block_size] after a match, and the digest looked up is that state\'s; (R4) the weak gate and the confirming lookup query the same table with the same '
    'key and the lookup examines all candidates of the bucket; (R5) skeleton: match => copy + advance one block, miss => one literal + advance one (C01.R2). '
    'R4 also: a path from the weak gate\'s true edge to the next window that passes no strong lookup (a remembered rejection) is not decided. Not decided: the literal-count inequality itself (paper argument from R1-R5 and BLAKE3 collision freeness); the "k + two blocks" corollary.')
ASSUMPTIONS = ['BLAKE3 collision freeness', 'window length <= 65536']


def run(ctx):
    ctx.rule('C16.R1', 'both weak-hash producers are certified equal to the same definition (C17 obligations)', floor=30)
    ctx.rule('C16.R2', 'from_signature indexes every block under its own weak_hash', floor=1)
    ctx.rule('C16.R3', 'window invariant of the rolling state in both scan loops', floor=6)
    ctx.rule('C16.R4', 'weak gate and confirming lookup use the same table and key; lookup examines all candidates', floor=4)
    ctx.rule('C16.R5', 'skeleton: match => copy + one block, miss => literal + 1 (C01.R2)', floor=8)
    # R1: re-run the C17 analysis under this rule id
    sub = _Under(ctx, 'C16.R1')
    for cfgname, F in ctx.F.items():
        C17.check_all(sub, F, '')
        r1_sites(ctx, F)
        r2(ctx, F)
        conf = confirming_lookups(F)
        for fn, tag in ENGINES:
            if not F.nested(fn):
                if tag == 'async' and cfgname == 'default':
                    continue
                ctx.missing('C16.R3', fn)
            sc = Scan(ctx, F, fn, tag, 'C16.R3')
            if sc.state_machine:
                ctx.undecided('C16.R3', '%s: the scan loop dispatches on a state variable %s assigned inside the loop: the per-iteration path rules do not apply' % (tag, sc.state_machine))
                continue
            r3(ctx, F, sc)
            r4(ctx, F, sc, conf)
            from rules import C01
            C01.r2(_Under(ctx, 'C16.R5', only='C01.R2'), F, sc)


class _Under:
    """forward another module's rule results to one rule id of this property"""

    def __init__(self, ctx, rid, only=None):
        self.ctx, self.rid, self.only = ctx, rid, only
        self.F = ctx.F
        self.interproc = ctx.interproc

    def rule(self, *a, **k):
        pass

    def _skip(self, rid, key):
        if self.only and rid != self.only:
            return True
        if self.rid == 'C16.R1':
            # only the producers in use: signature side RollingChecksum::{new,digest}, scan side FastRollingChecksum::{new,roll,digest}
            meth = key.split(':')[0] + '::' + key.split('::')[1].split(':')[0] if '::' in key else key
            used = ('RollingChecksum::new', 'RollingChecksum::digest', 'FastRollingChecksum::new', 'FastRollingChecksum::roll',
                    'FastRollingChecksum::digest', 'MOD')
            return not any(key.startswith(u) for u in used)
        return False

    def undecided(self, rid, what):
        self.ctx.undecided(rid, what)

    def check(self, cond, rid, key, ok_detail, bad_msg, loc=None, path=None):
        if self._skip(rid, key):
            return bool(cond)
        return self.ctx.check(cond, self.rid, '%s:%s' % (rid.split('.')[-1], key), ok_detail, bad_msg, loc, path)

    def bad(self, rid, key, msg, loc=None, path=None):
        if self._skip(rid, key):
            return
        self.ctx.bad(self.rid, '%s:%s' % (rid.split('.')[-1], key), msg, loc, path)

    def ok(self, rid, key, detail='', loc=None):
        if self.only and rid != self.only:
            return
        self.ctx.ok(self.rid, '%s:%s' % (rid.split('.')[-1], key), detail, loc)

    def missing(self, rid, sym):
        self.ctx.missing(self.rid, sym)

    def note(self, s):
        self.ctx.note(s)


def r1_sites(ctx, F):
    """the producers in use are the certified ones"""
    b = F.body('signature::BlockSignature::compute')
    if b is None:
        ctx.missing('C16.R1', 'signature::BlockSignature::compute')
    fl = flow_of(b)
    ok = False
    for bi in fl.cfg.reachable():
        for st in b.blocks[bi]['stmts']:
            rv = st['rv']
            if rv['k'] == 'agg' and rv.get('adt') == 'signature::BlockSignature':
                w = fl.origins(rv['ops'][rv['fields'].index('weak_hash')])
                for o in w:
                    if o.kind == 'call' and o.key in ('checksum::RollingChecksum::digest', 'checksum::FastRollingChecksum::digest'):
                        so = call_arg_origins(fl, o.bb, 0)
                        for x in so:
                            if x.kind == 'call' and x.key in ('checksum::RollingChecksum::new', 'checksum::FastRollingChecksum::new'):
                                d = call_arg_origins(fl, x.bb, 0)
                                data_i = next((i for i in range(1, b.argc + 1) if b.local_ty(i) == '&[u8]'), None)
                                if all(y.kind == 'param' and y.key == data_i and not y.path for y in d):
                                    ok = True
    ctx.check(ok, 'C16.R1', 'BlockSignature::compute:weak=digest(new(data))', 'weak_hash = <certified checksum>::new(data).digest() over the whole block',
              'the signature-side weak hash is not the certified rolling checksum of the whole block', loc(b, b.lo))


def r2(ctx, F):
    b = F.body('signature::SignatureTable::from_signature')
    if b is None:
        ctx.missing('C16.R2', 'signature::SignatureTable::from_signature')
    fl = flow_of(b)
    cfg = fl.cfg
    entries = fl.calls(lambda c: c.endswith('::entry'))
    pushes = fl.calls(lambda c: c.endswith('Vec::<T, A>::push'))
    nexts = fl.calls_to('std::iter::Iterator::next')
    # the indexing loop is the one that pushes into the slot obtained from `entry(..)`; other loops / iterator tests in the
    # function (assertions over the finished index, statistics) are not part of the rule
    if len(entries) == 1:
        pushes = [(pb_, pt_) for pb_, pt_ in pushes if any(o.kind == 'call' and o.bb == entries[0][0] for o in fl.origins(pt_['args'][0]))] or pushes
    if len(pushes) == 1 and len(nexts) > 1:
        lp = cfg.loops()
        inner = [h for h, bl in lp.items() if pushes[0][0] in bl]
        nexts = [(nb_, nt_) for nb_, nt_ in nexts if any(nb_ in lp[h] for h in inner)] or nexts
    ok = len(entries) == 1 and len(pushes) == 1 and len(nexts) == 1
    why = ''
    if ok:
        eb, et = entries[0]
        pb, pt = pushes[0]
        nb, nt = nexts[0]
        ko = fl.origins(et['args'][1])
        key_ok = bool(ko) and all(o.kind == 'call' and o.bb == nb and o.path[-1:] == ('weak_hash',) for o in ko)
        vo = fl.origins(pt['args'][1])
        val_ok = bool(vo) and all(o.kind == 'call' and o.bb == nb for o in vo)
        # iterates signature.blocks.iter().enumerate() without filtering
        io = fl.origins(nt['args'][0])
        chain = []

        def walk(os_, depth=0):
            for o in os_:
                if o.kind == 'call' and depth < 6:
                    chain.append(o.key)
                    if o.key.endswith(('::iter', '::enumerate', '::into_iter')):
                        walk(call_arg_origins(fl, o.bb, 0), depth + 1)
        walk(io)
        iter_ok = any(c.endswith('::enumerate') for c in chain) and any(c.endswith('::iter') for c in chain) and \
            not any(c.endswith(('::filter', '::take', '::skip', '::step_by', '::take_while', '::skip_while')) for c in chain)
        blocks_ok = False
        for o in fl.origins(nt['args'][0]):
            pass
        # unconditional within the loop body
        loops = cfg.loops()
        heads = [h for h, bl in loops.items() if pb in bl]
        some_e = fl.outcomes(nb).get('Some', set())
        un = bool(some_e)
        for (s, t, lab) in some_e:
            if set(heads) & cfg.reach(t, cut_blocks=[pb]):
                un = False
        ok = key_ok and val_ok and iter_ok and un
        why = 'key is block.weak_hash: %s; value is the enumerate index: %s; unfiltered iteration: %s; unconditional: %s' % (key_ok, val_ok, iter_ok, un)
    ctx.check(ok, 'C16.R2', 'from_signature:index-every-block', 'weak_index[block.weak_hash].push(i) for every block',
              'from_signature does not index every block under its own weak hash (%s): an identical block could never be looked up' % why, loc(b, b.lo))


def r3(ctx, F, sc):
    fl, b, tag, cfg = sc.fl, sc.b, sc.tag, sc.cfg
    blocks = sc.body_blocks
    pos_cands = sc.pos_local()
    # cursor = start of the lookup window
    pos = None
    for lb, lt in sc.lookups:
        c = callee(lt)
        da = lookup_data_arg(F, lt)
        rd = sc.range_desc(da) if da is not None else None
        if rd and rd[1] == 'Range':
            st = strip_payload(rd[2]['start'])
            if st[0] == 'phi' and st[1] in pos_cands:
                pos = st[1]
    if pos is None:
        ctx.undecided('C16.R3', '%s: cannot identify the scan cursor' % tag)
        return
    pos_assigns = [bi for bi in blocks for st in b.blocks[bi]['stmts'] if st['dst']['l'] == pos and not st['dst']['proj']]
    some_e = set()
    for lb, lt in sc.lookups:
        some_e |= fl.outcomes(lb).get('Some', set())
    copy_adv = [bi for bi in pos_assigns if cfg.edges_guard(some_e, bi)]
    lit_adv = [bi for bi in pos_assigns if not cfg.edges_guard(some_e, bi)]
    # (a) roll(source[pos], source[pos + block_size]) before the literal advance, guarded by pos + block_size < len
    rolls = [(rb, rt) for rb, rt in sc.rolls if rb in blocks]
    ok = len(rolls) == 1
    why = 'exactly one roll in the loop: %s' % ok
    if ok:
        rb, rt = rolls[0]
        old = sc.range_desc(rt['args'][1])
        new = sc.range_desc(rt['args'][2])
        old_ok = bool(old) and old[0] and old[1] == 'elem' and strip_payload(old[2]['i']) == ('phi', pos)
        nw = norm_add(new[2]['i']) if new and new[1] == 'elem' else ('x',)
        new_ok = bool(new) and new[0] and nw[0] == 'add' and strip_payload(nw[1]) == ('phi', pos) and is_bs_term(nw[2])
        pre = bool(lit_adv) and all(not _reaches_within(cfg, bi, rb, sc.head) for bi in lit_adv)
        guard = False

        def is_pos_plus_bs(op_):
            lhs = norm_add(term_of(fl, op_))
            return lhs[0] == 'add' and strip_payload(lhs[1]) == ('phi', pos) and is_bs_term(lhs[2])

        def is_src_len(op_):
            os_ = [o for o in fl.origins(op_) if o.kind != 'comb']
            return bool(os_) and all(o.kind == 'call' and o.key.endswith('::len') and sc.is_src(call_arg_origins(fl, o.bb, 0)) for o in os_)
        lt_e = order_edges(fl, is_pos_plus_bs, is_src_len, strict=True)      # pos + block_size < len, in any spelling
        for tb_ in sorted({e[0] for e in lt_e if e[0] in blocks}):
            te = {e for e in lt_e if e[0] == tb_}
            if te and cfg.edges_guard(te, rb):
                # and on that edge the roll is unavoidable before the cursor advances (or the iteration ends)
                un = True
                for (s, t, lab) in te:
                    r_ = cfg.reach(t, cut_blocks=[rb, sc.head])
                    if set(lit_adv) & r_ and not all(_reaches_within(cfg, rb, bi, sc.head) or True for bi in lit_adv):
                        un = False
                    # the iteration must not end without the roll
                    back = {s2 for (s2, t2) in cfg.back_edges() if t2 == sc.head}
                    if back & cfg.reach(t, cut_blocks=[rb]):
                        un = False
                guard = guard or un
        on_miss = not cfg.edges_guard(some_e, rb)
        ok = old_ok and new_ok and pre and guard and on_miss
        why = 'outgoing byte source[pos]: %s; incoming byte source[pos+block_size]: %s; before the advance: %s; iff pos+block_size < len: %s; on the miss path: %s' % (old_ok, new_ok, pre, guard, on_miss)
    ctx.check(ok, 'C16.R3', '%s:roll-slides-the-window' % tag, 'roll(source[pos], source[pos+block_size]) with the pre-increment pos, iff pos+block_size < len',
              'the rolling state does not track the window source[pos..pos+block_size] on the miss path (%s): later matches are never looked up' % why,
              term_loc(b, rolls[0][0]) if rolls else term_loc(b, sc.head))
    # (b) after a match the state is re-created from source[pos..pos+block_size] with the post-increment pos
    renews = [(nb, nt) for nb, nt in sc.news if nb in blocks]
    ok = len(renews) == 1
    why = 'exactly one re-initialisation in the loop: %s' % ok
    if ok:
        nb, nt = renews[0]
        rd = sc.range_desc(nt['args'][0])
        win = bool(rd) and rd[0] and rd[1] == 'Range'
        if win:
            st_, en = strip_payload(rd[2]['start']), norm_add(rd[2]['end'])
            win = st_ == ('phi', pos) and en[0] == 'add' and strip_payload(en[1]) == ('phi', pos) and is_bs_term(en[2])
        post = bool(copy_adv) and all(cfg.dominates(bi, nb) for bi in copy_adv)
        on_match = cfg.edges_guard(some_e, nb)
        # assigned to the same rolling state the digest is taken from
        st_l = nt['dst']['l']
        same_state = False
        for db, dt in sc.digests:
            do = fl.origins(dt['args'][0])
            if any(o.kind == 'call' and o.bb == nb for o in do):
                same_state = True
        # guarded by pos + block_size <= len (otherwise the loop ends anyway)
        ok = win and post and on_match and same_state
        why = 'window source[pos..pos+block_size]: %s; after the advance: %s; on the match path: %s; feeds the digest that is looked up: %s' % (win, post, on_match, same_state)
    ctx.check(ok, 'C16.R3', '%s:reinit-after-match' % tag, 'after a copy the rolling state is re-created from source[pos..pos+block_size] at the new pos',
              'after a match the rolling state is not the checksum of the next window (%s)' % why, term_loc(b, renews[0][0]) if renews else term_loc(b, sc.head))
    # (c) initial state = new(source[..min(block_size, len)]) and the digest looked up is the state's digest
    inits = [(nb, nt) for nb, nt in sc.news if nb not in blocks]
    ok = len(inits) == 1
    if ok:
        nb, nt = inits[0]
        rd = sc.range_desc(nt['args'][0])
        ok = bool(rd) and rd[0] and rd[1] == 'RangeTo'
        if ok:
            en = strip_payload(rd[2]['end'])
            ok = en[0] == 'call' and en[1].endswith('::min') and any(is_bs_term(a) for a in en[2])
    ctx.check(ok, 'C16.R3', '%s:initial-window' % tag, 'initial state = new(&source[..min(block_size, len)])', 'the initial rolling state is not the checksum of the first window', term_loc(b, sc.head))


def _reaches_within(cfg, src, dst, head):
    r = set()
    for s, _ in cfg.succ[src]:
        r |= cfg.reach(s, cut_blocks=[head])
    return dst in r


def r4(ctx, F, sc, conf):
    fl, b, tag, cfg = sc.fl, sc.b, sc.tag, sc.cfg
    if not sc.gates:
        # no weak gate in front of the lookup (the lookup is asked directly, or through another fast path): nothing to agree
        ctx.undecided('C16.R4', '%s: no has_weak_match gate in the scan loop: how the lookup is reached is not decided' % tag)
        return
    if not sc.digests:
        ctx.undecided('C16.R4', '%s: the rolling digest that keys the gate was not found in the scan loop' % tag)
        return
    ok = bool(sc.gates) and bool(sc.digests)
    why = ''
    # every lookup sits behind a gate that asks the same table with the same rolling digest (several copies of the scan loop -
    # a re-scan path - pair up one by one)
    for lb, lt in sc.lookups:
        wa = lookup_weak_arg(F, lt)
        if wa is None:
            continue
        lo = {(o.kind, o.key, o.bb) for o in fl.origins(wa)}
        ltbl = {(o.kind, o.key, o.bb) for o in fl.origins(lt['args'][0])}
        paired = False
        for gb, gt in sc.gates:
            go = {(o.kind, o.key, o.bb) for o in fl.origins(gt['args'][1])}
            gtbl = {(o.kind, o.key, o.bb) for o in fl.origins(gt['args'][0])}
            dig = all(k == 'call' and key.endswith('::digest') for k, key, _ in go) and bool(go)
            same = lo == go and ltbl == gtbl
            guarded = bool(fl.outcomes(gb).get('true')) and cfg.edges_guard(fl.outcomes(gb)['true'], lb)
            if dig and same and guarded:
                paired = True
            else:
                why = why or 'gate key is the rolling digest: %s; lookup uses the same table and key: %s; lookup only behind the gate: %s' % (dig, same, guarded)
        ok = ok and paired
    # the converse: a window that passes the gate IS looked up.  A path from the gate's true edge to the next iteration that passes
    # no lookup dismisses a candidate window unconfirmed (a memo of earlier rejections, a budget): whether the dismissed windows
    # could have matched is a statement about values - not decided, but not a silent pass either
    heads_ = set(cfg.loops().keys())
    lookup_blocks = [lb for lb, _ in sc.lookups]
    for gb, gt in sc.gates:
        for (s_, t_, lab) in fl.outcomes(gb).get('true', set()):
            r_ = cfg.reach(t_, cut_blocks=lookup_blocks)
            if (r_ & heads_ & set(sc.body_blocks)) or (sc.head in r_):
                ctx.undecided('C16.R4', '%s: a window whose weak checksum is in the table can reach the next window without the strong lookup (a remembered rejection / an early exit): that such windows never match is not decided' % tag)
                break
    ctx.check(ok, 'C16.R4', '%s:gate-and-lookup-agree' % tag, 'has_weak_match(w) and find_match(w, ..) on the same table with the rolling digest w',
              'the weak gate and the confirming lookup do not query the same table with the same key (%s)' % why, term_loc(b, sc.head))
    # has_weak_match / find_match read the same map; find_match examines all candidates
    hw = F.body('signature::SignatureTable::has_weak_match')
    fm = F.body('signature::SignatureTable::find_match')
    ok = hw is not None and fm is not None
    if ok:
        hfl, ffl = flow_of(hw), flow_of(fm)
        h = [(cb, ct) for cb, ct in hfl.calls(lambda c: c.endswith('::contains_key') or c.endswith('::get'))]
        f = [(cb, ct) for cb, ct in ffl.calls(lambda c: c.endswith('::get'))]
        same_map = bool(h) and bool(f) and all(any(o.path[-1:] == ('weak_index',) for o in hfl.origins(ct['args'][0])) for cb, ct in h) and \
            all(any(o.path[-1:] == ('weak_index',) for o in ffl.origins(ct['args'][0])) for cb, ct in f)
        key_ok = all(all(o.kind == 'param' and o.key == 2 for o in hfl.origins(ct['args'][1])) for cb, ct in h) and \
            all(all(o.kind == 'param' and o.key == 2 for o in ffl.origins(ct['args'][1])) for cb, ct in f)
        finds = ffl.calls_to('std::iter::Iterator::find')
        all_c = False
        for cb, ct in finds:
            chain = []

            def walk(os_, depth=0):
                for o in os_:
                    if o.kind == 'call' and depth < 6:
                        chain.append(o.key)
                        walk(call_arg_origins(ffl, o.bb, 0), depth + 1)
            walk(ffl.origins(ct['args'][0]))
            if any(c.endswith('::iter') for c in chain) and not any(c.endswith(('::take', '::skip', '::filter', '::step_by', '::take_while')) for c in chain):
                all_c = True
        ok = same_map and key_ok and all_c
    ctx.check(ok, 'C16.R4', 'table:gate-and-lookup-same-map', 'has_weak_match and find_match read weak_index[weak]; find scans every candidate',
              'has_weak_match and find_match disagree on the map/key, or find_match does not examine every candidate of the bucket', loc(fm, fm.lo) if fm else None)
