"""C12 — the hub's wire input is handled totally, boundedly and in step (DESIGN §7 C12)."""
import re
from rules.common import *  # noqa: F401,F403
from rules.hub import Hub, SERVE, LOCK, SAFE_JOIN, FS_PATH_SINKS
from rules import panics
import tables

CONFIGS = ['cli']
LEVEL = 'other'
EXPLANATION = (
    'Decides: (R1) in serve() every handler call and the List arm are reachable only through the Ok(true) edge of read_magic and a Some edge of '
    'read_frame; the only fs mutators before that are the two create_dir_all of the root and its .copia directory; (R2) read_frame allocates its '
    'buffer from the 4 length bytes only on the false edge of len > MAX_FRAME with MAX_FRAME == 1<<20; (R3) no undischarged crate-local panic site '
    'is reachable from serve(); (R4) every loop that reads the input has an exit on the zero/None/Err outcome of that read, and read_frame maps '
    'a clean EOF to Ok(None); (R5) on every path of handle_put to a reply frame a take(len)-bounded consumer ran; Get/Delete/List/Hello consume nothing '
    'beyond their frame; (R6) errors surface as Err -> non-zero exit; (R7) in serve(), from a decoded request the next read_frame is reachable only past a non-Put edge of a switch on the request, handle_put, or an inline take(put.len) consumer, so no reply path leaves Put content in the stream. A read-ahead buffer (BufReader) placed over the stream parameter inside a handler is reported: what it buffers beyond the content is lost with it. Assumes ciborium/std do not panic or over-allocate on hostile bytes. '
    'R3: String::truncate / split_off / insert / remove / drain / replace_range and str::split_at are panic-capable (char boundary); a cut at a constant offset with no is_char_boundary in the function is reported. R1 also: a prologue that is parsed (tag + revision) instead of compared whole is reported when the parsed value is bounded on one side only, and not decided otherwise. R4 reads the clean-EOF test as an equality or as a match on the error kind (kinds that end a stream). Not decided: reply equality with a fresh session (runtime streams).')
ASSUMPTIONS = ['ciborium 0.2 and std do not panic or over-allocate on hostile bytes (recursion limit, incremental string reads)']


def run(ctx):
    F = ctx.F['cli']
    ctx.rule('C12.R1', 'serve: handlers and List only after read_magic Ok(true) and a decoded frame; only the 2 start-up mkdirs before', floor=5)
    ctx.rule('C12.R2', 'read_frame: allocation sized by the length prefix only under len <= MAX_FRAME (1 MiB)', floor=1)
    ctx.rule('C12.R4', 'every loop reading the input exits on EOF/None/Err of that read; read_frame: clean EOF -> Ok(None)', floor=3)
    ctx.rule('C12.R5', 'handle_put: every path to a reply passes a take(len)-bounded consumer; other handlers read nothing', floor=3)
    ctx.rule('C12.R6', 'serve errors surface as Err (non-zero exit)', floor=1)
    ctx.rule('C12.R7', 'serve: from a decoded request the next frame read is reached only past a proof that the request is not a Put, or past handle_put / a take(len) consumer', floor=1)
    hub = Hub(ctx, F, 'C12.R1')
    ctx.attempt(r1, ctx, F, hub)
    ctx.attempt(r2, ctx, F)
    ctx.attempt(panics.run_entries, ctx, 'C12.R3', [SERVE], 'no undischarged crate-local panic site is reachable from serve()')
    ctx.attempt(r4, ctx, F)
    ctx.attempt(r5, ctx, F, hub)
    ctx.attempt(r6, ctx, F)
    ctx.attempt(r7, ctx, F)


def r1(ctx, F, hub):
    b = F.body(SERVE)
    fl = flow_of(b)
    cfg = fl.cfg
    magic = fl.calls_to('wire::read_magic')
    frames = fl.calls_to('wire::read_frame')
    if len(magic) != 1 or len(frames) != 1:
        ctx.missing('C12.R1', 'serve: one read_magic and one read_frame call (found %d/%d)' % (len(magic), len(frames)))
    mb, mt = magic[0]
    fb, ft = frames[0]
    moc = fl.outcomes(mb)
    foc = fl.outcomes(fb)
    m_true = moc.get('true', set())
    f_some = foc.get('Some', set())
    if not m_true or not f_some or not moc.get('Ok') or not foc.get('Ok'):
        ctx.missing('C12.R1', 'serve: Ok(true) edge of read_magic / Ok(Some) edge of read_frame')
    effects = []
    for bi in sorted(cfg.reachable()):
        t = b.blocks[bi]['term']
        if t['k'] != 'call':
            continue
        c = callee(t) or ''
        if c.startswith('serve::handle_') or c in ('meta::discover_local_fingerprints',):
            effects.append((bi, c))
    if len(effects) < 4:
        ctx.missing('C12.R1', 'serve: handler calls + List arm (found %s)' % [c for _, c in effects])
    for bi, c in effects:
        ok = cfg.edges_guard(m_true, bi) and cfg.edges_guard(moc['Ok'], bi) and cfg.edges_guard(f_some, bi) and cfg.edges_guard(foc['Ok'], bi)
        ctx.check(ok, 'C12.R1', 'serve:%s' % c.split('::')[-1], 'guarded by read_magic Ok(true) and read_frame Ok(Some)',
                  '%s is reachable before a valid COPIA1 prologue and a well-formed request were read' % c, term_loc(b, bi))
    # fs mutators in serve() itself before the first frame: ceiling 2, both create_dir_all of root / root/.copia
    pre = []
    for bi in sorted(cfg.reachable()):
        t = b.blocks[bi]['term']
        if t['k'] == 'call' and callee(t) in tables.FS_MUTATORS and not cfg.edges_guard(f_some, bi):
            pre.append((bi, callee(t), hub.path_class(b, t['args'][tables.FS_MUTATORS[callee(t)][0]]) if tables.FS_MUTATORS[callee(t)] else '?'))
    ok = len(pre) <= 2 and all(c == 'std::fs::create_dir_all' and cls == 'control' for _, c, cls in pre)
    ctx.check(ok, 'C12.R1', 'serve:startup-effects', 'only create_dir_all(root), create_dir_all(root/.copia) before the first request',
              'serve changes the tree before a valid request beyond creating the served directory and its control directory: %s' % [(c, cls) for _, c, cls in pre],
              term_loc(b, pre[0][0]) if pre else loc(b, b.lo))
    # read_magic: true iff the 6 bytes equal MAGIC
    rm = F.body('wire::read_magic')
    if rm is None:
        ctx.missing('C12.R1', 'wire::read_magic')
    rfl = flow_of(rm)
    eqs = rfl.calls_to('std::cmp::PartialEq::eq')
    exact = rfl.calls_to('std::io::Read::read_exact')
    good = len(eqs) == 1 and len(exact) == 1
    if good:
        eb, et = eqs[0]
        o0, o1 = rfl.origins(et['args'][0]), rfl.origins(et['args'][1])
        is_magic = lambda os_: any(o.kind == 'const' and 'MAGIC' in str(o.key) for o in os_) or any(o.kind == 'const' and o.key == b'COPIA1' for o in os_)
        good = (is_magic(o0) or is_magic(o1)) and rfl.guarded_by(eb, exact[0][0], 'Ok')
        ret_o = rfl.origins(0)
        good = good and any(o.kind == 'call' and o.key == 'std::cmp::PartialEq::eq' for o in ret_o)
    magic_val = F.consts.get('wire::MAGIC', {})
    if not good and len(exact) == 1 and not eqs:
        # the prologue is PARSED (tag + revision digit) instead of compared whole.  Exactly one prologue is valid, so whatever is
        # parsed out must be pinned to one value: an order test with one open side (`rev >= MIN_VERSION`) accepts several
        # prologues - reported; a closed range whose two ends are the same constant pins it - the rest of the parse (that the
        # tag bytes are compared) is not decided.
        wb = work_body(F, 'wire::read_magic', ['std::io::Read::read_exact']) or rm
        wfl = flow_of(wb)
        lower = upper = pinned = False
        bodies_ = [wb] + [x for x in F.nested('wire::read_magic') if x.path != wb.path]
        for xb in bodies_:
            xfl = flow_of(xb)
            for bi in xfl.cfg.reachable():
                for st in xb.blocks[bi]['stmts']:
                    rv = st['rv']
                    isc = lambda o_: o_['k'] == 'const' or (lambda os_: bool(os_) and all(x.kind == 'const' for x in os_))(xfl.origins(o_))
                    if rv['k'] == 'bin' and rv['op'] in ('Ge', 'Gt', 'Le', 'Lt') and (isc(rv['ops'][0]) != isc(rv['ops'][1])):
                        c_right = isc(rv['ops'][1])
                        is_lower = (rv['op'] in ('Ge', 'Gt')) == c_right
                        lower, upper = lower or is_lower, upper or not is_lower
        for xb in bodies_:
          wfl = flow_of(xb)
          for cb, ct in wfl.calls(lambda c: c == 'std::ops::RangeInclusive::<Idx>::contains'):
            for o in wfl.origins(ct['args'][0]):
                if o.kind == 'call' and str(o.key) == 'std::ops::RangeInclusive::<Idx>::new' and o.bb is not None:
                    lo_, hi_ = call_arg_origins(wfl, o.bb, 0), call_arg_origins(wfl, o.bb, 1)
                    if lo_ and hi_ and all(x.kind == 'const' for x in lo_ | hi_) and {x.key for x in lo_} == {x.key for x in hi_} and len({x.key for x in lo_}) == 1:
                        pinned = True
                    else:
                        lower = upper = True
        if lower and not upper and not pinned:
            ctx.bad('C12.R1', 'read_magic:open-ended', 'read_magic parses a revision out of the prologue and accepts every value from a minimum upwards: prologues other than '
                    'COPIA1 are let through, and the requests behind them are executed', loc(rm, rm.lo))
        else:
            ctx.undecided('C12.R1', 'read_magic parses the prologue instead of comparing it with MAGIC: that exactly COPIA1 is accepted is not decided')
        return
    ctx.check(good, 'C12.R1', 'read_magic', 'Ok(m == MAGIC) after read_exact of 6 bytes',
              'read_magic no longer returns exactly (prologue == MAGIC)', loc(rm, rm.lo))


def r2(ctx, F):
    b = F.body('wire::read_frame')
    if b is None:
        ctx.missing('C12.R2', 'wire::read_frame')
    fl = flow_of(b)
    cfg = fl.cfg
    mf = F.consts.get('wire::MAX_FRAME', {}).get('val')
    if mf is None:
        ctx.missing('C12.R2', 'const wire::MAX_FRAME')
    allocs = fl.calls(lambda c: c in ('std::vec::from_elem', 'std::vec::Vec::<T>::with_capacity', 'std::vec::Vec::<T, A>::resize',
                                      'std::vec::Vec::<T, A>::reserve', 'std::vec::Vec::<T, A>::reserve_exact'))
    if not allocs:
        # no buffer is reserved up front: the frame is read into a growing buffer (`take(len).read_to_end(&mut buf)`), which ends
        # up holding `len` bytes all the same when the peer sends them - what bounds the memory is the test on the prefix
        grow = fl.calls(lambda c: c.endswith('::read_to_end') or c.endswith('::read_to_string'))
        if not grow:
            ctx.missing('C12.R2', 'read_frame: buffer allocation')
        bounds = []       # (value or None, text, body, line)
        for xb in [b] + [n for n in F.nested('wire::read_frame') if n is not b]:
            for blk in xb.blocks:
                for st in blk['stmts']:
                    rv = st['rv']
                    if rv['k'] == 'bin' and rv['op'] in ('Gt', 'Ge', 'Lt', 'Le'):
                        cs = [o for o in rv['ops'] if o['k'] == 'const']
                        if len(cs) == 1:
                            bounds.append((cs[0].get('v'), str(cs[0].get('dbg') or ''), xb, st.get('line')))
        if not bounds:
            ctx.bad('C12.R2', 'read_frame:unbounded-frame', 'read_frame reads a frame of the announced length into a growing buffer and never compares the length with a bound', loc(b, b.lo))
            return
        # which message type the HUB reads: the generic arguments of the read_frame calls in serve.rs
        hub_types = set()
        for p_, sb in F.bodies.items():
            if not sb.file.endswith('bin/copia/serve.rs'):
                continue
            for cb_, ct_ in flow_of(sb).calls_to('wire::read_frame'):
                ga = re.findall(r'(wire::\w+)', ct_['func'].get('fn_args') or '')
                hub_types |= set(ga)
        for val, text, xb, line in bounds:
            if val is None:
                m = re.match(r'<(\w+) as ([\w:]+)>::(\w+)$', text)
                vals = []
                if m:
                    for ty in sorted(hub_types):
                        cv = F.consts.get('<%s as %s>::%s' % (ty, m.group(2), m.group(3)), {}).get('val')
                        if cv is not None:
                            vals.append((ty, cv))
                if not vals:
                    ctx.undecided('C12.R2', 'read_frame bounds the length prefix by %s: its value for the message type the hub reads was not found' % text)
                    continue
                for ty, cv in vals:
                    ctx.check(cv <= (1 << 20), 'C12.R2', 'read_frame:bound(%s)' % ty.split('::')[-1], 'the hub reads %s frames: prefix bounded by %s = %d' % (ty, text, cv),
                              'the hub reads %s frames and accepts a length prefix up to %s = %d: a control frame of more than 1 MiB is buffered whole' % (ty, text, cv), loc(xb, line or xb.lo))
            else:
                ctx.check(val <= (1 << 20), 'C12.R2', 'read_frame:bound', 'prefix bounded by %s = %d' % (text, val),
                          'read_frame - which the hub\'s read loop uses - accepts a length prefix up to %s = %d bytes: a control frame of more than the 1 MiB bound is buffered whole '
                          '(the smaller bound of the request type holds only against a cooperating sender)' % (text, val), loc(xb, line or xb.lo))
        ctx.check(mf == 1 << 20, 'C12.R2', 'MAX_FRAME', 'MAX_FRAME == 1<<20', 'MAX_FRAME is %s, the documented control-frame bound is 1 MiB' % mf, 'src/bin/copia/wire.rs')
        return
    for ab, at in allocs:
        c = callee(at)
        size_arg = at['args'][1] if c in ('std::vec::from_elem',) or 'resize' in c or 'reserve' in c else at['args'][0]
        so = fl.origins(size_arg)
        from_input = any(o.kind == 'call' and 'from_be_bytes' in o.key or o.kind == 'call' and 'from_le_bytes' in o.key for o in so)
        if not from_input and all(o.kind == 'const' for o in so):
            ctx.ok('C12.R2', 'read_frame:%s(const)' % c.split('::')[-1], 'constant size')
            continue
        guarded = False
        for bi in cfg.reachable():
            for st in b.blocks[bi]['stmts']:
                rv = st['rv']
                if rv['k'] == 'bin' and rv['op'] in ('Gt', 'Ge', 'Lt', 'Le'):
                    oa, ob = fl.origins(rv['ops'][0]), fl.origins(rv['ops'][1])
                    same = lambda os_: {(o.kind, o.key, o.bb) for o in os_ if o.kind == 'call'} == {(o.kind, o.key, o.bb) for o in so if o.kind == 'call'} and \
                        not any(o.kind == 'op' for o in os_)
                    cst = lambda os_: [o.key for o in os_ if o.kind == 'const' and isinstance(o.key, int)]
                    if same(oa) and cst(ob) and len(ob) == 1:
                        bound = cst(ob)[0]
                        # within-bounds edge
                        within = {'Gt': 'false', 'Ge': 'false', 'Lt': 'true', 'Le': 'true'}[rv['op']]
                        limit = bound if rv['op'] in ('Gt', 'Le') else bound - 1
                    elif same(ob) and cst(oa) and len(oa) == 1:
                        bound = cst(oa)[0]
                        within = {'Gt': 'true', 'Ge': 'true', 'Lt': 'false', 'Le': 'false'}[rv['op']]
                        limit = bound - 1 if rv['op'] in ('Gt', 'Le') else bound
                        if rv['op'] in ('Ge', 'Lt'):
                            limit = bound
                    else:
                        continue
                    oc = fl.outcomes(None, st['dst']['l'])
                    e = oc.get(within, set())
                    if e and cfg.edges_guard(e, ab) and limit <= (1 << 20) and bound == mf:
                        guarded = True
        ctx.check(guarded, 'C12.R2', 'read_frame:%s(len)' % c.split('::')[-1], 'allocation guarded by len <= MAX_FRAME (%d)' % mf,
                  'read_frame allocates a buffer sized by the untrusted length prefix without first bounding it by MAX_FRAME = 1 MiB', term_loc(b, ab))
    ctx.check(mf == 1 << 20, 'C12.R2', 'MAX_FRAME', 'MAX_FRAME == 1<<20', 'MAX_FRAME is %s, the documented control-frame bound is 1 MiB' % mf, 'src/bin/copia/wire.rs')


def r4(ctx, F):
    # read_frame: clean EOF (UnexpectedEof on the 4 length bytes) -> Ok(None)
    b = F.body('wire::read_frame')
    fl = flow_of(b)
    cfg = fl.cfg
    nones = []
    for bi in cfg.reachable():
        for st in b.blocks[bi]['stmts']:
            rv = st['rv']
            if st['dst']['l'] == 0 and rv['k'] == 'agg' and rv.get('vname') == 'Ok':
                if any(o.kind == 'agg' and o.key == 'std::option::Option::None' for o in fl.origins(rv['ops'][0])):
                    nones.append(bi)
    exact = fl.calls_to('std::io::Read::read_exact')
    first = min(exact, key=lambda x: x[0]) if exact else None
    eofs = [(eb, et) for eb, et in fl.calls_to('std::cmp::PartialEq::eq')
            if any(o.kind == 'agg' and o.key == 'std::io::ErrorKind::UnexpectedEof' for o in fl.origins(et['args'][1]) | fl.origins(et['args'][0]))]
    ok = bool(nones) and first is not None and bool(eofs)
    if ok:
        eb, et = eofs[0]
        eq, ne = eq_edges(fl, eb)
        ok = all(cfg.edges_guard(eq, nb) and fl.guarded_by(nb, first[0], 'Err') for nb in nones)
    kind_sw = None
    if not ok and nones and first is not None and all(fl.guarded_by(nb, first[0], 'Err') for nb in nones):
        # the same test as a match on the kind (`matches!(e.kind(), UnexpectedEof | BrokenPipe)`): Ok(None) sits behind edges
        # of a switch on the error kind of that first read that include UnexpectedEof and otherwise only other ways a
        # stream ends (the peer went away) - never a kind that says the bytes are bad
        ek = F.adts.get('std::io::ErrorKind')
        dis = {v['name']: v['discr'] for v in (ek or {}).get('variants', [])}
        ended = {dis.get(n) for n in ('UnexpectedEof', 'BrokenPipe', 'ConnectionReset', 'ConnectionAborted', 'NotConnected')} - {None}
        for sb in cfg.reachable():
            st_ = b.blocks[sb]['term']
            if st_['k'] != 'switch' or st_['on']['k'] == 'const':
                continue
            if not any(o.kind == 'call' and str(o.key).endswith('io::Error::kind') for o in fl.origins(st_['on'])):
                continue
            kind_sw = sb
            vals = [tv for tv, tb in st_['targets'] if any(cfg.can_reach(tb, nb) for nb in nones)]
            others_reach = any(cfg.can_reach(st_['otherwise'], nb) for nb in nones)
            if dis.get('UnexpectedEof') in vals and set(vals) <= ended and not others_reach and \
                    all(cfg.edges_guard({(sb, tb, tv) for tv, tb in st_['targets'] if tv in vals}, nb) for nb in nones):
                ok = True
    kind_eqs = [eb for eb, et in fl.calls_to('std::cmp::PartialEq::eq', 'std::cmp::PartialEq::ne')
                if any(o.kind == 'agg' and str(o.key).startswith('std::io::ErrorKind::') for o in fl.origins(et['args'][1]) | fl.origins(et['args'][0]))]
    if not ok and kind_sw is None and not kind_eqs and nones and first is not None and all(fl.guarded_by(nb, first[0], 'Err') for nb in nones) and \
            any(str(callee(t_) or '').endswith('io::Error::kind') for _, t_ in fl.calls(lambda c: True)):
        ctx.undecided('C12.R4', 'read_frame returns Ok(None) after a failed read of the length prefix under a test of the error kind that is not read')
    else:
        ctx.check(ok, 'C12.R4', 'read_frame:clean-eof', 'Ok(None) exactly on an end-of-stream kind (UnexpectedEof) of the length prefix',
                  'read_frame does not map a clean EOF at a frame boundary to Ok(None) (or maps other conditions to it)', loc(b, b.lo))
    # loops reading input
    for path, readers in ((SERVE, ('wire::read_frame',)), ('serve::handle_put', ('std::io::Read::read',))):
        body = F.body(path)
        f2 = flow_of(body)
        c2 = f2.cfg
        loops = c2.loops()
        n = 0
        for h, blocks in loops.items():
            rds = [(rb, rt) for rb, rt in f2.calls(lambda c: c in readers) if rb in blocks]
            for rb, rt in rds:
                n += 1
                oc = f2.outcomes(rb)
                exits = False
                for name in ('None', 'Err', 'false'):
                    for (s, t, lab) in oc.get(name, ()):
                        if not (c2.reach(t) & {h}):
                            exits = True
                if path == 'serve::handle_put':
                    # n == 0 edge
                    for s in blocks:
                        for t, lab in c2.succ[s]:
                            if t not in blocks:
                                from rules.C10 import n_zero_edge
                                if n_zero_edge(f2, body, s, t, {rb}):
                                    exits = True
                ctx.check(exits, 'C12.R4', '%s:loop-exits-on-eof' % path.split('::')[-1], 'the read\'s EOF/None/Err outcome leaves the loop',
                          'a loop in %s keeps iterating when its input is closed (spin)' % path, term_loc(body, rb))
        if n == 0:
            ctx.missing('C12.R4', '%s: input-reading loop' % path)


def r5(ctx, F, hub):
    if getattr(hub, 'optional_staging', None):
        ctx.undecided('C12.R5', 'handle_put streams the content through a helper object with an optional staging file (%s): that every reply path has consumed the content is not decided' % hub.optional_staging)
        return
    b = F.body('serve::handle_put')
    fl = flow_of(b)
    cfg = fl.cfg
    len_i = next((i for i in range(1, b.argc + 1) if b.local_ty(i) == 'u64'), None)
    consumers = []
    for cb, ct in fl.calls(lambda c: c in ('std::io::copy', 'std::io::Read::read', 'std::io::Read::read_exact', 'std::io::Read::read_to_end')):
        so = reader_sources(fl, ct['args'][0])
        for o in so:
            if o.kind == 'call' and o.key == 'std::io::Read::take':
                lo = call_arg_origins(fl, o.bb, 1)
                if request_value(F, b, lo, 'u64'):
                    consumers.append(cb)
    replies = fl.calls_to('wire::write_frame')
    if not replies:
        ctx.missing('C12.R5', 'handle_put: replies')
    for wb, wt in replies:
        # every entry->reply path passes a consumer
        ok = bool(consumers) and (wb not in cfg.reach(0, cut_blocks=consumers) or wb not in cfg.feasible_reach(0, cut_blocks=consumers))
        what = root_name(fl, wt['args'][1])
        ctx.check(ok, 'C12.R5', 'handle_put:reply(%s)' % reply_kind(fl, wt), 'a take(len)-bounded consumer precedes this reply on every path',
                  'handle_put can reply without having consumed the `len` content bytes that follow the frame: the stream is out of step afterwards', term_loc(b, wb))
    # direct input reads outside take(len)
    raw = []
    for cb, ct in fl.calls(lambda c: c.startswith('std::io::Read::') and c != 'std::io::Read::take'):
        so = reader_sources(fl, ct['args'][0])
        if not any(o.kind == 'call' and o.key == 'std::io::Read::take' for o in so):
            raw.append(cb)
    ctx.check(not raw, 'C12.R5', 'handle_put:no-unbounded-read', 'input is read only through take(len)', 'handle_put reads the input without the take(len) bound', term_loc(b, raw[0]) if raw else None)
    for h in ('serve::handle_get', 'serve::handle_delete'):
        hb = F.body(h)
        reads_input = False
        for body in F.nested(h):
            f2 = flow_of(body)
            for cb, ct in f2.calls(lambda c: c.startswith('std::io::Read::') or c == 'wire::read_frame'):
                # reading the *file* in handle_get is fine: the reader must not be a generic R parameter
                so = f2.origins(ct['args'][0])
                if any(o.kind == 'param' and 'mut R' in body.local_ty(o.key) for o in so):
                    reads_input = True
        ctx.check(not reads_input, 'C12.R5', '%s:consumes-nothing' % h.split('::')[-1], 'does not read the request stream',
                  '%s consumes bytes of the request stream beyond its frame' % h, loc(hb, hb.lo))


READER_WRAPPERS = ('std::io::BufReader::<R>::new', 'std::io::BufReader::<R>::with_capacity', 'std::io::Read::by_ref', 'std::io::Read::chain')


def reader_sources(fl, op, depth=0):
    """origins of a reader operand, looking through buffering wrappers (`BufReader::with_capacity(n, r.take(len))` reads what
    `r.take(len)` yields)"""
    out = set()
    for o in fl.origins(op):
        if o.kind == 'call' and o.key in READER_WRAPPERS and o.bb is not None and depth < 4:
            out |= reader_sources(fl, fl.body.blocks[o.bb]['term']['args'][-1], depth + 1)
        else:
            out.add(o)
    return out


def reply_kind(fl, wt):
    os_ = fl.origins(wt['args'][1])
    for o in os_:
        if o.kind == 'agg' and str(o.key).startswith('wire::Response::'):
            return o.key.split('::')[-1]
    for o in os_:
        if o.kind == 'call':
            return 'result of ' + o.key.split('::')[-1]
    return '?'


def r6(ctx, F):
    b = F.body(SERVE)
    fl = flow_of(b)
    # every `?` error arm returns through from_residual (Err); the bad-prologue branch builds Err
    oks = ok_assign_blocks(b, 'Ok')
    magic = fl.calls_to('wire::read_magic')
    mb = magic[0][0]
    moc = fl.outcomes(mb)
    false_e = moc.get('false', set())
    reach_false = set()
    for (s, t, lab) in false_e:
        reach_false |= fl.cfg.reach(t)
    ctx.check(bool(false_e) and not (set(oks) & reach_false), 'C12.R6', 'serve:bad-prologue->Err', 'a wrong prologue cannot reach an Ok return',
              'serve returns Ok (exit 0) for a client that did not send the COPIA1 prologue', term_loc(b, mb))


def r7(ctx, F):
    """In step across requests: a Put frame is followed by `len` content bytes.  On every path from the decoded request
    back to the next read_frame, either the request was shown not to be a Put (a non-Put edge of a switch on the request's
    discriminant inside serve) or the content was consumed (handle_put, decided by R5, or an inline take(put.len) consumer)."""
    from rules.bisync import variant_edges
    # no read-ahead layer over the connection: a BufReader put around the stream a handler was handed pulls bytes of the
    # FOLLOWING requests into its buffer and throws them away when it is dropped (a `take(len)` outside it does not help)
    from callgraph import callgraph_of
    cg_ = callgraph_of(F)
    for hb in [F.body(p_) for p_ in sorted(cg_.reach([SERVE])) if F.body(p_) is not None and (F.body(p_).file.endswith('bin/copia/serve.rs') or F.body(p_).file.endswith('bin/copia/wire.rs'))]:
        hfl = flow_of(hb)
        for bb_, t_ in hfl.calls(lambda c: c.startswith('std::io::BufReader::<R>::') and c.split('::')[-1] in ('new', 'with_capacity')):
            src = t_['args'][-1]
            os_ = [o for o in hfl.origins(src) if o.kind != 'comb']
            over_stream = bool(os_) and all(o.kind in ('param', 'upvar') for o in os_)
            if over_stream:
                ctx.bad('C12.R7', '%s:read-ahead-over-stream' % hb.path.split('::{')[0].split('::')[-1],
                        'a BufReader is created around the request stream inside a handler: it reads ahead into the bytes of the next requests and drops them with its '
                        'buffer - after this request the stream is out of step (pipelined / replayed sessions lose requests or are mis-framed)', term_loc(hb, bb_))
    b = F.body(SERVE)
    fl = flow_of(b)
    cfg = fl.cfg
    frames = fl.calls_to('wire::read_frame')
    if len(frames) != 1:
        ctx.missing('C12.R7', 'serve: the single read_frame call')
    fb, ft = frames[0]
    some_e = fl.outcomes(fb).get('Some', set())
    if not some_e:
        ctx.missing('C12.R7', 'serve: Some edge of read_frame')
    # locals holding the decoded request: discriminant reads whose place derives from the read_frame result
    req_locals = set()
    for bi in cfg.reachable():
        for st in b.blocks[bi]['stmts']:
            rv = st['rv']
            if rv['k'] == 'discr' and b.local_ty(rv['p']['l']).replace('&', '').strip() == 'wire::Request':
                if any(o.kind == 'call' and o.bb == fb for o in fl.origins(rv['p']['l'])):
                    req_locals.add(rv['p']['l'])
    cut_e = set()
    n_put = 0
    for l in req_locals:
        ve = variant_edges(fl, l, 'wire::Request')
        n_put += len(ve.get('Put', ()))
        put_targets = {(e[0], e[1]) for e in ve.get('Put', ())}
        for v, es in ve.items():
            if v != 'Put':
                # an `otherwise` edge shared with Put proves nothing
                cut_e |= {(e[0], e[1]) for e in es if (e[0], e[1]) not in put_targets}
    if not n_put:
        ctx.missing('C12.R7', 'serve: a switch on the request discriminant with a Put edge')
    cut_b = {cb for cb, ct in fl.calls_to('serve::handle_put')}
    for cb, ct in fl.calls(lambda c: c in ('std::io::copy', 'std::io::Read::read_exact', 'std::io::Read::read_to_end')):
        for o in fl.origins(ct['args'][0]):
            if o.kind == 'call' and o.key == 'std::io::Read::take':
                lo = call_arg_origins(fl, o.bb, 1)
                if lo and all(x.kind == 'call' and x.bb == fb and x.path[-1:] == ('len',) for x in lo):
                    cut_b.add(cb)
    if not cut_b:
        ctx.missing('C12.R7', 'serve: the handle_put call')
    bad = None
    for (s_, t_) in {(e[0], e[1]) for e in some_e}:
        if t_ in cut_b:
            continue
        seen = cfg.reach(t_, cut_edges=cut_e, cut_blocks=cut_b)
        if fb in seen:
            p_ = cfg.path(t_, fb, cut_edges=cut_e, cut_blocks=cut_b)
            bad = p_
    ctx.check(bad is None, 'C12.R7', 'serve:put-content-consumed-before-next-frame',
              'every decoded-request -> next-read path passes a non-Put discriminant edge, handle_put, or a take(len) consumer',
              'serve can go on to read the next frame after a request that may be a Put without consuming its `len` content bytes: the content would be parsed as frames%s'
              % (' (path through lines %s)' % sorted({b.blocks[x]['term'].get('line') for x in bad if b.blocks[x]['term'].get('line')}) if bad else ''),
              term_loc(b, bad[len(bad) // 2]) if bad else term_loc(b, fb))
