"""C17 — rolling checksums equal their definition after any operations (DESIGN §7 C17)."""
import re

from rules.common import *  # noqa: F401,F403
import ar
from ar import Poly, Box, Machine, Unsupported

LEVEL = 'proof'
EXPLANATION = (
    'Decides the property for all byte values, all window lengths 1..=65536 and any operation sequence by abstract interpretation of the MIR of '
    'new/roll/push/digest/len of both checksum types over a polynomial domain: (O1) every arithmetic operation is wrap-free in its machine type on the whole input box '
    '(bytes 0..=255, length <= 65536, state within its invariant) and every subtraction is non-negative; (O2) the residue polynomial of every stored a\'/b\' equals the '
    'definition (new: a = sum x_i, b = sum (n-i) x_i; push: a\'=a+x, b\'=b+a\', n\'=n+1; roll: a\'=a-old+new, b\'=b-n*old+a\', n\'=n; digest = ((b mod M)<<16)|(a mod M)); '
    '(O3) the range invariant of each type is re-established by every method (eager type: both fields < 65521; lazy type: linear-in-rolls bound, inductive, reset by the '
    'normalising branch; rolls < NORMALIZE_INTERVAL); (O4) len() returns the window length; a field that caches a function of the window length (found from the constructor: field == P(count)) follows the count in every method that changes it; both types share the definition and modulus 65521, hence equal digests. '
    'A single undischarged obligation is a violation. A type that never stores a residue into `a` (exact byte sum) is not decided: its bounds rest on the subtracted byte being one of the summands. Induction over operation sequences is by the per-method invariant (assume at entry, re-establish at exit).')
ASSUMPTIONS = ['window length <= 65536 (the maximum block size; the bound of the property)', 'MIR arithmetic semantics of rustc (wrapping_*, as casts, %)']

NMAX = 65536
RC = 'checksum::RollingChecksum'
FC = 'checksum::FastRollingChecksum'


def obl_report(ctx, rid, method, m):
    """turn the machine's obligations into rule instances with line-free keys"""
    if m is None:
        return      # the method was outside the model: already reported as undecided
    seen = {}
    for o in m.obs:
        k = (o.kind, o.what)
        if k not in seen or (seen[k].ok and not o.ok):
            seen[k] = o
    # ordinals per (kind, op) by source order
    groups = {}
    for (kind, what), o in seen.items():
        op = what.split('@')[0]
        groups.setdefault((kind, op), []).append(o)
    for (kind, op), lst in sorted(groups.items()):
        lst.sort(key=lambda o: o.line)
        for i, o in enumerate(lst):
            key = '%s:%s:%s#%d' % (method, kind, op, i + 1)
            ctx.check(o.ok, rid, key, o.detail[:160],
                      '%s: %s %s is not discharged: %s' % (method, kind, op, o.detail), 'src/checksum.rs:%d (%s)' % (o.line, method))


def field(env, name):
    v = env[1] if 1 in env else None
    while v is not None and v[0] == 'ref':
        v = v[1]
    return v[1][name] if v and v[0] == 'obj' else None


def run_method(ctx, F, path, M, box, env, rid, method):
    b = F.body(path)
    if b is None:
        ctx.missing(rid, path)
    m = Machine(F, b, M, box, NMAX)
    try:
        m.run(env)
    except Unsupported as e:
        # outside the polynomial model: the interval/unrolling fallback still decides wrap-freedom (a wrap is a violation);
        # that the result equals the definition stays undecided
        import unroll
        from flow import flow_of as _flow_of
        uenv = {}
        for i in range(1, b.argc + 1):
            ty = b.local_ty(i)
            if ty.replace(' ', '') in ('&[u8]',):
                uenv[i] = ('slice', NMAX)
            elif ty == 'u8':
                uenv[i] = ('int', 0, 255)
        obs, why = unroll.wrap_free(b, _flow_of(b).cfg, uenv, NMAX) if uenv else (None, 'no byte-slice parameter')
        if obs is not None:
            bad = sorted([o for o in obs if o.ok is False], key=lambda o: (o.line or 0, o.what))
            for i, o in enumerate(bad):
                ctx.bad('C17.O1', '%s:wrap-free:%s#%d' % (method, o.what, i + 1),
                        '%s: %s is not wrap-free for inputs of up to %d bytes: %s' % (method, o.what, NMAX, o.detail), 'src/checksum.rs:%s (%s)' % (o.line, method))
            ctx.undecided(rid, '%s %s (interval fallback: %d arithmetic site(s) examined, %d wrap, %d on unmodelled values; equality with the definition not decided)' % (path, e, len(obs), len(bad), len([o for o in obs if o.ok is None])))
        else:
            ctx.undecided(rid, '%s %s; fallback: %s' % (path, e, why))
        return None
    return m


def run(ctx):
    ctx.rule('C17.O1', 'wrap-free: every arithmetic op fits its machine type on the whole input box; subtractions non-negative', floor=30)
    ctx.rule('C17.O2', 'definition: residues of stored sums / digest equal the specification', floor=14)
    ctx.rule('C17.O3', 'range invariants re-established by every method', floor=10)
    ctx.rule('C17.O4', 'len() returns the window length; both types use modulus 65521', floor=3)
    for cfgname, F in ctx.F.items():
        check_all(ctx, F, '')


def check_all(ctx, F, tag):
    m_r = F.consts.get(RC + '::MOD', {}).get('val')
    m_f = F.consts.get(FC + '::MOD', {}).get('val')
    K = F.consts.get(FC + '::NORMALIZE_INTERVAL', {}).get('val')
    if m_r is None or m_f is None or K is None:
        ctx.missing('C17.O4', 'consts MOD / NORMALIZE_INTERVAL')
    ctx.check(m_r == 65521 and m_f == 65521, 'C17.O4', 'MOD' + tag, 'both moduli are 65521', 'the modulus is not 65521 in both types (%s / %s): digests differ from the definition' % (m_r, m_f), 'src/checksum.rs')
    length_field_width(ctx, F, tag)
    eager(ctx, F, tag, m_r)
    lazy(ctx, F, tag, m_f, K)


INT_BITS = {'u8': 8, 'i8': 7, 'u16': 16, 'i16': 15, 'u32': 32, 'i32': 31, 'u64': 64, 'i64': 63, 'u128': 128, 'i128': 127, 'usize': 64, 'isize': 63}


def length_field_width(ctx, F, tag):
    """"the reported length is the window length, for every non-empty window up to the maximum block size of 65536": whatever the
    fields are called, the one `len()` reports must be able to HOLD 65536 (17 bits) - a type-level necessary condition that does
    not depend on the arithmetic engine reading the methods (a window of exactly the maximum block size stored in a u16 is 65535
    or 0: len() is wrong and roll removes one `old` too few from b)"""
    for T in (RC, FC):
        b = F.body(T + '::len')
        adt = F.adts.get(T)
        if b is None or adt is None or not adt.get('variants'):
            continue
        os_ = [o for o in flow_of(b).origins(0) if o.kind != 'comb']
        names = {o.path[0] for o in os_ if o.kind == 'param' and o.key == 1 and o.path}
        if not os_ or not all(o.kind == 'param' and o.key == 1 and o.path for o in os_) or len(names) != 1:
            continue        # len() computed in another way: left to the method rules
        fname = list(names)[0]
        fty = next((f.get('ty') for f in adt['variants'][0].get('fields', []) if f.get('name') == fname), None)
        bits = INT_BITS.get(fty)
        if bits is None:
            continue
        ctx.check(bits >= 17, 'C17.O4', '%s:length-field-holds-the-maximum-block%s' % (T.split('::')[-1], tag), 'len() reports field `%s`: %s holds every window length up to %d' % (fname, fty, NMAX),
                  '%s::len() reports field `%s` of type %s, which cannot hold the window length %d (the maximum block size): the reported length is wrong for a full-size window and every slide '
                  'removes the outgoing byte %d times instead of %d from the weighted sum' % (T.split('::')[-1], fname, fty, NMAX, (1 << bits) - 1, NMAX), 'src/checksum.rs')


# ---------------------------------------------------------------- RollingChecksum (eager mod)
def eager(ctx, F, tag, M):
    T = 'RollingChecksum'
    # new
    box = Box({'n': (0, NMAX)})
    m = run_method(ctx, F, RC + '::new', M, box, {1: ('slice', 'data')}, 'C17.O1', T + '::new')
    obl_report(ctx, 'C17.O1', T + '::new' + tag, m)
    spec_new(ctx, m, T + '::new' + tag, M, eager_inv=True)
    # roll
    st = {'a': ('p', Poly.sym('A'), 'u32'), 'b': ('p', Poly.sym('B'), 'u32'), 'count': ('p', Poly.sym('n'), 'usize')}
    box = Box({'A': (0, M - 1), 'B': (0, M - 1), 'n': (1, NMAX), 'old': (0, 255), 'new': (0, 255)})
    m = run_method(ctx, F, RC + '::roll', M, box, {1: ('ref', ('obj', st)), 2: ('p', Poly.sym('old'), 'u8'), 3: ('p', Poly.sym('new'), 'u8')}, 'C17.O1', T + '::roll')
    obl_report(ctx, 'C17.O1', T + '::roll' + tag, m)
    spec_roll(ctx, m, T + '::roll' + tag, M, eager_inv=True)
    # push
    box = Box({'A': (0, M - 1), 'B': (0, M - 1), 'n': (0, NMAX - 1), 'val': (0, 255)})
    m = run_method(ctx, F, RC + '::push', M, box, {1: ('ref', ('obj', st)), 2: ('p', Poly.sym('val'), 'u8')}, 'C17.O1', T + '::push')
    obl_report(ctx, 'C17.O1', T + '::push' + tag, m)
    spec_push(ctx, m, T + '::push' + tag, M, eager_inv=True)
    # digest
    box = Box({'A': (0, M - 1), 'B': (0, M - 1), 'n': (0, NMAX)})
    m = run_method(ctx, F, RC + '::digest', M, box, {1: ('ref', ('obj', st))}, 'C17.O1', T + '::digest')
    obl_report(ctx, 'C17.O1', T + '::digest' + tag, m)
    spec_digest(ctx, m, T + '::digest' + tag, M)
    m = run_method(ctx, F, RC + '::len', M, box, {1: ('ref', ('obj', st))}, 'C17.O4', T + '::len')
    spec_len(ctx, m, T + '::len' + tag)


def ret_obj(m):
    """[(fields dict, box)] of the returned struct (new) or of *self at return (methods)"""
    out = []
    for env, box in m.returns:
        v = env.get(0)
        if v is not None and v[0] == 'obj':
            out.append((v[1], box))
        else:
            s = env.get(1)
            while s is not None and s[0] == 'ref':
                s = s[1]
            if s is not None and s[0] == 'obj':
                out.append((s[1], box))
    return out


def inv_eager(ctx, m, method, M, fields, box):
    for f in ('a', 'b'):
        lo, hi = box.bounds(fields[f][1])
        ctx.check(lo >= 0 and hi <= M - 1, 'C17.O3', '%s:%s<MOD' % (method, f), 'stored %s in [%d, %d]' % (f, lo, hi),
                  '%s stores %s outside [0, MOD-1] (range [%d, %d]): the component is not reduced' % (method, f, lo, hi), 'src/checksum.rs (%s)' % method)


def spec_new(ctx, m, method, M, eager_inv, K=None):
    if m is None:
        return      # the method was outside the model: already reported as undecided
    objs = ret_obj(m)
    if not objs:
        ctx.bad('C17.O2', method + ':returns', '%s does not return a checksum state' % method, 'src/checksum.rs')
        return
    sx = [n for n, t in m.ssyms.items() if t == Poly.sym('x')]
    swx = [n for n, t in m.ssyms.items() if t == Poly.sym('w') * Poly.sym('x')]
    for fields, box in objs:
        ra = m.residue(fields['a'][1])
        rb = m.residue(fields['b'][1])
        ctx.check(bool(sx) and ra == Poly.sym(sx[0]), 'C17.O2', method + ':a', 'a == sum x_i (mod M)',
                  '%s: a is congruent to %s, the definition is sum of x_i (accumulated terms: %s)' % (method, ra, sorted(m.ssyms)), 'src/checksum.rs (%s)' % method)
        ctx.check(bool(swx) and rb == Poly.sym(swx[0]), 'C17.O2', method + ':b', 'b == sum (n-i)*x_i (mod M)',
                  '%s: b is congruent to %s, the definition is sum of (n-i)*x_i (accumulated terms: %s)' % (method, rb, sorted(m.ssyms)), 'src/checksum.rs (%s)' % method)
        ctx.check(fields['count'][1] == Poly.sym('n'), 'C17.O4', method + ':count', 'count == data.len()', '%s: count is %s, not the window length' % (method, fields['count'][1]), 'src/checksum.rs')
        inv_eager(ctx, m, method, M, fields, box)     # both types reduce in `new`
        if 'rolls' in fields:
            ctx.check(fields['rolls'][1] == Poly.const(0), 'C17.O3', method + ':rolls=0', 'rolls starts at 0', '%s: rolls starts at %s' % (method, fields['rolls'][1]), 'src/checksum.rs')


def spec_roll(ctx, m, method, M, eager_inv):
    if m is None:
        return      # the method was outside the model: already reported as undecided
    A, B, n, old, new = (Poly.sym(s) for s in ('A', 'B', 'n', 'old', 'new'))
    want_a = (A - old + new).mod(M)
    want_b = (B - n * old + A - old + new).mod(M)
    for fields, box in ret_obj(m):
        ra, rb = m.residue(fields['a'][1]), m.residue(fields['b'][1])
        ctx.check(ra == want_a, 'C17.O2', method + ':a', "a' == a - old + new (mod M)", "%s: a' is congruent to %s, the definition is %s" % (method, ra, want_a), 'src/checksum.rs (%s)' % method)
        ctx.check(rb == want_b, 'C17.O2', method + ':b', "b' == b - n*old + a' (mod M)", "%s: b' is congruent to %s, the definition is %s" % (method, rb, want_b), 'src/checksum.rs (%s)' % method)
        ctx.check(fields['count'][1] == n, 'C17.O4', method + ':count', 'count unchanged', '%s changes the window length to %s' % (method, fields['count'][1]), 'src/checksum.rs')
        if eager_inv:
            inv_eager(ctx, m, method, M, fields, box)


def spec_push(ctx, m, method, M, eager_inv):
    if m is None:
        return      # the method was outside the model: already reported as undecided
    A, B, n, v = (Poly.sym(s) for s in ('A', 'B', 'n', 'val'))
    want_a = (A + v).mod(M)
    want_b = (B + A + v).mod(M)
    for fields, box in ret_obj(m):
        ra, rb = m.residue(fields['a'][1]), m.residue(fields['b'][1])
        ctx.check(ra == want_a, 'C17.O2', method + ':a', "a' == a + x (mod M)", "%s: a' is congruent to %s, the definition is %s" % (method, ra, want_a), 'src/checksum.rs (%s)' % method)
        ctx.check(rb == want_b, 'C17.O2', method + ':b', "b' == b + a' (mod M)", "%s: b' is congruent to %s, the definition is %s" % (method, rb, want_b), 'src/checksum.rs (%s)' % method)
        ctx.check(fields['count'][1] == n + Poly.const(1), 'C17.O4', method + ':count', 'count + 1', '%s sets the window length to %s' % (method, fields['count'][1]), 'src/checksum.rs')
        if eager_inv:
            inv_eager(ctx, m, method, M, fields, box)


def spec_digest(ctx, m, method, M):
    """every return path: value == (Pb << 16) | Pa with Pa == a, Pb == b (mod M) and both in [0, M-1]"""
    if m is None:
        return      # the method was outside the model: already reported as undecided
    n = 0
    for env, box in m.returns:
        v = env.get(0)
        parts = env.get(-1)
        if v is None or v[0] != 'p':
            continue
        n += 1
        ok = False
        detail = str(v[1])
        if parts is not None:
            hi_part, lo_part = parts[1]
            # which operand is the shifted one?
            if not all(c % 65536 == 0 for c in hi_part.t.values()):
                hi_part, lo_part = lo_part, hi_part
            if all(c % 65536 == 0 for c in hi_part.t.values()) and hi_part.t:
                pb = Poly({k: c // 65536 for k, c in hi_part.t.items()})
                pa = lo_part
                ra, rb = m.residue(pa), m.residue(pb)
                la, ha = box.bounds(pa)
                lb, hb = box.bounds(pb)
                in_range = la >= 0 and lb >= 0 and ha <= M - 1 and hb <= M - 1
                ok = ra == Poly.sym('A') and rb == Poly.sym('B') and in_range
                detail = 'low part %s in [%d, %d] == %s; high part %s in [%d, %d] == %s (mod M)' % (pa, la, ha, ra, pb, lb, hb, rb)
        ctx.check(ok, 'C17.O2', method + ':value', 'digest == ((b mod M) << 16) | (a mod M)',
                  '%s does not return ((b mod M) << 16) | (a mod M) with both components below 65521: %s' % (method, detail[:300]), 'src/checksum.rs (%s)' % method)
    if n == 0:
        ctx.bad('C17.O2', method + ':value', '%s returns no integer value' % method, 'src/checksum.rs (%s)' % method)


def poly_subst(P, sym, Q):
    """P with every occurrence of the symbol replaced by the polynomial Q"""
    out = Poly.const(0)
    for mono, coef in P.t.items():
        term = Poly.const(coef)
        for s_, pw in mono:
            base = Q if s_ == sym else Poly.sym(s_)
            for _ in range(pw):
                term = term * base
        out = out + term
    return out


def spec_len(ctx, m, method):
    if m is None:
        return      # the method was outside the model: already reported as undecided
    ok = any(env.get(0) is not None and env[0][0] == 'p' and env[0][1] == Poly.sym('n') for env, box in m.returns)
    ctx.check(ok, 'C17.O4', method, 'len() == count', '%s does not return the window length' % method, 'src/checksum.rs')


# ---------------------------------------------------------------- FastRollingChecksum (lazy mod)
def _field_ever_reduced(F, type_path, field):
    """some method of the type stores `<expr> % <modulus>` (or `%=`) into self.<field>"""
    for pth, hb in list(F.bodies.items()) + list(getattr(F, 'inlined', {}).items()):
        if not pth.startswith(type_path + '::') or '::tests' in pth:
            continue
        fl = flow_of(hb)
        for bi in fl.cfg.reachable():
            for st in hb.blocks[bi]['stmts']:
                pr = st['dst']['proj']
                if pr and isinstance(pr[-1], dict) and pr[-1].get('name') == field:
                    if _rv_is_rem(fl, st['rv']):
                        return True
    return False


def _rv_is_rem(fl, rv, depth=0):
    if rv['k'] == 'bin' and rv['op'] == 'Rem':
        return True
    if rv['k'] == 'use' and rv['ops'][0]['k'] != 'const' and depth < 3:
        return any(o.kind == 'op' and o.key == 'Rem' for o in fl.origins(rv['ops'][0]))
    return False


def lazy(ctx, F, tag, M, K):
    T = 'FastRollingChecksum'
    if F.body(FC + '::roll') is not None and not _field_ever_reduced(F, FC, 'a'):
        # The type keeps the byte sum EXACT (no method ever stores a residue into `a`).  Its bounds then rest on a relation the
        # polynomial range domain does not carry: the byte `roll` subtracts is one of the summands (so `a + new - old` cannot go
        # negative) and the sum of a window of n bytes is at most 255 n.  Not decided here.  (A type that reduces `a` in one
        # method and subtracts without a bias in another is judged by the rules below - that mix is what goes wrong.)
        ctx.undecided('C17.O1', '%s keeps an exact, never reduced byte sum in `a`: that a - old + new stays within bounds follows from the window contents, a relation outside the range domain' % T)
        return
    box = Box({'n': (0, NMAX)})
    m = run_method(ctx, F, FC + '::new', M, box, {1: ('slice', 'data')}, 'C17.O1', T + '::new')
    obl_report(ctx, 'C17.O1', T + '::new' + tag, m)
    spec_new(ctx, m, T + '::new' + tag, M, eager_inv=True)
    st = {'a': ('p', Poly.sym('A'), 'u64'), 'b': ('p', Poly.sym('B'), 'u64'), 'count': ('p', Poly.sym('n'), 'usize'), 'rolls': ('p', Poly.sym('k'), 'u32')}
    # derived (cached) fields: anything else the constructor stores that is a function of the window length alone, e.g.
    # `bias = MOD * count`.  The methods may rely on it, so every method must leave it equal to the same function of the NEW length
    derived = {}
    ctor_states = list(ret_obj(m)) if m is not None else []
    if not ctor_states:
        # `new` is outside the model (e.g. written as a fold): a private constructor helper `fn(a, b, count) -> Self` says the same
        for pth, hb in list(F.bodies.items()) + list(getattr(F, 'inlined', {}).items()):
            if not pth.startswith(FC + '::') or '::{' in pth or hb.argc != 3 or not hb.local_ty(0).endswith(FC.split('::')[-1]):
                continue
            if [hb.local_ty(i) for i in (1, 2, 3)] != ['u64', 'u64', 'usize']:
                continue
            hm = Machine(F, hb, M, Box({'A': (0, M - 1), 'B': (0, M - 1), 'n': (0, NMAX)}), NMAX)
            hm.check = False
            try:
                hm.run({1: ('p', Poly.sym('A'), 'u64'), 2: ('p', Poly.sym('B'), 'u64'), 3: ('p', Poly.sym('n'), 'usize')})
                ctor_states += list(ret_obj(hm))
            except Unsupported:
                pass
    for fields, bx in ctor_states:
        for f, v in fields.items():
            if f not in st and v[0] == 'p' and set(v[1].syms()) <= {'n'}:
                derived[f] = (v[1], v[2])
    for f, (P, ty) in derived.items():
        st[f] = ('p', P, ty)
    HUGE = 1 << 200

    def deltas(method, env_extra, box_extra, n_range):
        box = Box({'A': (0, HUGE), 'B': (0, HUGE), 'n': n_range, 'k': (0, max(K - 1, 0))})
        box.d.update(box_extra)
        env = {1: ('ref', ('obj', st))}
        env.update(env_extra)
        b = F.body(FC + '::' + method)
        mm = Machine(F, b, M, box, NMAX)
        mm.check = False
        try:
            mm.run(env)
        except Unsupported as e:
            from verdict import NoVerdict
            raise NoVerdict('undecided: %s::%s %s' % (FC, method, e))
        return mm
    extras = {
        'roll': ({2: ('p', Poly.sym('old'), 'u8'), 3: ('p', Poly.sym('new'), 'u8')}, {'old': (0, 255), 'new': (0, 255)}, (1, NMAX)),
        'push': ({2: ('p', Poly.sym('val'), 'u8')}, {'val': (0, 255)}, (0, NMAX - 1)),
    }
    # phase A: slope of `a`
    SA = 0
    for meth, (ee, be, nr) in extras.items():
        mm = deltas(meth, ee, be, nr)
        for fields, bx in ret_obj(mm):
            pa = fields['a'][1]
            if any(s in mm.cong for s in pa.syms()):
                continue   # normalising path
            d = pa - Poly.sym('A')
            if 'A' in d.syms() or 'B' in d.syms():
                from verdict import NoVerdict
                raise NoVerdict('undecided: %s::%s updates `a` non-additively' % (FC, meth))
            SA = max(SA, bx.bounds(d)[1])
    a_max = M - 1 + max(K - 1, 0) * SA
    SB = 0
    for meth, (ee, be, nr) in extras.items():
        box = Box({'A': (0, a_max), 'B': (0, HUGE), 'n': nr, 'k': (0, max(K - 1, 0))})
        box.d.update(be)
        env = {1: ('ref', ('obj', st))}
        env.update(ee)
        mm = Machine(F, F.body(FC + '::' + meth), M, box, NMAX)
        mm.check = False
        mm.run(env)
        for fields, bx in ret_obj(mm):
            pb = fields['b'][1]
            if any(s in mm.cong for s in pb.syms()):
                continue
            d = pb - Poly.sym('B')
            if 'B' in d.syms():
                from verdict import NoVerdict
                raise NoVerdict('undecided: %s::%s updates `b` non-additively' % (FC, meth))
            SB = max(SB, bx.bounds(d)[1])
    b_max = M - 1 + max(K - 1, 0) * SB
    ctx.note('lazy invariant%s: a <= M-1 + rolls*%d, b <= M-1 + rolls*%d, rolls <= %d (a_max=%d, b_max=%d)' % (tag, SA, SB, K - 1, a_max, b_max))
    for meth, (ee, be, nr) in extras.items():
        box = Box({'A': (0, a_max), 'B': (0, b_max), 'n': nr, 'k': (0, max(K - 1, 0))})
        box.d.update(be)
        env = {1: ('ref', ('obj', st))}
        env.update(ee)
        m = run_method(ctx, F, FC + '::' + meth, M, box, env, 'C17.O1', T + '::' + meth)
        obl_report(ctx, 'C17.O1', T + '::' + meth + tag, m)
        (spec_roll if meth == 'roll' else spec_push)(ctx, m, T + '::' + meth + tag, M, eager_inv=False)
        # O3: rolls' in [0, K-1]; on the path that does not normalise the bound for k+1 holds by construction of SA/SB;
        # on the normalising path a, b < M and rolls == 0
        for fields, bx in ret_obj(m):
            for f, (P, ty) in derived.items():
                want = poly_subst(P, 'n', fields['count'][1])
                got = fields.get(f, (None, None))[1]
                ctx.check(got is not None and got == want, 'C17.O4', '%s::%s%s:%s-follows-count' % (T, meth, tag, f), '%s == %s of the new window length' % (f, P),
                          '%s::%s changes the window length to %s but leaves the cached field `%s` at %s (the constructor sets it to %s of the length): the next roll subtracts with a stale value and the digest leaves the definition'
                          % (T, meth, fields['count'][1], f, got, P), 'src/checksum.rs')
            rl = fields['rolls'][1]
            lo, hi = bx.bounds(rl)
            ctx.check(lo >= 0 and hi <= K - 1, 'C17.O3', '%s::%s%s:rolls<K' % (T, meth, tag), "rolls' in [%d, %d]" % (lo, hi),
                      "%s::%s can leave rolls = %d >= NORMALIZE_INTERVAL: the lazy sums are not normalised in time and the range bound is lost" % (T, meth, hi), 'src/checksum.rs')
            pa, pb = fields['a'][1], fields['b'][1]
            if rl == Poly.const(0):
                la, ha = bx.bounds(pa)
                lb, hb = bx.bounds(pb)
                ctx.check(ha <= M - 1 and hb <= M - 1, 'C17.O3', '%s::%s%s:normalised' % (T, meth, tag), 'after normalisation a, b < M',
                          '%s::%s resets rolls without reducing a and b below M' % (T, meth), 'src/checksum.rs')
            else:
                ctx.check(rl == Poly.sym('k') + Poly.const(1), 'C17.O3', '%s::%s%s:rolls+1' % (T, meth, tag), "rolls' == rolls + 1",
                          "%s::%s does not count the operation (rolls' = %s)" % (T, meth, rl), 'src/checksum.rs')
    box = Box({'A': (0, a_max), 'B': (0, b_max), 'n': (0, NMAX), 'k': (0, max(K - 1, 0))})
    m = run_method(ctx, F, FC + '::digest', M, box, {1: ('ref', ('obj', st))}, 'C17.O1', T + '::digest')
    obl_report(ctx, 'C17.O1', T + '::digest' + tag, m)
    spec_digest(ctx, m, T + '::digest' + tag, M)
    m = run_method(ctx, F, FC + '::len', M, box, {1: ('ref', ('obj', st))}, 'C17.O4', T + '::len')
    spec_len(ctx, m, T + '::len' + tag)
