"""Shared anchors of the hub rules (C03, C10, C11, C12, C13): the serve call graph, held regions
(closures run under with_commit_lock), and the path-taint labelling."""
from rules.common import *  # noqa: F401,F403
from callgraph import callgraph_of
import tables
import re

SERVE = 'serve::serve'
LOCK = 'serve::with_commit_lock'
SAFE_JOIN = 'serve::safe_join'
TMP_OF = 'serve::tmp_of'

# fs calls taking a path: name -> path argument positions (sinks of the C11 taint rule)
FS_PATH_SINKS = {}
for _c, _pos in tables.FS_MUTATORS.items():
    if _pos:
        FS_PATH_SINKS[_c] = list(_pos)
for _c, _p in tables.FS_READERS.items():
    FS_PATH_SINKS.setdefault(_c, [_p])
FS_PATH_SINKS.update({
    'std::fs::metadata': [0], 'std::fs::symlink_metadata': [0], 'std::fs::read_dir': [0], 'std::fs::read_link': [0],
    'std::fs::canonicalize': [0], 'std::path::Path::exists': [0], 'std::path::Path::is_dir': [0], 'std::path::Path::is_file': [0],
    'std::path::Path::is_symlink': [0], 'std::path::Path::metadata': [0], 'std::path::Path::symlink_metadata': [0],
    'std::path::Path::read_dir': [0], 'std::path::Path::try_exists': [0], 'std::path::Path::read_link': [0],
    'std::path::Path::canonicalize': [0],
})

ROOT, SAFE, TAINT, OTHER = 'ROOT', 'SAFE', 'TAINT', 'OTHER'
# a path obtained with parent() / with_file_name() / with_extension(): for the served directory itself (request path "", ".")
# these name its parent or a sibling of it - outside the tree
SIBLING = 'SIBLING'


class Hub:
    def __init__(self, ctx, F, rid):
        self.F = F
        self.ctx = ctx
        self.cg = callgraph_of(F)
        if F.body(SERVE) is None:
            ctx.missing(rid, SERVE)
        self.graph = self.cg.reach([SERVE])
        import flow as _flow
        # helpers located by what they are used for, not by name (a private fn may be renamed):
        #   staging-name helper = the crate-local fn whose result is the path of the content creator in handle_put
        #   current-hash helper = the crate-local fn whose result is the first argument of cas_decide
        import semantic_anchors
        t_, c_ = semantic_anchors.hub_helpers(F)
        self.tmp_of = t_ or (TMP_OF if F.body(TMP_OF) is not None else None)
        self.current_hash = c_ or ('serve::current_hash' if F.body('serve::current_hash') is not None else None)
        self.ip = _flow.Interproc(F, opaque={SAFE_JOIN, self.tmp_of, 'wire::read_frame', self.current_hash, 'meta::fingerprint_path',
                                              'meta::discover_local_fingerprints', 'transfer::discover_local_files'})
        # for labelling every crate-local call stays visible (judged from its body by helper_return_label: summaries by
        # provenance alone would carry taint through sanitising helpers such as a hex formatter)
        self.ip_lab = _flow.Interproc(F, opaque=set(F.bodies.keys()))
        self._plabel = {}
        self._busy = set()
        # held regions: closures passed to with_commit_lock
        self.held = {}   # closure body path -> (caller body, call bb)
        # a staging file that is OPTIONAL (`staged: Option<PathBuf>` in a struct of the put handler: empty content stages
        # nothing, say): which of the paths below exist, and which arm creates / renames / removes what, is then decided by the
        # value of that Option - the per-call path rules do not read it
        self.optional_staging = None
        for name, adt in F.adts.items():
            if adt.get('crate') != 'bin' or not str(adt.get('file', '')).endswith('serve.rs'):
                continue
            for v in adt.get('variants', []):
                for f in v.get('fields', []):
                    if isinstance(f, dict) and re.match(r'^std::option::Option<std::path::PathBuf>$', str(f.get('ty', '')).replace(' ', '')):
                        self.optional_staging = '%s.%s' % (name.split('::')[-1], f.get('name'))
        # the same limit one step further: the final path AND the staging path of a Put kept together in a struct of the module
        # (`Landing { dst, tmp, file }`): the handlers then name their paths as fields of that value, whose provenance the
        # per-call path classes do not follow - the rules that say "not decided" for the Option form say it here too
        if self.optional_staging is None:
            for name, adt in F.adts.items():
                if adt.get('crate') != 'bin' or not str(adt.get('file', '')).endswith('serve.rs'):
                    continue
                for v in adt.get('variants', []):
                    pf = [f.get('name') for f in v.get('fields', []) if isinstance(f, dict) and str(f.get('ty', '')).replace(' ', '') == 'std::path::PathBuf']
                    if len(pf) >= 2:
                        self.optional_staging = '%s.{%s}: paths kept in a struct' % (name.split('::')[-1], ', '.join(pf))
        runners = dict(semantic_anchors.lock_runners(F))
        runners.setdefault(LOCK, 1)
        self.lock_runners = runners
        others = sorted(k for k in runners if k != LOCK and F.body(k) is not None)
        self.lock_fn = LOCK if F.body(LOCK) is not None or len(others) != 1 else others[0]
        for b, bb, c in self.cg.call_sites(lambda c: c in runners, within=self.graph):
            fl = flow_of(b)
            t = b.blocks[bb]['term']
            if runners[c] >= len(t['args']):
                continue
            for o in fl.origins(t['args'][runners[c]]):
                if o.kind == 'agg' and F.body(o.key) is not None:
                    self.held[o.key] = (b, bb)

    # ---------------------------------------------------------------- closure captures
    def capture_operand(self, body, k):
        """(parent body, operand) that initialises upvar k of closure `body`."""
        parent = self.F.body(body.parent) if body.parent else None
        if parent is None:
            return None
        for blk in parent.blocks:
            for st in blk['stmts']:
                rv = st['rv']
                if rv['k'] == 'agg' and rv.get('ak') in ('closure', 'coroutine') and norm(rv['def']) == body.path:
                    if k < len(rv['ops']):
                        return parent, rv['ops'][k]
        return None

    # ---------------------------------------------------------------- taint labels
    def label_operand(self, body, op, depth=0, _seen=None):
        fl = flow_of(body)
        out = set()
        if _seen is None:
            _seen = set()
        self._seen = _seen
        for o in fl.origins(op, interproc=self.ip_lab, mut_calls=True):
            k = (body.path, o)
            if k in _seen:
                continue
            _seen.add(k)
            out |= self.label_origin(body, fl, o, depth)
        return out

    INT_TYS = {'u8', 'u16', 'u32', 'u64', 'u128', 'usize', 'i8', 'i16', 'i32', 'i64', 'i128', 'isize', 'bool'}

    def helper_return_label(self, callee_path, depth):
        """Label of what a crate-local path helper returns, from its own body (parameters are labelled from its call
        sites in the serve graph).  None when the body contains something the labelling does not understand."""
        hb = self.F.body(callee_path)
        if hb is None:
            return None
        key = ('ret', callee_path)
        if key in self._plabel:
            return self._plabel[key]
        if key in self._busy:
            return set()
        self._busy.add(key)
        saved = self._seen
        lab = self.label_operand(hb, 0, depth + 1, set())
        self._seen = saved
        self._busy.discard(key)
        res = None if OTHER in lab else lab
        self._plabel[key] = res
        self._plabel[('ret-taint', callee_path)] = TAINT in lab
        return res

    INT_RENDER_OK = ('core::fmt::rt::Argument::', 'std::fmt::Arguments::', 'std::fmt::Write::write_fmt', 'std::fmt::format',
                     'std::string::String::with_capacity', 'std::string::String::new', 'std::iter::Iterator::', 'std::iter::IntoIterator::into_iter',
                     'core::slice::<impl [T]>::iter', 'std::ops::Index::index', 'core::slice::<impl [T]>::len', 'core::slice::<impl [T]>::chunks',
                     'core::slice::<impl [T]>::get')

    def renders_integers_only(self, path):
        """a crate-local fn that can only return text made of formatted integers and its own literals: every parameter is an
        integer / integer array / integer slice, every call (nested closures included) is iteration, indexing, `String::with_capacity`
        or the fmt machinery, and every formatted argument is an integer (no from_utf8, no char pushes, no other source)"""
        key = ('intrender', path)
        if key in self._plabel:
            return self._plabel[key]
        hb = self.F.body(path)
        ok = hb is not None and hb.argc >= 1
        ity = lambda ty: re.sub(r'^\[(.*?)(; *\d+)?\]$', r'\1', ty.replace('&', '').replace('mut ', '').strip()) in self.INT_TYS
        if ok:
            ok = all(ity(hb.local_ty(i)) for i in range(1, hb.argc + 1))
        bodies = [hb] + ([b for k, b in self.F.bodies.items() if k.startswith(path + '::{')] if ok else [])
        for b in bodies if ok else []:
            for blk in b.blocks:
                t = blk['term']
                if t['k'] != 'call':
                    continue
                c = callee(t) or ''
                if not any(c.startswith(w) for w in self.INT_RENDER_OK):
                    ok = False
                if c.startswith('core::fmt::rt::Argument::'):
                    a = t['args'][0]
                    if 'p' not in a or a['p']['proj'] or not ity(b.local_ty(a['p']['l'])):
                        ok = False
        self._plabel[key] = ok
        return ok

    def label_origin(self, body, fl, o, depth):
        if depth > 40:
            return {OTHER}
        if o.kind == 'const':
            return set()
        if o.kind in ('comb', 'op'):
            return set()
        if o.kind == 'call':
            c = o.key
            if c == SAFE_JOIN:
                return {SAFE}
            if c == 'wire::read_frame':
                return {TAINT}
            if c == self.tmp_of:
                # staging-name helper: prefer what its body derives the name from; fall back to "anything in its arguments"
                lab = self.helper_return_label(c, depth)
                if lab is not None:
                    return lab
            if c == 'std::ops::FromResidual::from_residual':
                return set()    # the propagated error of `?`: not a path value
            if c in ('std::string::String::new', 'std::string::String::with_capacity', 'std::path::PathBuf::new', 'std::process::id',
                     'std::ffi::OsString::new'):
                return set()
            if c in ('blake3::Hash::to_hex',) or c.endswith('::to_hex'):
                return set()    # lower-case hex digits of a digest (documented by the blake3 API): no separators, no dots
            if c.startswith('core::fmt::rt::Argument::') or c.startswith('std::fmt::Arguments::') or c in (
                    'std::fmt::format', 'std::fmt::Write::write_fmt', 'std::ffi::OsStr::to_owned', 'std::path::Path::as_os_str',
                    'std::ops::Deref::deref', 'std::convert::AsRef::as_ref', 'std::borrow::ToOwned::to_owned', 'std::result::Result::Ok'):
                t = body.blocks[o.bb]['term']
                out = set()
                for a in t['args']:
                    if c.startswith('core::fmt::rt::Argument::') and 'p' in a:
                        ty = body.local_ty(a['p']['l']).replace('&', '').replace('mut ', '').strip() if not a['p']['proj'] else ''
                        if ty in self.INT_TYS:
                            continue    # an integer renders as digits / hex digits / sign: no separators, no dots
                    out |= self.label_operand(body, a, depth + 1, self._seen)
                return out
            if c in ('std::path::Path::ancestors', 'std::iter::Iterator::skip', 'std::iter::Iterator::take', 'std::iter::Iterator::take_while',
                     'std::iter::Iterator::skip_while', 'std::iter::Iterator::rev'):
                # walking up from a path: every item is the path itself or one of its parents
                t = body.blocks[o.bb]['term']
                out = self.label_operand(body, t['args'][0], depth + 1, self._seen)
                if c == 'std::path::Path::ancestors':
                    out = set(out) | {SIBLING}
                return out
            if c in (self.tmp_of, 'std::path::Path::join', 'std::path::Path::parent', 'std::path::Path::with_extension',
                     'std::path::Path::with_file_name', 'std::path::PathBuf::from', 'std::path::Path::strip_prefix',
                     'std::path::Path::file_stem', 'std::path::Path::file_name', 'std::path::Path::extension', 'std::ffi::OsStr::to_string_lossy',
                     'std::ffi::OsStr::to_str', 'std::path::Path::to_string_lossy', 'std::path::Path::to_str', 'std::path::Path::display',
                     'std::option::Option::<T>::unwrap_or_default', 'std::borrow::Cow::<\'_, B>::into_owned', 'std::string::ToString::to_string',
                     'arrayvec::array_string::ArrayString::<CAP>::as_str', 'std::string::String::as_str', 'std::string::String::as_mut_str'):
                t = body.blocks[o.bb]['term']
                out = set()
                for a in t['args']:
                    out |= self.label_operand(body, a, depth + 1, self._seen)
                if c in ('std::path::Path::parent', 'std::path::Path::with_extension', 'std::path::Path::with_file_name'):
                    out.add(SIBLING)
                return out
            if c in ('std::boxed::Box::<T>::new_uninit', 'std::vec::Vec::<T>::new'):
                return set()
            if c in ('std::fs::read_dir', 'std::iter::Iterator::next', 'std::fs::DirEntry::path', 'std::vec::Vec::<T, A>::pop',
                     'std::iter::IntoIterator::into_iter', 'std::boxed::box_assume_init_into_vec_unsafe',
                     'transfer::discover_local_files'):
                # transfer::discover_local_files (tabled, confirmed by reading): returns the relative paths of the entries
                # found by walking its argument
                # directory walking: entries found under an already-labelled directory
                t = body.blocks[o.bb]['term']
                out = set()
                for a in t['args']:
                    out |= self.label_operand(body, a, depth + 1, self._seen)
                return out
            if c in self.F.bodies and self.renders_integers_only(c):
                return set()    # digits / hex digits of integers and the helper's own literals: no path structure
            if c in self.F.bodies:
                # crate-local helper (a name-building function extracted by a refactor): judged from its own body, its
                # parameters labelled from its call sites in the serve graph
                lab = self.helper_return_label(c, depth)
                if lab is not None:
                    return lab
                return {OTHER, TAINT} if self._plabel.get(('ret-taint', c)) else {OTHER}
            # a call the labelling has no entry for: what it returns is unknown - but if client-controlled data goes in, the
            # result is treated as client-controlled too (`String::from_utf8_lossy(&hash[..6])`)
            out = {OTHER}
            rty = ''
            if o.bb is not None and isinstance(body.blocks[o.bb]['term'].get('dst'), dict) and not body.blocks[o.bb]['term']['dst'].get('proj'):
                rty = body.local_ty(body.blocks[o.bb]['term']['dst']['l'])
            textual = any(x in rty for x in ('str', 'String', 'Path', 'OsStr', 'Vec<u8>', '[u8]'))
            if o.bb is not None and textual:
                for a in body.blocks[o.bb]['term'].get('args', []):
                    if TAINT in self.label_operand(body, a, depth + 1, self._seen):
                        out.add(TAINT)
            return out
        if o.kind == 'mutcall':
            # e.g. dirs.push(path): the pushed values were labelled through their own origins
            return set()
        if o.kind == 'agg':
            return set()
        if o.kind == 'param':
            return self.param_label(body, o.key)
        if o.kind == 'upvar':
            if o.key is None:
                return {OTHER}
            cap = self.capture_operand(body, int(o.key))
            if cap is None:
                return {OTHER}
            pb, op = cap
            if o.path:
                # a field of the captured value: label what that field was built with
                pfl = flow_of(pb)
                out = set()
                for x in pfl.origins(op, path=tuple(o.path), interproc=self.ip_lab):
                    k = (pb.path, x)
                    if k in self._seen:
                        continue
                    self._seen.add(k)
                    out |= self.label_origin(pb, pfl, x, depth + 1)
                return out
            return self.label_operand(pb, op, depth + 1, self._seen)
        return {OTHER}

    def param_label(self, body, i):
        key = (body.path, i)
        if key in self._plabel:
            return self._plabel[key]
        if key in self._busy:
            return set()
        self._busy.add(key)
        out = set()
        if body.path == SERVE:
            out = {ROOT}
        else:
            sites = [(b, bb) for (b, bb, c) in self.cg.call_sites(lambda c: c == body.path, within=self.graph)]
            # trait-resolved / fn-item uses are not expected for these helpers
            if not sites:
                out = {OTHER}
            for b, bb in sites:
                t = b.blocks[bb]['term']
                if i - 1 < len(t['args']):
                    out |= self.label_operand(b, t['args'][i - 1])
        self._busy.discard(key)
        self._plabel[key] = out
        return out

    # ---------------------------------------------------------------- sinks
    def fs_sinks(self):
        """[(body, bb, callee, argpos, operand)] for every path-taking fs call in the serve graph."""
        out = []
        for b, bb, c in self.cg.call_sites(lambda c: c in FS_PATH_SINKS, within=self.graph):
            t = b.blocks[bb]['term']
            for pos in FS_PATH_SINKS[c]:
                if pos < len(t['args']):
                    out.append((b, bb, c, pos, t['args'][pos]))
        return out

    def in_held_region(self, body):
        p = body.path
        while p:
            if p in self.held:
                return True
            b = self.F.body(p)
            p = b.parent if b is not None else None
        return False

    # ---------------------------------------------------------------- origins across closure captures
    def deep_origins(self, body, op, mut_calls=False, depth=0, path=()):
        """{(body path, Origin)} with upvar origins replaced by the origins of the captured operand in the parent (the field
        path read from the captured value is handed on, so `staged.path` of a captured struct is the value that field was built with)."""
        fl = flow_of(body)
        out = set()
        for o in fl.origins(op, path=path, interproc=self.ip, mut_calls=mut_calls):
            if o.kind == 'upvar' and o.key is not None and depth < 6:
                cap = self.capture_operand(body, int(o.key))
                if cap is not None:
                    pb, pop = cap
                    for (bp, x) in self.deep_origins(pb, pop, mut_calls, depth + 1, path=tuple(o.path)):
                        out.add((bp, x))
                    continue
            out.add((body.path, o))
        return out

    def param_class(self, body, i, depth=0):
        """{classes} of the arguments passed for parameter i at the call sites of `body` in the serve graph (None for the
        entry point, for functions without call sites, or when the arguments are not paths built in the caller)"""
        if body.path == SERVE or depth > 4:
            return None
        key = ('cls', body.path, i)
        if key in self._plabel:
            return self._plabel[key]
        self._plabel[key] = None
        sites = [(b, bb) for (b, bb, c) in self.cg.call_sites(lambda c: c == body.path, within=self.graph)]
        out = set()
        for b, bb in sites:
            t = b.blocks[bb]['term']
            if i - 1 >= len(t['args']):
                return None
            c = self.path_class(b, t['args'][i - 1])
            out |= set(c.split('+'))
        res = out if out and 'other' not in out else None
        # only trust it when the callers actually build the path (a call to tmp_of / safe_join / join is visible there)
        if res is not None and not (res & {'staging', 'control'}):
            res = None
        self._plabel[key] = res
        return res

    def path_class(self, body, op, _raw=False):
        """'staging' (through tmp_of), 'live' (safe_join-derived, not through tmp_of), 'control' (root-derived), 'other'."""
        dos = self.deep_origins(body, op)
        kinds = set()
        for bp, o in dos:
            if o.kind == 'call' and o.key == self.tmp_of:
                kinds.add('staging')
            elif o.kind == 'call' and o.key == SAFE_JOIN:
                kinds.add('live')
            elif o.kind == 'call' and o.key in ('std::path::Path::parent',):
                kinds.add('parent')
            elif o.kind == 'const' or o.kind in ('comb', 'op', 'agg'):
                continue
            elif o.kind == 'call' and o.key == 'std::path::Path::join':
                b2 = self.F.body(bp)
                t = b2.blocks[o.bb]['term']
                lab = self.label_operand(b2, t['args'][0])
                kinds.add('control' if lab == {ROOT} else 'other')
            elif o.kind == 'param':
                pb_ = self.F.body(bp)
                # a helper's parameter is whatever its callers pass (a staging path handed to an extracted helper stays a
                # staging path); the handlers' own parameters are classified by label
                cls = self.param_class(pb_, o.key) if not o.path else None
                if cls:
                    kinds |= cls
                else:
                    lab = self.param_label(pb_, o.key)
                    kinds.add('control' if lab == {ROOT} else 'live' if lab == {SAFE} or lab == {SAFE, ROOT} else 'other')
            else:
                kinds.add('other')
        if kinds == {'control'} and not _raw:
            # a staging area kept under the control directory (`<root>/.copia/staging/<name>`): the very value content is created
            # at and later renamed from is a staging path by role
            if self._sig(dos) in self.staging_values_control():
                return 'staging'
        if kinds == {'live'} and not _raw:
            # a live path with a suffix appended to its last component (`<dst>.<pid>.copia-tmp` spelled inline) is the same
            # thing the staging-name helper returns - when it is the very value content is created at (a conflict-copy
            # name is built the same way but nothing is ever created there: it stays a derived live name)
            ps = self.appended(body, op)
            if ps and ps in self.staging_values():
                return 'staging'
        if len(kinds) == 1:
            return list(kinds)[0]
        if not kinds:
            return 'other'
        return '+'.join(sorted(kinds))

    WALKERS = ('transfer::discover_local_files', 'std::fs::read_dir', 'std::fs::DirEntry::path', 'meta::discover_local_fingerprints')

    def from_walk(self, body, op):
        """the path is an entry found by listing a directory (not a name the code builds): which files those are is data"""
        work, seen = [(body, op)], set()
        while work and len(seen) < 60:
            b_, op_ = work.pop()
            for bp, o in self.deep_origins(b_, op_, mut_calls=True):
                k = (bp, o.kind, str(o.key), o.bb)
                if k in seen:
                    continue
                seen.add(k)
                if o.kind == 'call' and str(o.key) in self.WALKERS:
                    return True
                if o.kind == 'call' and o.bb is not None and str(o.key) in ('std::path::Path::join', 'std::path::PathBuf::from', 'std::iter::Iterator::next',
                                                                             'std::iter::IntoIterator::into_iter', 'std::result::Result::<T, E>::unwrap_or_default',
                                                                             'std::vec::Vec::<T, A>::pop', 'core::slice::<impl [T]>::iter'):
                    pb = self.F.body(bp)
                    work += [(pb, a) for a in pb.blocks[o.bb]['term'].get('args', []) if a['k'] != 'const']
        return False

    def ancestor_walk_bound(self, body, op):
        """for a path that is an item of `p.ancestors()...`: ('components' | 'raw' | 'none', description) - what limits how far the
        walk climbs: a `take(n)` whose n counts the components of a Path, a `take(n)` whose n is computed from the text of a string,
        or nothing"""
        fl = flow_of(body)
        work, seen = [op], set()
        take_ns, saw_anc = [], False
        while work and len(seen) < 40:
            cur = work.pop()
            for o in fl.origins(cur):
                k = (o.kind, str(o.key), o.bb)
                if k in seen or o.kind != 'call' or o.bb is None:
                    continue
                seen.add(k)
                c = str(o.key)
                t = body.blocks[o.bb]['term']
                if c == 'std::path::Path::ancestors':
                    saw_anc = True
                elif c == 'std::iter::Iterator::take' and len(t['args']) > 1:
                    take_ns.append(t['args'][1])
                    work.append(t['args'][0])
                elif c in ('std::iter::Iterator::next', 'std::iter::Iterator::skip', 'std::iter::Iterator::rev', 'std::iter::Iterator::skip_while', 'std::iter::Iterator::take_while'):
                    work.append(t['args'][0])
        if not saw_anc:
            return None
        if not take_ns:
            return ('none', 'the walk up is not limited')
        kinds = set()
        for n in take_ns:
            stack, seen2 = [n], set()
            while stack and len(seen2) < 60:
                cur = stack.pop()
                for o in fl.origins(cur):
                    k = (o.kind, str(o.key), o.bb)
                    if k in seen2:
                        continue
                    seen2.add(k)
                    if o.kind == 'call' and o.bb is not None:
                        c = str(o.key)
                        if c == 'std::path::Path::components':
                            kinds.add('components')
                        elif 'str>::matches' in c or 'str>::split' in c or 'str>::len' in c or 'str>::chars' in c or 'str>::bytes' in c or 'str>::find' in c:
                            kinds.add('raw')
                        stack += [a for a in body.blocks[o.bb]['term'].get('args', []) if a['k'] != 'const']
        if 'raw' in kinds:
            return ('raw', 'the number of levels is computed from the text of the request path')
        if 'components' in kinds:
            return ('components', 'the number of levels is the number of components of the path')
        return ('none', 'the limit of the walk is not derived from the path')

    def appended(self, body, op):
        """identity of the suffix appends behind a path value: frozenset of (body, block) of `OsString::push` calls on the
        path's own string (not a join)"""
        return frozenset((bp, o.bb) for bp, o in self.deep_origins(body, op, mut_calls=True)
                         if o.kind == 'mutcall' and o.key in ('std::ffi::OsString::push', 'std::string::String::push_str', 'std::string::String::push'))

    @staticmethod
    def _sig(dos):
        return frozenset((bp, o.kind, str(o.key), o.bb) for bp, o in dos if o.kind == 'call' and o.key == 'std::path::Path::join')

    def staging_values_control(self):
        """origin signatures of the paths under the control directory at which content is created"""
        if getattr(self, '_staging_c', None) is None:
            self._staging_c = set()
            for b, bb, c in self.cg.call_sites(lambda c: c in tables.CONTENT_CREATORS and not c.endswith('OpenOptions::open'), within=self.graph):
                t = b.blocks[bb]['term']
                pos = tables.CONTENT_CREATORS[c]
                if pos < len(t['args']) and self.path_class(b, t['args'][pos], _raw=True) == 'control':
                    sg = self._sig(self.deep_origins(b, t['args'][pos]))
                    if sg:
                        self._staging_c.add(sg)
        return self._staging_c

    def staging_values(self):
        if getattr(self, '_staging', None) is None:
            self._staging = set()
            for b, bb, c in self.cg.call_sites(lambda c: c in tables.CONTENT_CREATORS and not c.endswith('OpenOptions::open'), within=self.graph):
                t = b.blocks[bb]['term']
                pos = tables.CONTENT_CREATORS[c]
                if pos < len(t['args']) and self.path_class(b, t['args'][pos], _raw=True) == 'live':
                    ps = self.appended(b, t['args'][pos])
                    if ps:
                        self._staging.add(ps)
        return self._staging

    # ---------------------------------------------------------------- the CAS read
    def current_reads(self):
        """callees that read the live file's current hash: the current-hash helper (found by use) and the fingerprint reader it wraps"""
        return {c for c in (self.current_hash, 'meta::fingerprint_path') if c}

    def is_current(self, os_):
        """every value origin is the result of a current-hash read (projections / Option combinators in between are fine)"""
        calls = [o for o in os_ if o.kind not in ('comb', 'agg')]
        return bool(calls) and all(o.kind == 'call' and o.key in self.current_reads() for o in calls)



def put_arg_slots(F):
    """argument positions (0-based, in the call's `args`) of HubClient::put by what the parameters ARE, not by their order:
    {'rel': &str, 'expected': Option<[u8; 32]>, 'local': &Path, 'hash': [u8; 32]}; None when a role is missing or ambiguous"""
    p = F.body('hub::HubClient::put')
    if p is None:
        return None
    roles = {}
    for i in range(1, p.argc + 1):
        ty = p.local_ty(i).replace(' ', '')
        r = None
        if ty.endswith('Option<[u8;32]>'):
            r = 'expected'
        elif ty in ('[u8;32]', '&[u8;32]'):
            r = 'hash'
        elif ty in ('&str', 'std::string::String', '&std::string::String'):
            r = 'rel'
        elif 'Path' in ty:
            r = 'local'
        if r:
            if r in roles:
                return None
            roles[r] = i - 1
    return roles if set(roles) == {'rel', 'expected', 'local', 'hash'} else None
