"""interactive helper: from dbg import *; F = load('cli')"""
import sys, os
sys.path.insert(0, os.path.dirname(os.path.abspath(__file__)))
import extract, flow
from facts import Facts
from flow import flow_of
from rules.common import *  # noqa


def load(cfg='cli'):
    dirs, key = extract.ensure([cfg])
    F = Facts(cfg, dirs[cfg])
    flow.register_enums(F)
    import inline
    inline.apply(F)
    return F
