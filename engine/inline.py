"""Helper-transparent analysis: splice small private helpers into their callers at the fact level (MIR JSON), so that a
rule written against `handle_put` / `run_bisync` / `apply` ... still sees the mechanism after an extract-function refactor.

Which functions are spliced - a function F of the crate is inlined into its callers iff
  * it is a plain `fn` (not a closure / coroutine / async fn), not `pub`, not recursive, at most MAX_BLOCKS blocks,
  * it has between 1 and MAX_SITES call sites, all of them in bodies of the SAME source file,
  * no rule of the checker refers to it by name (ANCHORS = every quoted `module::item` path that occurs in engine/rules/*.py
    and engine/*.py): the functions the rules are *about* stay what they are.
On the pinned tree this selects nothing the rules look at; after "extract helper" it selects exactly the new helper.

The splice is the textbook one: callee locals and blocks are renumbered behind the caller's, parameters become assignments
from the call's argument operands, `return` becomes `dst = move _ret; goto <call target>`.  Bodies nested in the callee
(closures) stay separate bodies - their `parent` still names the callee, whose own facts remain available.
"""
import copy
import glob
import os
import re

MAX_BLOCKS = 250
MAX_SITES = 4
_HERE = os.path.dirname(os.path.abspath(__file__))
_anchors = None


def anchors():
    global _anchors
    if _anchors is None:
        out = set()
        for f in glob.glob(os.path.join(_HERE, 'rules', '*.py')) + glob.glob(os.path.join(_HERE, '*.py')):
            if f.endswith('inline.py'):
                continue
            for m in re.finditer(r"""['"]([A-Za-z_<][^'"\n]*::[A-Za-z_][A-Za-z0-9_]*)['"]""", open(f).read()):
                out.add(m.group(1))
        # bare names used with suffix tests / prefixes
        out |= {'run_delta', 'run_patch', 'run_signature', 'run'}
        _anchors = out
    return _anchors


def _callee(t):
    f = t.get('func', {})
    fn = f.get('fn_resolved') or f.get('fn')
    if fn is None:
        return None
    return re.sub(r'\bcopia::', '', fn)


def _shift_place(p, loff):
    q = {'l': p['l'] + loff, 'proj': []}
    for e in p['proj']:
        if isinstance(e, dict) and 'idx' in e:
            e = dict(e, idx=e['idx'] + loff)
        q['proj'].append(e)
    return q


def _shift_op(op, loff):
    if 'p' in op:
        return dict(op, p=_shift_place(op['p'], loff))
    return op


def _shift_rv(rv, loff):
    rv = dict(rv)
    if 'p' in rv:
        rv['p'] = _shift_place(rv['p'], loff)
    if 'ops' in rv:
        rv['ops'] = [_shift_op(o, loff) for o in rv['ops']]
    return rv


def _shift_term(t, loff, boff, ret_block):
    t = dict(t)
    for k in ('target', 'otherwise', 'drop'):
        if isinstance(t.get(k), int):
            t[k] = t[k] + boff
    if 'imaginary' in t and isinstance(t['imaginary'], int):
        t['imaginary'] += boff
    if 'unwind' in t and isinstance(t['unwind'], int):
        t['unwind'] += boff
    if 'targets' in t:
        t['targets'] = [[v, tg + boff] for v, tg in t['targets']]
    if 'on' in t:
        t['on'] = _shift_op(t['on'], loff)
    if 'cond' in t:
        t['cond'] = _shift_op(t['cond'], loff)
    if 'args' in t:
        t['args'] = [_shift_op(a, loff) for a in t['args']]
    if 'dst' in t and isinstance(t['dst'], dict):
        t['dst'] = _shift_place(t['dst'], loff)
    if 'p' in t and isinstance(t['p'], dict):
        t['p'] = _shift_place(t['p'], loff)
    if 'value' in t and isinstance(t['value'], dict):
        t['value'] = _shift_op(t['value'], loff)
    if 'func' in t and isinstance(t['func'], dict) and 'p' in t['func']:
        t['func'] = _shift_op(t['func'], loff)
    return t


def _try_shape(caller, call):
    """(T, brk) when the call's result goes straight into `?`: target block T = `_b = Try::branch(move dst)`, followed by a
    switch on discriminant(_b) whose value-1 (Break) target is `brk`; else None"""
    T = call.get('target')
    if T is None or T >= len(caller.blocks):
        return None
    tb = caller.blocks[T]
    tt = tb['term']
    if tb['stmts'] or tt['k'] != 'call' or not ((_callee(tt) or '').endswith('Try::branch') or 'Try>::branch' in (_callee(tt) or '')) or not tt['args']:
        return None
    a = tt['args'][0]
    if 'p' not in a or a['p'] != call['dst']:
        return None
    N = tt.get('target')
    if N is None:
        return None
    nb = caller.blocks[N]
    nt = nb['term']
    if nt['k'] != 'switch' or len(nb['stmts']) != 1 or nb['stmts'][0]['rv']['k'] != 'discr' or nb['stmts'][0]['rv']['p'] != tt['dst']:
        return None
    tg = dict((v, t_) for v, t_ in nt['targets'])
    brk = tg.get(1)
    if brk is None and 0 in tg:
        brk = nt['otherwise']
    return (T, brk) if brk is not None else None


def _classify_exit(callee, P):
    """'err' / 'ok' / None for the function exit that runs through block P (a predecessor of the return block): what the
    last assignment to the return place on that straight-line chain produces"""
    preds = {}
    for i, blk in enumerate(callee.blocks):
        t = blk['term']
        for k in ('target',):
            if isinstance(t.get(k), int):
                preds.setdefault(t[k], []).append(i)
        for v, tg in t.get('targets', []):
            preds.setdefault(tg, []).append(i)
        if isinstance(t.get('otherwise'), int):
            preds.setdefault(t['otherwise'], []).append(i)
    seen = set()

    def go(cur, depth):
        """classification of every way into block `cur` that has not yet assigned the return place"""
        if depth > 14 or cur in seen:
            return None
        seen.add(cur)
        blk = callee.blocks[cur]
        for st in reversed(blk['stmts']):
            if st['dst']['l'] == 0 and not st['dst']['proj']:
                rv = st['rv']
                if rv['k'] == 'agg' and rv.get('vname') == 'Err':
                    return 'err'
                if rv['k'] == 'agg' and rv.get('vname') == 'Ok':
                    return 'ok'
                return None
        ps = preds.get(cur, [])
        if not ps:
            return None
        res = set()
        for p_ in ps:
            pt = callee.blocks[p_]['term']
            if pt['k'] == 'call' and isinstance(pt.get('dst'), dict) and pt['dst']['l'] == 0 and not pt['dst']['proj']:
                c_ = _callee(pt) or ''
                res.add('err' if (c_.endswith('FromResidual::from_residual') or 'FromResidual' in c_ and c_.endswith('from_residual')) else None)
            elif pt['k'] in ('goto', 'drop', 'call', 'assert'):
                res.add(go(p_, depth + 1))
            else:
                res.add(None)
        return list(res)[0] if len(res) == 1 else None
    return go(P, 0)


def splice(caller, bb, callee):
    """inline `callee` at the call in block `bb` of `caller` (both facts.Body); mutates caller.locals / caller.blocks"""
    call = caller.blocks[bb]['term']
    loff = len(caller.locals)
    boff = len(caller.blocks)
    target = call.get('target')
    line = call.get('line')
    shape = _try_shape(caller, call)
    # locals
    for l in callee.locals:
        caller.locals.append(dict(l))
    rets = [i for i, blk in enumerate(callee.blocks) if blk['term']['k'] == 'return']
    stubs = []      # (callee block P, return block R, classification)
    # blocks
    for i, blk in enumerate(callee.blocks):
        nb = {'stmts': [], 'cleanup': blk.get('cleanup', False)}
        for st in blk['stmts']:
            nb['stmts'].append(dict(st, dst=_shift_place(st['dst'], loff), rv=_shift_rv(st['rv'], loff)))
        t = blk['term']
        if t['k'] == 'return':
            if target is None:
                nb['term'] = {'k': 'unreachable', 'line': t.get('line'), 'col': t.get('col'), 'exp': False}
            else:
                nb['stmts'].append({'dst': call['dst'], 'rv': {'k': 'use', 'ops': [{'k': 'move', 'p': {'l': loff, 'proj': []}}]},
                                    'line': t.get('line'), 'col': t.get('col'), 'exp': False})
                nb['term'] = {'k': 'goto', 'target': target, 'line': t.get('line'), 'col': t.get('col'), 'exp': False}
        else:
            nb['term'] = _shift_term(t, loff, boff, None)
        caller.blocks.append(nb)
    # `helper(..)?`: an exit of the helper that produces an error goes to the caller's error arm, not back through the
    # caller's test of the result (the merged return block would otherwise let "helper failed" reach "caller continues")
    if shape is not None and target is not None:
        T, brk = shape
        for R in rets:
            for P, blk in enumerate(callee.blocks):
                t = blk['term']
                if t['k'] in ('goto', 'drop') and t.get('target') == R and not callee.blocks[R]['stmts']:
                    if _classify_exit(callee, P) == 'err':
                        stub = {'stmts': [{'dst': call['dst'], 'rv': {'k': 'use', 'ops': [{'k': 'move', 'p': {'l': loff, 'proj': []}}]},
                                           'line': t.get('line'), 'col': t.get('col'), 'exp': False}],
                                'cleanup': False,
                                'term': {'k': 'goto', 'target': brk, 'line': t.get('line'), 'col': t.get('col'), 'exp': False, 'inlined_err_exit': True}}
                        caller.blocks.append(stub)
                        caller.blocks[boff + P]['term'] = dict(caller.blocks[boff + P]['term'], target=len(caller.blocks) - 1)
    # the call becomes: parameters := arguments; goto callee entry
    blk = caller.blocks[bb]
    for i, a in enumerate(call['args']):
        blk['stmts'].append({'dst': {'l': loff + 1 + i, 'proj': []}, 'rv': {'k': 'use', 'ops': [a]}, 'line': line, 'col': call.get('col'), 'exp': False})
    blk['term'] = {'k': 'goto', 'target': boff, 'line': line, 'col': call.get('col'), 'exp': False, 'inlined': callee.path}


def select(F):
    """{callee path: [(caller path, bb)]} of the helpers to splice"""
    anc = anchors()
    import semantic_anchors
    anc = anc | semantic_anchors.protected(F)
    sites = {}
    for p, b in F.bodies.items():
        for bi, blk in enumerate(b.blocks):
            t = blk['term']
            if t['k'] == 'call':
                c = _callee(t)
                if c in F.bodies:
                    sites.setdefault(c, []).append((p, bi))
    out = {}
    for c, ss in sites.items():
        cb = F.bodies[c]
        if cb.kind != 'fn' or cb.pub or c in anc or len(cb.blocks) > MAX_BLOCKS or not (1 <= len(ss) <= MAX_SITES):
            continue
        if any(x in c for x in ('::{', '<impl', ' as ')) or c.startswith('<'):
            continue        # trait methods / generic impl items: part of an interface, not an extracted helper
        if 'generated_contracts' in cb.file or cb.path.split('::')[-1].startswith('test'):
            continue
        if any(F.bodies[p].file != cb.file for p, _ in ss):
            continue
        if any(p == c or p.startswith(c + '::{') for p, _ in ss):
            continue        # recursive
        # an async fn's body is a coroutine constructor: leave it
        if any(k.startswith(c + '::{') and F.bodies[k].kind == 'coroutine' and F.bodies[k].parent == c and len(cb.blocks) <= 2 for k in F.bodies):
            continue
        out[c] = ss
    return out


def apply(F, log=None):
    """inline the selected helpers (innermost first, up to three rounds); returns the list of spliced (callee, caller)"""
    done = []
    for _ in range(3):
        sel = select(F)
        if not sel:
            break
        # innermost first: a helper that itself calls another selected helper waits a round
        ready = {c: ss for c, ss in sel.items() if not any(p.split('::{')[0] in sel and p.split('::{')[0] != c for p in [c])}
        progressed = False
        for c, ss in sorted(ready.items()):
            cb = F.bodies[c]
            calls_selected = any(blk['term']['k'] == 'call' and _callee(blk['term']) in sel and _callee(blk['term']) != c for blk in cb.blocks)
            if calls_selected:
                continue
            snapshot = copy.deepcopy({'locals': cb.locals, 'blocks': cb.blocks})
            for p, bi in sorted(ss, key=lambda x: -x[1]):
                caller = F.bodies[p]
                tmp = type('B', (), {})()
                tmp.locals, tmp.blocks, tmp.path = copy.deepcopy(snapshot['locals']), copy.deepcopy(snapshot['blocks']), c
                splice(caller, bi, tmp)
                caller._cfg_cache = None
                done.append((c, p))
                progressed = True
            # the helper is no longer called: take it out of the enumerable bodies (F.body() still resolves it) and hang the
            # closures defined in it under the first caller, whose copy of the closure aggregate carries the captures
            first_caller = sorted(ss)[0][0]
            for k, nbody in F.bodies.items():
                if nbody.parent == c:
                    nbody.parent = first_caller
            if not hasattr(F, 'inlined'):
                F.inlined = {}
            F.inlined[c] = F.bodies.pop(c)
        if not progressed:
            break
    if done:
        # flows / CFGs computed while selecting (semantic anchors) describe the bodies before the splice
        import flow as _flow
        import semantic_anchors as _sa
        _flow._flow_cache.clear()
        _sa._cache.clear()
        try:
            import callgraph as _cg
            _cg._cg_cache.clear()
        except Exception:
            pass
    if log is not None and done:
        log('inlined helper(s): %s' % ', '.join('%s -> %s' % (c.split('::')[-1], p.split('::')[-1]) for c, p in done))
    return done
